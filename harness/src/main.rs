//! astromon — runtime monitors for astrolabe (see /verif/DESIGN.md).
//! usage: astromon <Cnn> <quick|thorough> --build <san|rel> --seed <n> --out <file>
//!                 [--single <workload> <idx>] [--workers <n>]

mod core;
mod model;
mod props;

use crate::core::*;
use std::time::Instant;

fn main() {
    let args: Vec<String> = std::env::args().collect();
    if args.len() >= 2 && args[1] == "envprobe" {
        // child mode of the "process environment" workloads (props/envprobe.rs): exit code 0 + an OK line, or 3
        install_panic_hook();
        std::process::exit(props::envprobe::child(&args[2..]));
    }
    if args.len() < 3 {
        eprintln!("usage: astromon <Cnn> <quick|thorough> --build <san|rel> --seed <n> --out <file> [--single <workload> <idx>]");
        std::process::exit(64);
    }
    let prop: &'static str = Box::leak(args[1].clone().into_boxed_str());
    let tier = match args[2].as_str() {
        "quick" => Tier::Quick,
        "thorough" => Tier::Thorough,
        _ => {
            eprintln!("tier must be quick or thorough");
            std::process::exit(64);
        }
    };
    let mut build: &'static str = if cfg!(debug_assertions) { "san" } else { "rel" };
    let mut seed = 1u64;
    let mut out = None;
    let mut single = None;
    let mut workers = std::thread::available_parallelism().map(|n| n.get()).unwrap_or(8);
    let mut i = 3;
    while i < args.len() {
        match args[i].as_str() {
            "--build" => {
                build = if args[i + 1] == "san" { "san" } else { "rel" };
                i += 2;
            }
            "--seed" => {
                seed = args[i + 1].parse().expect("seed");
                i += 2;
            }
            "--out" => {
                out = Some(args[i + 1].clone());
                i += 2;
            }
            "--workers" => {
                workers = args[i + 1].parse().expect("workers");
                i += 2;
            }
            "--single" => {
                single = Some((args[i + 1].clone(), args[i + 2].parse().expect("idx")));
                i += 3;
            }
            other => {
                eprintln!("unknown argument {}", other);
                std::process::exit(64);
            }
        }
    }
    // The build label must match how the binary was compiled, otherwise the evidence would lie.
    let compiled = if cfg!(debug_assertions) { "san" } else { "rel" };
    if compiled != build {
        eprintln!("binary compiled as {} but asked to report as {}", compiled, build);
        std::process::exit(64);
    }
    if tier == Tier::Thorough {
        FRESH_EVERY_DEFAULT.store(997, std::sync::atomic::Ordering::Relaxed);
    }
    let ctx = Ctx { prop, tier, seed, build, workers, single };

    if let Err(e) = model::calendar::self_check() {
        println!("INCONCLUSIVE property={} reason=calendar model self-check failed: {}", prop, e);
        std::process::exit(2);
    }
    if let Err(e) = model::fmt_spec::self_check() {
        println!("INCONCLUSIVE property={} reason={}", prop, e);
        std::process::exit(2);
    }
    if let Err(e) = model::tzif_ref::self_check() {
        println!("INCONCLUSIVE property={} reason={}", prop, e);
        std::process::exit(2);
    }
    if let Err(e) = model::cron_spec::self_check() {
        println!("INCONCLUSIVE property={} reason={}", prop, e);
        std::process::exit(2);
    }
    install_panic_hook();
    let t0 = Instant::now();
    let result = props::run(&ctx);
    let wall = t0.elapsed().as_secs_f64();
    let (meta, output) = match result {
        Ok(x) => x,
        Err(reason) => {
            println!("INCONCLUSIVE property={} reason={}", prop, reason);
            std::process::exit(2);
        }
    };
    let v = result_json(&ctx, &meta, output, wall);
    let text = serde_json::to_string_pretty(&v).unwrap();
    match out {
        Some(p) => std::fs::write(&p, text).expect("write result"),
        None => println!("{}", text),
    }
}
