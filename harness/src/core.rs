//! Monitoring infrastructure shared by all property monitors: deterministic PRNG, panic trap and
//! classifier, per-worker recorder (events, bins, distinct non-trivial cases, samples, violations),
//! worker pool with a hang watchdog, and the per-build result file.

use serde_json::{json, Map, Value};
use std::cell::RefCell;
use std::collections::{BTreeMap, HashMap};
use std::ops::Range;
use std::panic::{self, AssertUnwindSafe};
use std::sync::atomic::{AtomicBool, AtomicU64, Ordering};
use std::sync::Mutex;
use std::time::{Duration, Instant};

// ------------------------------------------------------------------------------------------------
// PRNG
// ------------------------------------------------------------------------------------------------

#[derive(Clone)]
pub struct Rng(u64);

pub fn mix64(mut z: u64) -> u64 {
    z = z.wrapping_add(0x9E37_79B9_7F4A_7C15);
    z = (z ^ (z >> 30)).wrapping_mul(0xBF58_476D_1CE4_E5B9);
    z = (z ^ (z >> 27)).wrapping_mul(0x94D0_49BB_1331_11EB);
    z ^ (z >> 31)
}

pub fn hash_str(s: &str) -> u64 {
    let mut h: u64 = 0xcbf2_9ce4_8422_2325;
    for b in s.bytes() {
        h ^= b as u64;
        h = h.wrapping_mul(0x0000_0100_0000_01B3);
    }
    mix64(h)
}

pub fn hash_bytes(s: &[u8]) -> u64 {
    let mut h: u64 = 0xcbf2_9ce4_8422_2325;
    for b in s {
        h ^= *b as u64;
        h = h.wrapping_mul(0x0000_0100_0000_01B3);
    }
    mix64(h)
}

pub fn hash_i128s(vals: &[i128]) -> u64 {
    let mut h: u64 = 0x1234_5678_9abc_def0;
    for v in vals {
        h = mix64(h ^ (*v as u64));
        h = mix64(h ^ ((*v >> 64) as u64));
    }
    h
}

impl Rng {
    pub fn new(seed: u64) -> Self {
        Rng(mix64(seed))
    }
    pub fn for_case(seed: u64, workload: &str, idx: u64) -> Self {
        Rng(mix64(seed ^ hash_str(workload)).wrapping_add(mix64(idx.wrapping_mul(0x9E37_79B9_7F4A_7C15))))
    }
    pub fn next(&mut self) -> u64 {
        self.0 = self.0.wrapping_add(0x9E37_79B9_7F4A_7C15);
        let mut z = self.0;
        z = (z ^ (z >> 30)).wrapping_mul(0xBF58_476D_1CE4_E5B9);
        z = (z ^ (z >> 27)).wrapping_mul(0x94D0_49BB_1331_11EB);
        z ^ (z >> 31)
    }
    /// uniform in 0..n (n > 0)
    pub fn below(&mut self, n: u64) -> u64 {
        ((self.next() as u128 * n as u128) >> 64) as u64
    }
    /// uniform in lo..=hi
    pub fn range_i64(&mut self, lo: i64, hi: i64) -> i64 {
        let span = (hi as i128 - lo as i128 + 1) as u128;
        if span > u64::MAX as u128 {
            return self.next() as i64;
        }
        (lo as i128 + self.below(span as u64) as i128) as i64
    }
    pub fn range_i128(&mut self, lo: i128, hi: i128) -> i128 {
        let span = (hi - lo) as u128 + 1;
        let r = ((self.next() as u128) << 64) | self.next() as u128;
        lo + (r % span) as i128
    }
    pub fn chance(&mut self, num: u64, den: u64) -> bool {
        self.below(den) < num
    }
    pub fn pick<'a, T>(&mut self, xs: &'a [T]) -> &'a T {
        &xs[self.below(xs.len() as u64) as usize]
    }
}

// ------------------------------------------------------------------------------------------------
// Panic trap
// ------------------------------------------------------------------------------------------------

#[derive(Clone, Debug)]
pub struct Panic {
    pub class: &'static str,
    pub file: String,
    pub line: u32,
    pub msg: String,
}

thread_local! {
    static LAST_PANIC: RefCell<Option<Panic>> = const { RefCell::new(None) };
    static TRAP_DEPTH: std::cell::Cell<u32> = const { std::cell::Cell::new(0) };
}

pub fn classify(msg: &str) -> &'static str {
    if msg.starts_with("attempt to ") {
        "Arith"
    } else if msg.contains("out of range for slice")
        || msg.contains("index out of bounds")
        || msg.contains("is not a char boundary")
        || msg.contains("out of bounds of")
        || msg.contains("slice index starts at")
        || msg.contains("begin <= end")
        || msg.contains("byte index")
        || msg.contains("range end index")
        || msg.contains("range start index")
    {
        "Index"
    } else if msg.contains("called `Option::unwrap()`")
        || msg.contains("called `Result::unwrap()`")
        || msg.contains("This shouldn't happen")
        || msg.contains("unwrap_err")
    {
        "Unwrap"
    } else if msg.contains("capacity overflow") || msg.contains("memory allocation") {
        "Alloc"
    } else {
        "Library"
    }
}

pub fn install_panic_hook() {
    panic::set_hook(Box::new(|info| {
        let msg = if let Some(s) = info.payload().downcast_ref::<&str>() {
            s.to_string()
        } else if let Some(s) = info.payload().downcast_ref::<String>() {
            s.clone()
        } else {
            "<non-string panic payload>".to_string()
        };
        let (file, line) = match info.location() {
            Some(l) => (l.file().to_string(), l.line()),
            None => ("?".to_string(), 0),
        };
        let class = classify(&msg);
        if TRAP_DEPTH.with(|d| d.get()) == 0 {
            // a panic outside any trap is the harness's own failure: say so (the run ends inconclusive)
            println!("HARNESS PANIC at {}:{}: {}", file, line, msg);
        }
        LAST_PANIC.with(|c| {
            *c.borrow_mut() = Some(Panic { class, file, line, msg });
        });
    }));
}

/// Runs `f`, trapping any panic of the code under observation.
pub fn trap<T>(f: impl FnOnce() -> T) -> Result<T, Panic> {
    TRAP_DEPTH.with(|d| d.set(d.get() + 1));
    let r = panic::catch_unwind(AssertUnwindSafe(f));
    TRAP_DEPTH.with(|d| d.set(d.get() - 1));
    match r {
        Ok(v) => Ok(v),
        Err(_) => Err(LAST_PANIC.with(|c| c.borrow_mut().take()).unwrap_or(Panic {
            class: "Library",
            file: "?".into(),
            line: 0,
            msg: "<panic without hook record>".into(),
        })),
    }
}

/// The name of the function enclosing `file:line`, read from the source tree (for signatures that
/// survive unrelated edits). Falls back to the bare file name.
pub fn enclosing_fn(file: &str, line: u32) -> String {
    let short = file.rsplit("/src/").next().unwrap_or(file).to_string();
    if let Ok(text) = std::fs::read_to_string(file) {
        let lines: Vec<&str> = text.lines().collect();
        let mut i = (line as usize).min(lines.len());
        while i > 0 {
            i -= 1;
            let l = lines[i].trim_start();
            let l = l
                .trim_start_matches("pub(crate) ")
                .trim_start_matches("pub(super) ")
                .trim_start_matches("pub ");
            if let Some(rest) = l.strip_prefix("fn ") {
                let name: String = rest.chars().take_while(|c| c.is_alphanumeric() || *c == '_').collect();
                return format!("{}:{}", short, name);
            }
        }
    }
    short
}

impl Panic {
    pub fn site(&self) -> String {
        enclosing_fn(&self.file, self.line)
    }
    pub fn to_json(&self) -> Value {
        json!({"class": self.class, "at": format!("{}:{}", self.file, self.line), "msg": truncate(&self.msg, 300)})
    }
}

pub fn truncate(s: &str, n: usize) -> String {
    if s.chars().count() <= n {
        s.to_string()
    } else {
        let t: String = s.chars().take(n).collect();
        format!("{}…[{} chars]", t, s.chars().count())
    }
}

// ------------------------------------------------------------------------------------------------
// Context, recorder
// ------------------------------------------------------------------------------------------------

#[derive(Clone, Copy, PartialEq, Eq, Debug)]
pub enum Tier {
    Quick,
    Thorough,
}

#[derive(Clone)]
pub struct Ctx {
    pub prop: &'static str,
    pub tier: Tier,
    pub seed: u64,
    /// "san" or "rel"
    pub build: &'static str,
    pub workers: usize,
    /// replay mode: run only this (workload, idx)
    pub single: Option<(String, u64)>,
}

impl Ctx {
    pub fn quick(&self) -> bool {
        self.tier == Tier::Quick
    }
    pub fn san(&self) -> bool {
        self.build == "san"
    }
    /// A case count by tier, scaled: quick x8, thorough x6 relative to the numbers written at the call
    /// site (those were sized when the monitors were first built; the machine has room for more).
    pub fn count(&self, quick: u64, thorough: u64) -> u64 {
        if self.quick() {
            quick * 8
        } else {
            thorough * 6
        }
    }
    /// Picks a value by tier.
    pub fn n(&self, quick: u64, thorough: u64) -> u64 {
        if self.quick() {
            quick
        } else {
            thorough
        }
    }
}

pub const MAX_SAMPLES_PER_WORKLOAD: usize = 4;
pub const NONTRIVIAL_CAP_PER_WORKER: usize = 1 << 21;

#[derive(Default)]
pub struct Violation {
    pub count: u64,
    pub first: Value,
    pub workload: String,
    pub idx: u64,
}

#[derive(Default)]
pub struct Rec {
    pub evals: u64,
    pub bins: HashMap<&'static str, u64>,
    pub bins_dyn: HashMap<String, u64>,
    pub apis: HashMap<&'static str, u64>,
    pub outcomes: HashMap<&'static str, u64>,
    pub nontrivial: Vec<u64>,
    pub nontrivial_counter: u64,
    pub nontrivial_dropped: u64,
    pub samples: Vec<Value>,
    samples_this_workload: usize,
    pub violations: BTreeMap<String, Violation>,
    pub cur_workload: String,
    pub cur_idx: u64,
}

impl Rec {
    #[inline]
    pub fn eval(&mut self) {
        self.evals += 1;
    }
    #[inline]
    pub fn evals(&mut self, n: u64) {
        self.evals += n;
    }
    #[inline]
    pub fn bin(&mut self, name: &'static str) {
        *self.bins.entry(name).or_insert(0) += 1;
    }
    pub fn bin_s(&mut self, name: String) {
        *self.bins_dyn.entry(name).or_insert(0) += 1;
    }
    #[inline]
    pub fn api(&mut self, name: &'static str) {
        *self.apis.entry(name).or_insert(0) += 1;
    }
    #[inline]
    pub fn api_n(&mut self, name: &'static str, n: u64) {
        *self.apis.entry(name).or_insert(0) += n;
    }
    #[inline]
    pub fn outcome(&mut self, class: &'static str) {
        *self.outcomes.entry(class).or_insert(0) += 1;
    }
    /// Registers one non-trivial case by the hash of its concrete input (distinctness is decided
    /// after the run by sort+dedup over all workers).
    #[inline]
    pub fn nontrivial(&mut self, h: u64) {
        if self.nontrivial.len() < NONTRIVIAL_CAP_PER_WORKER {
            self.nontrivial.push(h);
        } else {
            self.nontrivial_dropped += 1;
        }
    }
    /// For exhaustive partitions: distinct by construction, only counted.
    #[inline]
    pub fn nontrivial_counted(&mut self, n: u64) {
        self.nontrivial_counter += n;
    }
    pub fn want_sample(&self) -> bool {
        self.samples_this_workload < MAX_SAMPLES_PER_WORKLOAD
    }
    pub fn sample(&mut self, f: impl FnOnce() -> Value) {
        if self.samples_this_workload < MAX_SAMPLES_PER_WORKLOAD {
            self.samples_this_workload += 1;
            let mut v = f();
            if let Value::Object(m) = &mut v {
                m.insert("workload".into(), json!(self.cur_workload));
                m.insert("idx".into(), json!(self.cur_idx));
            }
            self.samples.push(v);
        }
    }
    pub fn violation(&mut self, signature: String, witness: impl FnOnce() -> Value) {
        let e = self.violations.entry(signature).or_default();
        e.count += 1;
        if e.count == 1 {
            e.first = witness();
            e.workload = self.cur_workload.clone();
            e.idx = self.cur_idx;
        }
    }
    pub(crate) fn start_workload(&mut self, name: &str) {
        self.cur_workload = name.to_string();
        self.samples_this_workload = 0;
    }
    fn merge(&mut self, o: Rec) {
        self.evals += o.evals;
        for (k, v) in o.bins {
            *self.bins.entry(k).or_insert(0) += v;
        }
        for (k, v) in o.bins_dyn {
            *self.bins_dyn.entry(k).or_insert(0) += v;
        }
        for (k, v) in o.apis {
            *self.apis.entry(k).or_insert(0) += v;
        }
        for (k, v) in o.outcomes {
            *self.outcomes.entry(k).or_insert(0) += v;
        }
        self.nontrivial.extend(o.nontrivial);
        self.nontrivial_counter += o.nontrivial_counter;
        self.nontrivial_dropped += o.nontrivial_dropped;
        self.samples.extend(o.samples);
        for (k, v) in o.violations {
            let e = self.violations.entry(k).or_default();
            if e.count == 0 || (v.workload.as_str(), v.idx) < (e.workload.as_str(), e.idx) {
                e.first = v.first;
                e.workload = v.workload;
                e.idx = v.idx;
            }
            e.count += v.count;
        }
    }
}

// ------------------------------------------------------------------------------------------------
// Workloads and the pool
// ------------------------------------------------------------------------------------------------

pub enum Body<'a> {
    /// judged case by case; `rng` is derived from (seed, workload, idx) so any case replays alone
    Case(Box<dyn Fn(&mut Rec, u64, &mut Rng) + Sync + 'a>),
    /// judged in contiguous index chunks (exhaustive sweeps)
    Chunk(Box<dyn Fn(&mut Rec, Range<u64>) + Sync + 'a>),
}

pub struct Workload<'a> {
    pub name: &'static str,
    pub count: u64,
    pub chunk: u64,
    pub body: Body<'a>,
    /// every k-th case (idx % k == 0) runs on a brand-new thread, i.e. as the first thing that thread ever asks of
    /// the library: state the library keeps per thread (caches, memos) is then empty, while on the long-lived
    /// workers it carries whatever earlier cases left there. 0 = never.
    pub fresh_every: u64,
}

/// Default share of cases run on a fresh thread (see Workload::fresh_every): every 61st in the quick tier, every
/// 997th in the thorough tier (whose workloads are 20-100 times larger; thread creation serialises on the process's
/// memory map, so a fixed share would dominate the run without adding fresh-thread cases that matter).
pub static FRESH_EVERY_DEFAULT: AtomicU64 = AtomicU64::new(61);

/// Runs one case, on a fresh thread if the workload asks for it.
fn run_case(wl: &Workload, f: &(dyn Fn(&mut Rec, u64, &mut Rng) + Sync), rec: &mut Rec, idx: u64, rng: &mut Rng) {
    if wl.fresh_every > 0 && idx % wl.fresh_every == 0 {
        FRESH_THREAD_CASES.fetch_add(1, Ordering::Relaxed);
        let r = std::thread::scope(|s| {
            std::thread::Builder::new()
                .stack_size(16 << 20)
                .spawn_scoped(s, || f(rec, idx, rng))
                .expect("spawn fresh thread")
                .join()
        });
        if let Err(e) = r {
            std::panic::resume_unwind(e);
        }
    } else {
        f(rec, idx, rng);
    }
}

pub static FRESH_THREAD_CASES: AtomicU64 = AtomicU64::new(0);

impl<'a> Workload<'a> {
    pub fn cases(name: &'static str, count: u64, f: impl Fn(&mut Rec, u64, &mut Rng) + Sync + 'a) -> Self {
        let chunk = (count / 2048).clamp(1, 4096);
        Workload { name, count, chunk, body: Body::Case(Box::new(f)), fresh_every: FRESH_EVERY_DEFAULT.load(Ordering::Relaxed) }
    }
    /// Sets the share of cases that run on a brand-new thread (1 = every case, 0 = none).
    pub fn fresh(mut self, every: u64) -> Self {
        self.fresh_every = every;
        self
    }
    pub fn chunks(name: &'static str, count: u64, chunk: u64, f: impl Fn(&mut Rec, Range<u64>) + Sync + 'a) -> Self {
        Workload { name, count, chunk: chunk.max(1), body: Body::Chunk(Box::new(f)), fresh_every: 0 }
    }
}

pub struct RunOutput {
    pub rec: Rec,
    pub workloads: Vec<(String, u64, f64)>,
}

/// Per-case wall-clock budget after which the watchdog declares a worker stuck (a normal case costs
/// microseconds; this only exists so a non-terminating call cannot hang the check).
pub const STUCK_SECS: u64 = 30;

pub fn run_workloads(ctx: &Ctx, workloads: Vec<Workload>) -> RunOutput {
    let mut total = Rec::default();
    let mut stats = Vec::new();

    for wl in workloads.iter() {
        let t0 = Instant::now();
        if let Some((name, idx)) = &ctx.single {
            if name != wl.name {
                continue;
            }
            let mut rec = Rec::default();
            rec.start_workload(wl.name);
            rec.cur_idx = *idx;
            match &wl.body {
                Body::Case(f) => {
                    let mut rng = Rng::for_case(ctx.seed, wl.name, *idx);
                    run_case(wl, f.as_ref(), &mut rec, *idx, &mut rng);
                }
                Body::Chunk(f) => f(&mut rec, *idx..(*idx + 1)),
            }
            total.merge(rec);
            stats.push((wl.name.to_string(), 1, t0.elapsed().as_secs_f64()));
            continue;
        }
        if wl.count == 0 {
            continue;
        }
        let next = AtomicU64::new(0);
        let nworkers = ctx.workers.max(1).min(((wl.count + wl.chunk - 1) / wl.chunk).max(1) as usize);
        // heartbeat: (current idx, epoch-millis when it was set) per worker
        let beats: Vec<(AtomicU64, AtomicU64, AtomicBool)> =
            (0..nworkers).map(|_| (AtomicU64::new(0), AtomicU64::new(0), AtomicBool::new(false))).collect();
        let done = AtomicBool::new(false);
        let recs: Mutex<Vec<Rec>> = Mutex::new(Vec::new());
        let start = Instant::now();

        std::thread::scope(|s| {
            for w in 0..nworkers {
                let next = &next;
                let beats = &beats;
                let recs = &recs;
                let wl = &wl;
                let seed = ctx.seed;
                std::thread::Builder::new()
                    .stack_size(16 << 20)
                    .spawn_scoped(s, move || {
                        let mut rec = Rec::default();
                        rec.start_workload(wl.name);
                        loop {
                            let lo = next.fetch_add(wl.chunk, Ordering::Relaxed);
                            if lo >= wl.count {
                                break;
                            }
                            let hi = (lo + wl.chunk).min(wl.count);
                            match &wl.body {
                                Body::Case(f) => {
                                    for idx in lo..hi {
                                        beats[w].0.store(idx, Ordering::Relaxed);
                                        beats[w].1.store(start.elapsed().as_millis() as u64, Ordering::Relaxed);
                                        beats[w].2.store(true, Ordering::Relaxed);
                                        rec.cur_idx = idx;
                                        let mut rng = Rng::for_case(seed, wl.name, idx);
                                        run_case(wl, f.as_ref(), &mut rec, idx, &mut rng);
                                    }
                                }
                                Body::Chunk(f) => {
                                    beats[w].0.store(lo, Ordering::Relaxed);
                                    beats[w].1.store(start.elapsed().as_millis() as u64, Ordering::Relaxed);
                                    beats[w].2.store(true, Ordering::Relaxed);
                                    rec.cur_idx = lo;
                                    f(&mut rec, lo..hi);
                                }
                            }
                            beats[w].2.store(false, Ordering::Relaxed);
                        }
                        recs.lock().unwrap().push(rec);
                    })
                    .expect("spawn worker");
            }
            // watchdog (only meaningful for per-case workloads; chunk workloads get a larger budget)
            let budget_ms = match wl.body {
                Body::Case(_) => STUCK_SECS * 1000,
                Body::Chunk(_) => STUCK_SECS * 1000 * 20,
            };
            let beats = &beats;
            let done = &done;
            let recs = &recs;
            let wlname = wl.name;
            s.spawn(move || loop {
                std::thread::sleep(Duration::from_millis(200));
                if done.load(Ordering::Relaxed) || recs.lock().unwrap().len() == nworkers {
                    break;
                }
                let now = start.elapsed().as_millis() as u64;
                for b in beats.iter() {
                    if b.2.load(Ordering::Relaxed) {
                        let t = b.1.load(Ordering::Relaxed);
                        if now > t + budget_ms {
                            let idx = b.0.load(Ordering::Relaxed);
                            // A stuck worker cannot be cancelled: report and leave the process
                            // (the driver re-runs that one case alone under a generous limit).
                            emit_stuck_and_exit(wlname, idx, (now - t) / 1000);
                        }
                    }
                }
            });
            // scope joins workers; the watchdog exits once all recs are in
        });
        done.store(true, Ordering::Relaxed);
        for r in recs.into_inner().unwrap() {
            total.merge(r);
        }
        stats.push((wl.name.to_string(), wl.count, t0.elapsed().as_secs_f64()));
    }
    RunOutput { rec: total, workloads: stats }
}

fn emit_stuck_and_exit(workload: &str, idx: u64, secs: u64) -> ! {
    println!("STUCK workload={} idx={} secs={}", workload, idx, secs);
    std::process::exit(3);
}

// ------------------------------------------------------------------------------------------------
// Result file
// ------------------------------------------------------------------------------------------------

pub struct PropMeta {
    pub rule: String,
    pub required_bins: Vec<&'static str>,
    pub exhaustive: bool,
    pub assumptions: Vec<String>,
    pub extra: Map<String, Value>,
}

impl Default for PropMeta {
    fn default() -> Self {
        PropMeta { rule: String::new(), required_bins: vec![], exhaustive: false, assumptions: vec![], extra: Map::new() }
    }
}

pub fn result_json(ctx: &Ctx, meta: &PropMeta, out: RunOutput, wall_s: f64) -> Value {
    let mut rec = out.rec;
    rec.nontrivial.sort_unstable();
    rec.nontrivial.dedup();
    let distinct = rec.nontrivial.len() as u64 + rec.nontrivial_counter;

    let mut bins: BTreeMap<String, u64> = BTreeMap::new();
    for (k, v) in rec.bins.iter() {
        bins.insert(k.to_string(), *v);
    }
    for (k, v) in rec.bins_dyn.iter() {
        *bins.entry(k.clone()).or_insert(0) += *v;
    }
    for (k, name) in crate::model::instant::ROUTE_NAMES.iter().enumerate() {
        let n = crate::model::instant::ROUTE_MASKED[k].load(std::sync::atomic::Ordering::Relaxed);
        if n > 0 {
            bins.insert(format!("masked-route/{}(read-out disagrees with the model; another property's matter)", name), n);
        }
    }
    for (k, name) in crate::props::diff::TROUTE_NAMES.iter().enumerate() {
        let n = crate::props::diff::TROUTE_MASKED[k].load(std::sync::atomic::Ordering::Relaxed);
        if n > 0 {
            bins.insert(format!("masked-route/{}(read-out disagrees with the model; another property's matter)", name), n);
        }
    }
    let fresh = FRESH_THREAD_CASES.load(Ordering::Relaxed);
    if fresh > 0 {
        bins.insert("cases-run-as-the-first-calls-of-a-fresh-thread".to_string(), fresh);
    }
    let skipped: u64 = bins.iter().filter(|(k, _)| k.starts_with("skipped/")).map(|(_, v)| *v).sum();
    let mut empty_bins: Vec<String> = meta
        .required_bins
        .iter()
        .filter(|b| bins.get(**b).copied().unwrap_or(0) == 0)
        .map(|b| b.to_string())
        .collect();
    let total_cases: u64 = out.workloads.iter().map(|(_, c, _)| *c).sum();
    if skipped * 2 > total_cases.max(1) {
        // more than half of the cases could not be judged: that is "too few events", not "held"
        empty_bins.push(format!("judged-cases({}-skips-in-{}-cases:values-not-trustworthy)", skipped, total_cases));
    }
    let apis: BTreeMap<String, u64> = rec.apis.iter().map(|(k, v)| (k.to_string(), *v)).collect();
    let outcomes: BTreeMap<String, u64> = rec.outcomes.iter().map(|(k, v)| (k.to_string(), *v)).collect();

    let violations: Vec<Value> = rec
        .violations
        .iter()
        .map(|(sig, v)| {
            json!({
                "signature": sig,
                "count": v.count,
                "workload": v.workload,
                "idx": v.idx,
                "witness": v.first,
            })
        })
        .collect();

    json!({
        "property_id": ctx.prop,
        "tier": if ctx.quick() { "quick" } else { "thorough" },
        "seed": ctx.seed,
        "build": ctx.build,
        "evaluations": rec.evals,
        "distinct_nontrivial": distinct,
        "distinct_capped_dropped": rec.nontrivial_dropped,
        "rule": meta.rule,
        "exhaustive": meta.exhaustive,
        "assumptions": meta.assumptions,
        "bins": bins,
        "empty_required_bins": empty_bins,
        "calls_by_api": apis,
        "outcomes": outcomes,
        "samples": rec.samples,
        "violations": violations,
        "workloads": out.workloads.iter().map(|(n, c, s)| json!({"name": n, "cases": c, "wall_s": (s * 1000.0).round() / 1000.0})).collect::<Vec<_>>(),
        "extra": Value::Object(meta.extra.clone()),
        "wall_s": wall_s,
    })
}


/// "Straddlers": strings in which, for every byte offset c up to the given reach, some variant has a multi-byte
/// character lying across c — j ASCII characters (j = 0, 1) followed by a run of 2-byte characters, and the same with
/// 3- and 4-byte characters (j = 0..=3).  Whatever position an implementation cuts a text at (`&s[..40]`,
/// `truncate(512)`, a fixed buffer) to build a message or a key, one of these makes the cut fall inside a character.
pub fn straddlers(reach: usize) -> Vec<String> {
    let mut v = vec![];
    for (ch, w) in [('é', 2usize), ('日', 3), ('🕰', 4)] {
        for j in 0..w {
            let n = reach / w + 2;
            let mut s = "a".repeat(j);
            for _ in 0..n {
                s.push(ch);
            }
            v.push(s);
        }
    }
    v
}
