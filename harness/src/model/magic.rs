//! "Magic magnitudes": the amounts at which a natural fixed-width intermediate overflows — 2^15, 2^16, 2^31,
//! 2^32, 2^53, 2^63, 2^64 of each unit from nanoseconds to weeks.  A fast path guarded by `x <= MAX / unit`,
//! a `checked_mul` followed by an unchecked `+`, an `as i64` of a total … all go wrong in a *band* next to one of
//! these magnitudes and nowhere else, so instants (relative to 0001-01-01 and to 1970-01-01), differences of two
//! instants, counts and Durations are generated densely around them.  This is the workload side of the arithmetic
//! sanitizer: the `san` build turns the wrap into a trap, the `rel` build shows the wrapped value.
use super::instant::*;
use crate::core::Rng;
use std::sync::OnceLock;

pub const UNITS_NS: [i128; 8] = [1, 1_000, 1_000_000, NS, 60 * NS, 3_600 * NS, D, 7 * D];
const WIDTHS: [u32; 7] = [15, 16, 31, 32, 53, 63, 64];

/// All W·U (in ns) that fit into twice the representable span, ascending, deduplicated.
pub fn magnitudes() -> &'static [i128] {
    static M: OnceLock<Vec<i128>> = OnceLock::new();
    M.get_or_init(|| {
        let span = MAX_INSTANT - MIN_INSTANT;
        let mut v = vec![];
        for w in WIDTHS {
            for u in UNITS_NS {
                let m = (1i128 << w).checked_mul(u);
                if let Some(m) = m {
                    if m <= span + D {
                        v.push(m);
                        // the guard of a fast path is often MAX / unit in whole days or seconds
                        v.push(m / D * D);
                        v.push(m / NS * NS);
                    }
                }
            }
        }
        v.push(span);
        v.push(span + 1);
        v.sort();
        v.dedup();
        v.retain(|m| *m > 0);
        v
    })
}

/// A small amount to put next to a magnitude: exactly on it, one step either side, within a second / an hour / a day.
pub fn jitter(rng: &mut Rng) -> i128 {
    match rng.below(10) {
        0 | 1 => 0,
        2 => *rng.pick(&[1i128, -1, 2, -2]),
        3 => rng.range_i128(-NS + 1, NS - 1),
        4 => rng.range_i128(0, NS - 1),
        5 => *rng.pick(&[NS, -NS, 1_000, -1_000, 1_000_000, -1_000_000]),
        6 => rng.range_i128(-3_600 * NS, 3_600 * NS),
        7 => rng.range_i128(0, D - 1),
        8 => -rng.range_i128(0, D - 1),
        _ => rng.range_i128(-D, D),
    }
}

/// A signed difference of two instants next to a magnitude.
pub fn gen_delta(rng: &mut Rng) -> i128 {
    let m = *rng.pick(magnitudes());
    let k = if rng.chance(1, 6) { rng.range_i128(2, 3) } else { 1 };
    let d = m * k + jitter(rng);
    if rng.chance(1, 2) { d } else { -d }
}

/// An instant at a magnitude from 0001-01-01 or from 1970-01-01 (either side), clamped to [lo, hi].
pub fn gen_instant_at(rng: &mut Rng, lo: i128, hi: i128) -> i128 {
    let anchor = if rng.chance(1, 2) { 0 } else { UNIX_EPOCH_INSTANT };
    (anchor + gen_delta(rng)).clamp(lo, hi)
}

/// A u32 count for which count·unit is in the band just below / at / above a power-of-two number of ns
/// (the band is one day wide: a time of day is added to the product afterwards).
pub fn gen_count(rng: &mut Rng, unit: i128) -> u32 {
    let w = *rng.pick(&[31u32, 32, 63, 63, 64, 64, 64]);
    let t = (1i128 << w) / unit;
    let band = (D / unit).max(1) + 2;
    let c = match rng.below(4) {
        0 => t + rng.range_i128(-2, 2),
        1 => t - rng.range_i128(0, band),
        2 => t - rng.range_i128(0, band.min(64)),
        _ => t + rng.range_i128(-band, band),
    };
    c.clamp(0, u32::MAX as i128) as u32
}

/// A std Duration next to a magnitude (built with Duration::new, so totals at 2^64 ns ± ε are reachable).
pub fn gen_duration(rng: &mut Rng) -> std::time::Duration {
    let ns = (*rng.pick(magnitudes()) + jitter(rng)).max(0);
    std::time::Duration::new((ns / NS) as u64, (ns % NS) as u32)
}

/// A value related to `i` by one "natural" key component: the same instant, the same time of day on another day,
/// the same day at another time, a power-of-two number of units / one year / one 400-year cycle away.  Used for call
/// sequences (A, then a sibling of A, then A again): what a cache with a partial, truncated or aliased key confuses.
pub fn sibling_instant(rng: &mut Rng, i: i128, lo: i128, hi: i128) -> i128 {
    let tod = i.rem_euclid(D);
    let day = i - tod;
    let j = match rng.below(8) {
        0 => i,
        1 => day + rng.range_i128(0, D - 1),
        2 => (day + *rng.pick(&[D, -D, 7 * D, -7 * D, 365 * D, 366 * D, -365 * D, 146_097 * D, -146_097 * D]) * rng.range_i128(1, 3)) + tod,
        3 | 4 => {
            let u = *rng.pick(&UNITS_NS);
            i + *rng.pick(&[1i128, -1]) * u.saturating_mul(rng.range_i128(1, 3) << rng.range_i128(4, 40).min(62) as u32).min(hi - lo)
        }
        5 => i + *rng.pick(&[1i128, -1, NS, -NS, 1_000, -1_000_000]),
        6 => -i - 1,
        _ => i + rng.range_i128(-400 * D, 400 * D),
    };
    j.clamp(lo, hi)
}

/// A sub-second value (0..10^9 ns) next to a power of ten — where the number of digits changes, i.e. where zero
/// padding, digit counting (log10, string length) and digit-group truncation are decided.
pub fn subsec_near_power_of_ten(rng: &mut Rng) -> u32 {
    let p = 10u32.pow(rng.range_i64(1, 9) as u32);
    let j = match rng.below(3) {
        0 => rng.below(3) as u32,
        _ => rng.below(70) as u32,
    };
    let v = if rng.chance(2, 3) { p.saturating_sub(j) } else { p.saturating_add(j) };
    v.min(999_999_999)
}

/// "Representation relatives" of an instant.  A value is stored as (day number, nanosecond of the day); code that
/// folds the two fields into one key or word (equality, ordering, hashing, a memo key, a difference shortcut) is
/// only right when the radix / shift really separates them, and a bit trick (`^`, `|`, wrap-around of an unsigned
/// subtraction) only coincides with arithmetic for powers of two.  Given `i`, returns a *different-looking* `j`
/// that such a fold would confuse with `i`:
///   0  d+m, n−m·R for a radix R ∈ {2^s, 10^k} that is smaller than a day (arithmetic fold `d·R + n`)
///   1  d^x, n^(x<<s) for a shift s < 47 (xor / or fold `(d<<s) ^ n`)
///   2  same day, n ^ (k·U) or n | (k·U) for a unit U (xor used as a difference)
///   3  a difference q·U + (2^w mod U) (what is left after an unsigned wrap-around modulo a unit), either sign
/// `None` when the relative would leave [lo, hi] or the day.
pub fn alias_relative(rng: &mut Rng, i: i128, lo: i128, hi: i128) -> Option<(i128, i128, &'static str)> {
    let mut n = i.rem_euclid(D);
    let d = i.div_euclid(D);
    let (j, tag) = match rng.below(4) {
        0 => {
            let r: i128 = if rng.chance(1, 2) { 1i128 << rng.range_i64(20, 46) } else { 10i128.pow(rng.range_i64(6, 13) as u32) };
            let mmax = (D - 1) / r;
            if mmax < 1 {
                return None;
            }
            let m = rng.range_i128(1, mmax.min(8)) * if rng.chance(1, 2) { 1 } else { -1 };
            // the first value's time of day is re-drawn when n − m·R would leave the day
            if !(0..D).contains(&(n - m * r)) {
                n = if m > 0 { rng.range_i128(m * r, D - 1) } else { rng.range_i128(0, D - 1 + m * r) };
            }
            ((d + m) * D + (n - m * r), "alias/radix-fold")
        }
        1 => {
            let s = rng.range_i64(0, 46) as u32;
            let x: i64 = if rng.chance(1, 2) { 1 } else { rng.range_i64(1, 255) };
            let d2 = ((d as i64) ^ x) as i128;
            let n2 = (((n as u64) ^ ((x as u64) << s)) & ((1u64 << 47) - 1)) as i128;
            if !(0..D).contains(&n2) {
                return None;
            }
            (d2 * D + n2, "alias/xor-fold")
        }
        2 => {
            let u = *rng.pick(&[1_000i128, 1_000_000, NS, 60 * NS, 3_600 * NS]);
            let k = rng.range_i128(1, (D / u).min(1 << 20));
            let n2 = if rng.chance(2, 3) { ((n as u64) ^ ((k * u) as u64)) as i128 } else { ((n as u64) | ((k * u) as u64)) as i128 };
            if !(0..D).contains(&n2) {
                return None;
            }
            let dd = if rng.chance(1, 3) { rng.range_i128(-3, 3) } else { 0 };
            ((d + dd) * D + n2, "alias/bitwise-unit-relative")
        }
        _ => {
            let u = *rng.pick(&[1_000i128, 1_000_000, NS, 60 * NS, 3_600 * NS, D]);
            let w = *rng.pick(&[32u32, 63, 64, 64, 64, 127]);
            let res = ((1u128 << w) % (u as u128)) as i128;
            let q = match rng.below(3) { 0 => 0, 1 => rng.range_i128(0, 100), _ => rng.range_i128(0, 1 << 30) };
            let delta = q * u + res;
            let i2 = d * D + n;
            (if rng.chance(1, 2) { i2 + delta } else { i2 - delta }, "alias/wrapped-residue")
        }
    };
    let i2 = d * D + n;
    if j < lo || j > hi || i2 < lo || i2 > hi || j == i2 {
        None
    } else {
        Some((i2, j, tag))
    }
}

/// The same for a pair of times of day (both inside one day): returns (n1', n2).  For the radix fold the first time is
/// re-drawn so that the relative exists.
pub fn alias_time_pair(rng: &mut Rng, n1: u64) -> (u64, u64, &'static str) {
    let dn = D as u64;
    for _ in 0..8 {
        match rng.below(3) {
            0 => {
                let u = *rng.pick(&[1_000u64, 1_000_000, 1_000_000_000, 60_000_000_000, 3_600_000_000_000]);
                let k = rng.below((dn / u).min(1 << 20)).max(1);
                let n2 = if rng.chance(2, 3) { n1 ^ (k * u) } else { n1 | (k * u) };
                if n2 < dn && n2 != n1 {
                    return (n1, n2, "alias/bitwise-unit-relative");
                }
            }
            1 => {
                let u = *rng.pick(&[1_000u128, 1_000_000, 1_000_000_000, 60_000_000_000, 3_600_000_000_000]);
                let w = *rng.pick(&[32u32, 63, 64, 64, 64, 127]);
                let res = ((1u128 << w) % u) as u64;
                let q = rng.below((dn as u128 / u) as u64 + 1);
                let delta = q * u as u64 + res;
                if delta > 0 && delta < dn {
                    // both orders, and the earlier time with a large / small sub-unit part
                    let a = rng.below(dn - delta);
                    return if rng.chance(1, 2) { (a, a + delta, "alias/wrapped-residue") } else { (a + delta, a, "alias/wrapped-residue") };
                }
            }
            _ => {
                let s = rng.range_i64(0, 46) as u32;
                let n2 = n1 ^ (1u64 << s);
                if n2 < dn {
                    return (n1, n2, "alias/one-bit");
                }
            }
        }
    }
    (n1, n1, "alias/none")
}
