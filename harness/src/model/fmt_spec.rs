//! Reference renderer for astrolabe's documented format-symbol table (written from the doc tables of
//! Date::format / Time::format / DateTime::format, not from the implementation).

use super::calendar as cal;

#[derive(Clone, Copy, PartialEq, Eq, Debug)]
pub enum Kind {
    Date,
    Time,
    DateTime,
}

/// A value as the formatter sees it: *local* day number, *local* nanoseconds of the day, offset seconds.
#[derive(Clone, Copy, Debug)]
pub struct Val {
    pub kind: Kind,
    pub day: i64,
    pub tod: u64,
    pub off: i32,
    /// field values that have no getter-independent definition in this property (C02 owns their
    /// correctness): when set they replace the calendar model's value
    pub week: Option<u32>,
    pub doy: Option<u32>,
    pub wday_sun0: Option<u32>,
}

impl Val {
    pub fn new(kind: Kind, day: i64, tod: u64, off: i32) -> Val {
        Val { kind, day, tod, off, week: None, doy: None, wday_sun0: None }
    }
}

#[derive(Clone, Debug, PartialEq, Eq)]
pub enum Tok {
    /// literal text (already unquoted)
    Lit(String),
    /// symbol run: character, run length
    Run(char, usize),
}

pub const DATE_SYMBOLS: &str = "GyqMwdDe";
pub const TIME_SYMBOLS: &str = "abhHKkmsnXx";

pub fn is_symbol(kind: Kind, c: char) -> bool {
    match kind {
        Kind::Date => DATE_SYMBOLS.contains(c),
        Kind::Time => TIME_SYMBOLS.contains(c),
        Kind::DateTime => DATE_SYMBOLS.contains(c) || TIME_SYMBOLS.contains(c),
    }
}

/// Documented tokenisation: `''` is a literal apostrophe anywhere; a single `'` opens/closes quoted
/// literal text; outside quotes maximal runs of one character are tokens.
/// None = outside the oracle's domain (NUL character or unterminated quote).
pub fn tokenize(pattern: &str) -> Option<Vec<Tok>> {
    if pattern.contains('\0') {
        return None;
    }
    let cs: Vec<char> = pattern.chars().collect();
    let mut out: Vec<Tok> = Vec::new();
    let mut i = 0;
    let mut quoted = false;
    let mut lit = String::new();
    let push_lit = |out: &mut Vec<Tok>, s: &str| {
        if s.is_empty() {
            return;
        }
        if let Some(Tok::Lit(l)) = out.last_mut() {
            l.push_str(s);
        } else {
            out.push(Tok::Lit(s.to_string()));
        }
    };
    while i < cs.len() {
        let c = cs[i];
        if c == '\'' {
            if i + 1 < cs.len() && cs[i + 1] == '\'' {
                if quoted {
                    lit.push('\'');
                } else {
                    push_lit(&mut out, "'");
                }
                i += 2;
                continue;
            }
            if quoted {
                push_lit(&mut out, &lit);
                lit.clear();
            }
            quoted = !quoted;
            i += 1;
            continue;
        }
        if quoted {
            lit.push(c);
            i += 1;
            continue;
        }
        let mut j = i;
        while j < cs.len() && cs[j] == c {
            j += 1;
        }
        out.push(Tok::Run(c, j - i));
        i = j;
    }
    if quoted {
        return None;
    }
    Some(out)
}

pub const MONTH_ABBR: [&str; 12] = ["Jan", "Feb", "Mar", "Apr", "May", "Jun", "Jul", "Aug", "Sep", "Oct", "Nov", "Dec"];
pub const MONTH_WIDE: [&str; 12] = ["January", "February", "March", "April", "May", "June", "July", "August", "September", "October", "November", "December"];
pub const MONTH_NARROW: [&str; 12] = ["J", "F", "M", "A", "M", "J", "J", "A", "S", "O", "N", "D"];
pub const WDAY_ABBR: [&str; 7] = ["Sun", "Mon", "Tue", "Wed", "Thu", "Fri", "Sat"];
pub const WDAY_WIDE: [&str; 7] = ["Sunday", "Monday", "Tuesday", "Wednesday", "Thursday", "Friday", "Saturday"];
pub const WDAY_NARROW: [&str; 7] = ["S", "M", "T", "W", "T", "F", "S"];
pub const WDAY_SHORT: [&str; 7] = ["Su", "Mo", "Tu", "We", "Th", "Fr", "Sa"];

fn pad(n: u64, w: usize) -> String {
    format!("{:0width$}", n, width = w)
}

fn pad_signed(n: i64, w: usize) -> String {
    format!("{}{}", if n < 0 { "-" } else { "" }, pad(n.unsigned_abs(), w))
}

/// width to use: the run length if the table lists it, else the default width
fn eff(w: usize, max: usize, default: usize) -> usize {
    if w > max {
        default
    } else {
        w
    }
}

fn period(tod: u64, w: usize, with_noon: bool) -> String {
    let secs = tod / 1_000_000_000;
    let idx = match eff(w, 5, 3) {
        1 | 2 => 0,
        3 => 1,
        4 => 2,
        _ => 3,
    };
    let names: [[&str; 4]; 4] = [["AM", "PM", "noon", "midnight"], ["am", "pm", "noon", "midnight"], ["a.m.", "p.m.", "noon", "midnight"], ["a", "p", "n", "mi"]];
    let n = names[idx];
    if with_noon && secs == 0 {
        n[3].to_string()
    } else if with_noon && secs == 43_200 {
        n[2].to_string()
    } else if secs < 43_200 {
        n[0].to_string()
    } else {
        n[1].to_string()
    }
}

fn zone(off: i32, w: usize, with_z: bool) -> String {
    if with_z && off == 0 {
        return "Z".to_string();
    }
    let a = off.unsigned_abs() as u64;
    let (h, m, s) = (a / 3600, a / 60 % 60, a % 60);
    let sign = if off < 0 { "-" } else { "+" };
    match eff(w, 5, 3) {
        1 => format!("{}{}{}", sign, pad(h, 2), if m != 0 { pad(m, 2) } else { String::new() }),
        2 => format!("{}{}{}", sign, pad(h, 2), pad(m, 2)),
        3 => format!("{}{}:{}", sign, pad(h, 2), pad(m, 2)),
        4 => format!("{}{}{}{}", sign, pad(h, 2), pad(m, 2), if s != 0 { pad(s, 2) } else { String::new() }),
        _ => format!("{}{}:{}{}", sign, pad(h, 2), pad(m, 2), if s != 0 { format!(":{}", pad(s, 2)) } else { String::new() }),
    }
}

fn ordinal(q: u32) -> &'static str {
    match q {
        1 => "1st",
        2 => "2nd",
        3 => "3rd",
        _ => "4th",
    }
}

/// Renders one symbol run. Err(()) = the documentation does not define this rendering (skip the case).
pub fn render_run(v: &Val, c: char, w: usize) -> Result<String, ()> {
    if !is_symbol(v.kind, c) {
        return Ok(std::iter::repeat(c).take(w).collect());
    }
    let (y, m, d) = cal::ymd(v.day);
    let secs = v.tod / 1_000_000_000;
    let hour = secs / 3600;
    let sub = v.tod % 1_000_000_000;
    Ok(match c {
        'G' => match eff(w, 5, 4) {
            1..=3 => if y < 0 { "BC" } else { "AD" }.to_string(),
            4 => if y < 0 { "Before Christ" } else { "Anno Domini" }.to_string(),
            _ => if y < 0 { "B" } else { "A" }.to_string(),
        },
        'y' => match w {
            2 => {
                if y < 0 {
                    return Err(());
                }
                pad((y % 100) as u64, 2)
            }
            _ => pad_signed(y, w),
        },
        'q' => {
            let q = cal::quarter(m);
            match eff(w, 5, 1) {
                1 => q.to_string(),
                2 => pad(q as u64, 2),
                3 => format!("Q{}", q),
                4 => format!("{} quarter", ordinal(q)),
                _ => q.to_string(),
            }
        }
        'M' => match eff(w, 5, 4) {
            1 => m.to_string(),
            2 => pad(m as u64, 2),
            3 => MONTH_ABBR[m as usize - 1].to_string(),
            4 => MONTH_WIDE[m as usize - 1].to_string(),
            _ => MONTH_NARROW[m as usize - 1].to_string(),
        },
        'w' => pad(v.week.unwrap_or(cal::iso_week(v.day).1) as u64, eff(w, 2, 2)),
        'd' => pad(d as u64, eff(w, 2, 2)),
        'D' => pad(v.doy.unwrap_or(cal::day_of_year(v.day)) as u64, eff(w, 3, 1)),
        'e' => {
            let s0 = v.wday_sun0.unwrap_or(cal::weekday_sun0(v.day)) as usize % 7;
            let m0 = ((s0 + 6) % 7) as u64;
            match eff(w, 8, 1) {
                1 => (s0 + 1).to_string(),
                2 => pad(s0 as u64 + 1, 2),
                3 => WDAY_ABBR[s0].to_string(),
                4 => WDAY_WIDE[s0].to_string(),
                5 => WDAY_NARROW[s0].to_string(),
                6 => WDAY_SHORT[s0].to_string(),
                7 => (m0 + 1).to_string(),
                _ => pad(m0 + 1, 2),
            }
        }
        'a' => period(v.tod, w, false),
        'b' => period(v.tod, w, true),
        'h' => pad(if hour % 12 == 0 { 12 } else { hour % 12 }, eff(w, 2, 2)),
        'H' => pad(hour, eff(w, 2, 2)),
        'K' => pad(hour % 12, eff(w, 2, 2)),
        'k' => pad(if hour == 0 { 24 } else { hour }, eff(w, 2, 2)),
        'm' => pad(secs / 60 % 60, eff(w, 2, 2)),
        's' => pad(secs % 60, eff(w, 2, 2)),
        'n' => match eff(w, 5, 3) {
            1 => pad(sub / 100_000_000, 1),
            2 => pad(sub / 10_000_000, 2),
            3 => pad(sub / 1_000_000, 3),
            4 => pad(sub / 1_000, 6),
            _ => pad(sub, 9),
        },
        'X' => zone(v.off, w, true),
        'x' => zone(v.off, w, false),
        _ => unreachable!(),
    })
}

/// Renders a whole pattern. None = outside the oracle's domain / not defined by the documentation.
pub fn render(v: &Val, pattern: &str) -> Option<String> {
    let toks = tokenize(pattern)?;
    let mut s = String::new();
    for t in toks {
        match t {
            Tok::Lit(l) => s.push_str(&l),
            Tok::Run(c, w) => s.push_str(&render_run(v, c, w).ok()?),
        }
    }
    Some(s)
}

/// A coarse value-dependent class per symbol, for coverage bins.
pub fn value_class(v: &Val, c: char) -> &'static str {
    let (y, m, _) = cal::ymd(v.day);
    let secs = v.tod / 1_000_000_000;
    let hour = secs / 3600;
    match c {
        'G' => if y < 0 { "BC" } else { "AD" },
        'y' => {
            if y < 0 {
                "negative"
            } else if y >= 10_000 {
                "5+digits"
            } else if y < 1000 {
                "<4digits"
            } else {
                "4digits"
            }
        }
        'q' => ["Q1", "Q2", "Q3", "Q4"][cal::quarter(m) as usize - 1],
        'M' => if m >= 10 { "month>=10" } else { "month<10" },
        'w' => match cal::iso_week(v.day).1 {
            1 => "week1",
            52 => "week52",
            53 => "week53",
            _ => "week2-51",
        },
        'd' => "day",
        'D' => match cal::day_of_year(v.day) {
            0..=9 => "doy<10",
            10..=99 => "doy<100",
            366 => "doy366",
            _ => "doy>=100",
        },
        'e' => if v.day < 0 { "BC" } else { "AD" },
        'a' => if secs < 43_200 { "AM" } else { "PM" },
        'b' => match secs {
            0 => "midnight",
            43_200 => "noon",
            1 | 86_399 => "midnight±1s",
            43_199 | 43_201 => "noon±1s",
            _ => "other",
        },
        'h' | 'K' | 'k' | 'H' => match hour {
            0 => "hour0",
            12 => "hour12",
            1..=11 => "hour1-11",
            _ => "hour13-23",
        },
        'm' | 's' => "any",
        'n' => if v.tod % 1_000_000_000 == 0 { "zero" } else { "nonzero" },
        'X' | 'x' => {
            if v.off == 0 {
                "zero"
            } else if v.off % 60 != 0 {
                if v.off < 0 { "neg-with-seconds" } else { "pos-with-seconds" }
            } else if v.off % 3600 != 0 {
                if v.off < 0 { "neg-with-minutes" } else { "pos-with-minutes" }
            } else if v.off < 0 {
                "neg-whole-hours"
            } else {
                "pos-whole-hours"
            }
        }
        _ => "literal",
    }
}

pub fn self_check() -> Result<(), String> {
    // examples copied from the documentation tables / doc tests
    let d = cal::days_from_civil(2022, 5, 2);
    let v = Val::new(Kind::DateTime, d, (12 * 3600 + 32 * 60 + 1) * 1_000_000_000, 0);
    let cases = [
        ("yyyy/MM/dd HH:mm:ss", "2022/05/02 12:32:01"),
        ("yyyy/'MM/dd' HH:mm:ss", "2022/MM/dd 12:32:01"),
        ("yyyy/''MM/dd'' HH:mm:ss", "2022/'05/02' 12:32:01"),
        ("yyyy-MM-ddTHH:mm:ssXXX", "2022-05-02T12:32:01Z"),
        ("MMM MMMM MMMMM", "May May M"),
        ("eee eeee", "Mon Monday"),
        ("qqq qqqq", "Q2 2nd quarter"),
        ("GGGG", "Anno Domini"),
    ];
    for (p, want) in cases {
        let got = render(&v, p);
        if got.as_deref() != Some(want) {
            return Err(format!("fmt_spec self-check: {:?} -> {:?}, documentation says {:?}", p, got, want));
        }
    }
    let t = Val::new(Kind::Time, 0, 0, -(7 * 3600 + 52 * 60 + 58));
    if render(&t, "XXXXX xxxx X").as_deref() != Some("-07:52:58 -075258 -0752") {
        return Err("fmt_spec self-check: zone".into());
    }
    if tokenize("'abc").is_some() || tokenize("a''b") != Some(vec![Tok::Run('a', 1), Tok::Lit("'".into()), Tok::Run('b', 1)]) {
        return Err("fmt_spec self-check: tokenizer".into());
    }
    Ok(())
}
