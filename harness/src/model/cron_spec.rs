//! Reference semantics of the documented cron grammar (CronSchedule::parse docs + crontab(5)):
//! five whitespace-separated fields; each a comma list of `*`, `*/n`, `a`, `a-b`; minute 0-59,
//! hour 0-23, day of month 1-31, month 1-12 or jan-dec, day of week 0-7 (0/7 Sunday) or sun-sat;
//! names case-insensitive; `*/n` starts at the field minimum.

use super::calendar as cal;

#[derive(Clone, Debug, PartialEq, Eq)]
pub struct Sets {
    pub minutes: Vec<bool>,  // 60
    pub hours: Vec<bool>,    // 24
    pub dom: Vec<bool>,      // 32 (index 1..=31)
    pub months: Vec<bool>,   // 13 (index 1..=12)
    pub dow: Vec<bool>,      // 7 (0 = Sunday)
}

#[derive(Clone, Debug, PartialEq, Eq)]
pub enum Spec {
    Accept(Sets),
    Reject(&'static str),
    /// a shape the documentation does not settle (leading zeros, a-b/n, step > field size, ? L # W)
    Unspecified(&'static str),
}

#[derive(Clone, Copy, PartialEq, Eq)]
enum FieldKind {
    Numeric,
    Month,
    Dow,
}

const MONTHS: [&str; 12] = ["jan", "feb", "mar", "apr", "may", "jun", "jul", "aug", "sep", "oct", "nov", "dec"];
const DOWS: [&str; 7] = ["sun", "mon", "tue", "wed", "thu", "fri", "sat"];

enum Item {
    Ok(Vec<u32>),
    Reject(&'static str),
    Unspecified(&'static str),
}

thread_local! {
    static LENIENT_ZEROS: std::cell::Cell<bool> = const { std::cell::Cell::new(false) };
}

/// The numeric reading of an expression whose numbers may carry leading zeros (`07`, `005`).  Whether such an
/// expression is accepted is not settled by the documentation; but *if* it is accepted it can only denote the sets
/// its numbers denote (`0-07` is every day of the week, not Sunday alone).
pub fn parse_lenient(expr: &str) -> Spec {
    LENIENT_ZEROS.with(|c| c.set(true));
    let r = parse(expr);
    LENIENT_ZEROS.with(|c| c.set(false));
    r
}

fn parse_number(s: &str) -> Result<u32, Item> {
    if s.is_empty() {
        return Err(Item::Reject("empty number"));
    }
    if !s.chars().all(|c| c.is_ascii_digit()) {
        return Err(Item::Reject("stray character"));
    }
    if s.len() > 1 && s.starts_with('0') {
        if !LENIENT_ZEROS.with(|c| c.get()) {
            return Err(Item::Unspecified("leading zero"));
        }
        let t = s.trim_start_matches('0');
        if t.len() > 4 {
            return Err(Item::Reject("value outside the range"));
        }
        return Ok(if t.is_empty() { 0 } else { t.parse().unwrap() });
    }
    if s.len() > 4 {
        return Err(Item::Reject("value outside the range"));
    }
    Ok(s.parse().unwrap())
}

/// value of one endpoint: number, or a name in the month / day-of-week fields
fn parse_value(s: &str, kind: FieldKind) -> Result<u32, Item> {
    if s.is_empty() {
        return Err(Item::Reject("empty item"));
    }
    if s.chars().all(|c| c.is_ascii_digit()) {
        return parse_number(s);
    }
    let l = s.to_ascii_lowercase();
    match kind {
        FieldKind::Month => MONTHS.iter().position(|m| *m == l).map(|p| p as u32 + 1).ok_or(Item::Reject("not a month name")),
        FieldKind::Dow => DOWS.iter().position(|m| *m == l).map(|p| p as u32).ok_or(Item::Reject("not a weekday name")),
        FieldKind::Numeric => Err(Item::Reject("stray character in a numeric field")),
    }
}

fn parse_item(item: &str, min: u32, max: u32, kind: FieldKind) -> Item {
    if item.is_empty() {
        return Item::Reject("empty item");
    }
    // extensions of other cron dialects (?, L, W, #) are not part of the documented grammar
    if item.contains(['?', '#', 'L', 'W']) && item.chars().all(|c| c.is_ascii_digit() || "?#LW*-/".contains(c)) {
        return Item::Unspecified("? L W # extension");
    }
    if item == "*" {
        return Item::Ok((min..=max).collect());
    }
    if let Some(step) = item.strip_prefix("*/") {
        let n = match parse_number(step) {
            Ok(n) => n,
            Err(i) => return i,
        };
        if n == 0 {
            return Item::Reject("zero step");
        }
        if n > max - min + 1 {
            return Item::Unspecified("step larger than the field");
        }
        return Item::Ok((min..=max).step_by(n as usize).collect());
    }
    if item.contains('/') {
        // a-b/n and a/n are common cron extensions the documentation does not mention
        let mut it = item.splitn(2, '/');
        let left = it.next().unwrap_or("");
        let right = it.next().unwrap_or("");
        if !left.is_empty() && !right.is_empty() && right.chars().all(|c| c.is_ascii_digit()) && !left.contains('/') && left.chars().all(|c| c.is_ascii_alphanumeric() || c == '-') {
            return Item::Unspecified("a-b/n or a/n");
        }
        return Item::Reject("stray /");
    }
    // the day-of-week field accepts 0-7 where 7 is Sunday
    let hi = if kind == FieldKind::Dow { 7 } else { max };
    if item.contains('-') {
        let parts: Vec<&str> = item.split('-').collect();
        if parts.len() != 2 {
            return Item::Reject("malformed range");
        }
        let a = match parse_value(parts[0], kind) {
            Ok(v) => v,
            Err(i) => return i,
        };
        let b = match parse_value(parts[1], kind) {
            Ok(v) => v,
            Err(i) => return i,
        };
        if a < min || b > hi || a > hi {
            return Item::Reject("value outside the range");
        }
        if a > b {
            return Item::Reject("range start after range end");
        }
        return Item::Ok((a..=b).map(|v| if kind == FieldKind::Dow { v % 7 } else { v }).collect());
    }
    match parse_value(item, kind) {
        Ok(v) => {
            if v < min || v > hi {
                Item::Reject("value outside the range")
            } else {
                Item::Ok(vec![if kind == FieldKind::Dow { v % 7 } else { v }])
            }
        }
        Err(i) => i,
    }
}

fn parse_field(field: &str, min: u32, max: u32, kind: FieldKind, size: usize) -> Result<Vec<bool>, Spec> {
    let mut set = vec![false; size];
    let mut unspecified: Option<&'static str> = None;
    for item in field.split(',') {
        match parse_item(item, min, max, kind) {
            Item::Ok(vs) => {
                for v in vs {
                    set[v as usize] = true;
                }
            }
            Item::Reject(why) => return Err(Spec::Reject(why)),
            Item::Unspecified(why) => unspecified = Some(why),
        }
    }
    if let Some(why) = unspecified {
        return Err(Spec::Unspecified(why));
    }
    Ok(set)
}

pub fn parse(expr: &str) -> Spec {
    let fields: Vec<&str> = expr.split_whitespace().collect();
    if fields.len() != 5 {
        return Spec::Reject("not five fields");
    }
    let mut unspec: Option<Spec> = None;
    let mut get = |f: &str, min, max, kind, size| -> Result<Vec<bool>, Spec> {
        match parse_field(f, min, max, kind, size) {
            Ok(s) => Ok(s),
            Err(Spec::Unspecified(w)) => {
                if unspec.is_none() {
                    unspec = Some(Spec::Unspecified(w));
                }
                Ok(vec![false; size])
            }
            Err(e) => Err(e),
        }
    };
    let minutes = match get(fields[0], 0, 59, FieldKind::Numeric, 60) {
        Ok(s) => s,
        Err(e) => return e,
    };
    let hours = match get(fields[1], 0, 23, FieldKind::Numeric, 24) {
        Ok(s) => s,
        Err(e) => return e,
    };
    let dom = match get(fields[2], 1, 31, FieldKind::Numeric, 32) {
        Ok(s) => s,
        Err(e) => return e,
    };
    let months = match get(fields[3], 1, 12, FieldKind::Month, 13) {
        Ok(s) => s,
        Err(e) => return e,
    };
    let dow = match get(fields[4], 0, 6, FieldKind::Dow, 7) {
        Ok(s) => s,
        Err(e) => return e,
    };
    if let Some(u) = unspec {
        return u;
    }
    Spec::Accept(Sets { minutes, hours, dom, months, dow })
}

impl Sets {
    pub fn dom_restricted(&self) -> bool {
        self.dom[1..=31].iter().filter(|b| **b).count() != 31
    }
    pub fn dow_restricted(&self) -> bool {
        self.dow.iter().filter(|b| **b).count() != 7
    }
    /// Does the calendar day `n` (day number) match month and day-of-month / day-of-week?
    pub fn day_matches(&self, n: i64) -> bool {
        let (_, m, d) = cal::civil_from_days(n);
        if !self.months[m as usize] {
            return false;
        }
        let wd = cal::weekday_sun0(n) as usize;
        match (self.dom_restricted(), self.dow_restricted()) {
            (true, true) => self.dom[d as usize] || self.dow[wd],
            (true, false) => self.dom[d as usize],
            (false, true) => self.dow[wd],
            (false, false) => true,
        }
    }
    /// Does the whole minute `t` (minutes since 0001-01-01T00:00) match?
    pub fn matches(&self, t: i64) -> bool {
        let day = t.div_euclid(1440);
        let mod_ = t.rem_euclid(1440);
        self.hours[(mod_ / 60) as usize] && self.minutes[(mod_ % 60) as usize] && self.day_matches(day)
    }
    /// Earliest matching whole minute strictly after `t` (minutes since 0001-01-01T00:00), searching
    /// at most `horizon_days` days ahead.
    pub fn next_after(&self, t: i64, horizon_days: i64) -> Option<i64> {
        let start = t + 1;
        let mut day = start.div_euclid(1440);
        let mut from = start.rem_euclid(1440);
        let last_day = day + horizon_days;
        while day <= last_day {
            if self.day_matches(day) {
                let mut m = from;
                while m < 1440 {
                    let h = (m / 60) as usize;
                    if !self.hours[h] {
                        m = (m / 60 + 1) * 60;
                        continue;
                    }
                    if self.minutes[(m % 60) as usize] {
                        return Some(day * 1440 + m);
                    }
                    m += 1;
                }
            }
            day += 1;
            from = 0;
        }
        None
    }
    /// Is there any matching day within `horizon_days` after `day`?
    pub fn satisfiable_from(&self, day: i64, horizon_days: i64) -> bool {
        if !self.minutes.iter().any(|b| *b) || !self.hours.iter().any(|b| *b) {
            return false;
        }
        (day..=day + horizon_days).any(|d| self.day_matches(d))
    }
}

pub fn self_check() -> Result<(), String> {
    let s = match parse("0 10 * * Mon-Fri") {
        Spec::Accept(s) => s,
        other => return Err(format!("cron_spec: documented example not accepted: {:?}", other)),
    };
    if s.dow != vec![false, true, true, true, true, true, false] || !s.hours[10] || s.hours[9] || !s.minutes[0] || s.minutes[1] || s.dom_restricted() {
        return Err("cron_spec: 0 10 * * Mon-Fri".into());
    }
    match parse("*/5 * * * *") {
        Spec::Accept(s) if s.minutes.iter().enumerate().all(|(i, b)| *b == (i % 5 == 0)) => {}
        _ => return Err("cron_spec: */5".into()),
    }
    match parse("0 0 */10 */5 5-7") {
        Spec::Accept(s) => {
            let dom: Vec<usize> = (1..=31).filter(|d| s.dom[*d]).collect();
            let mon: Vec<usize> = (1..=12).filter(|d| s.months[*d]).collect();
            if dom != vec![1, 11, 21, 31] || mon != vec![1, 6, 11] || s.dow != vec![true, false, false, false, false, true, true] {
                return Err("cron_spec: steps start at the field minimum / 5-7".into());
            }
        }
        _ => return Err("cron_spec: steps".into()),
    }
    for bad in ["* * * *", "* * * * * *", "60 * * * *", "* 24 * * *", "* * 0 * *", "* * 32 * *", "* * * 13 *", "* * * * 8", "*/0 * * * *", "5-1 * * * *", "1,,2 * * * *", "1- * * * *", "-1 * * * *", "a * * * *", "* * * bla *", "1-2-3 * * * *", "* * * */+5 *", "", "* * * * mon-"] {
        if !matches!(parse(bad), Spec::Reject(_)) {
            return Err(format!("cron_spec: {:?} should be rejected, got {:?}", bad, parse(bad)));
        }
    }
    // 2022-01-01T00:00 + "0 0 20 * mon": Jan 3, 10, 17, 20 (documented in-crate test)
    if let Spec::Accept(s) = parse("0 0 20 * mon") {
        let t0 = cal::days_from_civil(2022, 1, 1) * 1440;
        let mut t = t0;
        let mut got = vec![];
        for _ in 0..4 {
            t = s.next_after(t, 400).ok_or("cron_spec: next_after")?;
            got.push(cal::civil_from_days(t.div_euclid(1440)).2);
        }
        if got != vec![3, 10, 17, 20] {
            return Err(format!("cron_spec: dom/dow OR rule: {:?}", got));
        }
    }
    Ok(())
}
