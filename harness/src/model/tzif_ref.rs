//! Reference TZif reader (RFC 8536, versions 1–3) and POSIX TZ rule evaluator, written from the RFC and
//! POSIX; cross-checked against CPython's zoneinfo by tools/tz_crosscheck.py.

use super::calendar as cal;

#[derive(Clone, Debug, PartialEq, Eq)]
pub enum RuleDay {
    /// Jn: 1..=365, February 29 never counted
    J(u32),
    /// n: 0..=365, February 29 counted in leap years
    N(u32),
    /// Mm.w.d
    M(u32, u32, u32),
}

#[derive(Clone, Debug, PartialEq, Eq)]
pub enum PosixTz {
    Fixed(i32),
    Rule { std: i32, dst: i32, start: (RuleDay, i32), end: (RuleDay, i32) },
}

#[derive(Clone, Debug)]
pub struct RefTz {
    pub version: u8,
    pub transitions: Vec<i64>,
    pub type_idx: Vec<u8>,
    /// (utoff, is_dst)
    pub types: Vec<(i32, bool)>,
    pub footer: Option<PosixTz>,
    pub footer_text: String,
    pub leap_count: usize,
}

struct Cur<'a> {
    b: &'a [u8],
    p: usize,
}

impl<'a> Cur<'a> {
    fn take(&mut self, n: usize) -> Result<&'a [u8], String> {
        if self.p + n > self.b.len() {
            return Err("truncated".into());
        }
        let s = &self.b[self.p..self.p + n];
        self.p += n;
        Ok(s)
    }
    fn u32(&mut self) -> Result<u32, String> {
        let s = self.take(4)?;
        Ok(u32::from_be_bytes([s[0], s[1], s[2], s[3]]))
    }
}

struct Header {
    version: u8,
    isut: usize,
    isstd: usize,
    leap: usize,
    time: usize,
    typ: usize,
    chr: usize,
}

fn header(c: &mut Cur) -> Result<Header, String> {
    if c.take(4)? != b"TZif" {
        return Err("bad magic".into());
    }
    let v = c.take(1)?[0];
    let version = match v {
        0 => 1,
        b'2' => 2,
        b'3' => 3,
        b'4' => 4,
        _ => return Err("bad version".into()),
    };
    c.take(15)?;
    Ok(Header { version, isut: c.u32()? as usize, isstd: c.u32()? as usize, leap: c.u32()? as usize, time: c.u32()? as usize, typ: c.u32()? as usize, chr: c.u32()? as usize })
}

pub fn parse(bytes: &[u8]) -> Result<RefTz, String> {
    let mut c = Cur { b: bytes, p: 0 };
    let h1 = header(&mut c)?;
    let (h, tsize) = if h1.version == 1 {
        (h1, 4usize)
    } else {
        // skip the v1 block
        let skip = h1.time * 4 + h1.time + h1.typ * 6 + h1.chr + h1.leap * 8 + h1.isstd + h1.isut;
        c.take(skip)?;
        (header(&mut c)?, 8usize)
    };
    let mut transitions = Vec::with_capacity(h.time);
    for _ in 0..h.time {
        let s = c.take(tsize)?;
        transitions.push(if tsize == 4 { i32::from_be_bytes([s[0], s[1], s[2], s[3]]) as i64 } else { i64::from_be_bytes([s[0], s[1], s[2], s[3], s[4], s[5], s[6], s[7]]) });
    }
    let type_idx = c.take(h.time)?.to_vec();
    let mut types = Vec::with_capacity(h.typ);
    for _ in 0..h.typ {
        let s = c.take(6)?;
        types.push((i32::from_be_bytes([s[0], s[1], s[2], s[3]]), s[4] != 0));
    }
    c.take(h.chr)?;
    c.take(h.leap * (tsize + 4))?;
    c.take(h.isstd)?;
    c.take(h.isut)?;
    if types.is_empty() {
        return Err("no local time types".into());
    }
    if type_idx.iter().any(|i| *i as usize >= types.len()) {
        return Err("type index out of range".into());
    }
    if transitions.windows(2).any(|w| w[0] >= w[1]) {
        return Err("transitions not ascending".into());
    }
    let (footer, footer_text) = if h.version >= 2 {
        let rest = &bytes[c.p..];
        if rest.len() < 2 || rest[0] != b'\n' || *rest.last().unwrap() != b'\n' {
            return Err("footer not newline-enclosed".into());
        }
        let text = std::str::from_utf8(&rest[1..rest.len() - 1]).map_err(|_| "footer not utf-8".to_string())?.to_string();
        if text.is_empty() {
            (None, text)
        } else {
            (Some(parse_posix_tz(&text, h.version >= 3)?), text)
        }
    } else {
        (None, String::new())
    };
    Ok(RefTz { version: h.version, transitions, type_idx, types, footer, footer_text, leap_count: h.leap })
}

// ---- POSIX TZ strings ----

struct S<'a> {
    b: &'a [u8],
    p: usize,
}

impl<'a> S<'a> {
    fn peek(&self) -> Option<u8> {
        self.b.get(self.p).copied()
    }
    fn eat(&mut self, c: u8) -> bool {
        if self.peek() == Some(c) {
            self.p += 1;
            true
        } else {
            false
        }
    }
    fn number(&mut self) -> Result<i64, String> {
        let s = self.p;
        while matches!(self.peek(), Some(b'0'..=b'9')) {
            self.p += 1;
        }
        if s == self.p || self.p - s > 6 {
            return Err("number expected".into());
        }
        Ok(std::str::from_utf8(&self.b[s..self.p]).unwrap().parse().unwrap())
    }
    fn name(&mut self) -> Result<(), String> {
        if self.eat(b'<') {
            let s = self.p;
            while matches!(self.peek(), Some(c) if c != b'>') {
                self.p += 1;
            }
            if self.p - s < 3 || !self.eat(b'>') {
                return Err("bad quoted name".into());
            }
        } else {
            let s = self.p;
            while matches!(self.peek(), Some(c) if c.is_ascii_alphabetic()) {
                self.p += 1;
            }
            if self.p - s < 3 {
                return Err("name too short".into());
            }
        }
        Ok(())
    }
    /// [+-]hh[:mm[:ss]] → seconds
    fn hms(&mut self, max_hours: i64, allow_sign: bool) -> Result<i32, String> {
        let mut sign = 1;
        if allow_sign {
            if self.eat(b'-') {
                sign = -1;
            } else {
                self.eat(b'+');
            }
        }
        let h = self.number()?;
        let (mut m, mut s) = (0, 0);
        if self.eat(b':') {
            m = self.number()?;
            if self.eat(b':') {
                s = self.number()?;
            }
        }
        if h > max_hours || m > 59 || s > 59 {
            return Err("time field out of range".into());
        }
        Ok((sign * (h * 3600 + m * 60 + s)) as i32)
    }
    fn rule(&mut self, v3: bool) -> Result<(RuleDay, i32), String> {
        let day = if self.eat(b'J') {
            let n = self.number()?;
            if !(1..=365).contains(&n) {
                return Err("Jn out of range".into());
            }
            RuleDay::J(n as u32)
        } else if self.eat(b'M') {
            let m = self.number()?;
            if !self.eat(b'.') {
                return Err(". expected".into());
            }
            let w = self.number()?;
            if !self.eat(b'.') {
                return Err(". expected".into());
            }
            let d = self.number()?;
            if !(1..=12).contains(&m) || !(1..=5).contains(&w) || !(0..=6).contains(&d) {
                return Err("Mm.w.d out of range".into());
            }
            RuleDay::M(m as u32, w as u32, d as u32)
        } else {
            let n = self.number()?;
            if !(0..=365).contains(&n) {
                return Err("n out of range".into());
            }
            RuleDay::N(n as u32)
        };
        let time = if self.eat(b'/') { self.hms(if v3 { 167 } else { 24 }, v3)? } else { 7200 };
        Ok((day, time))
    }
}

pub fn parse_posix_tz(text: &str, v3: bool) -> Result<PosixTz, String> {
    let mut s = S { b: text.as_bytes(), p: 0 };
    s.name()?;
    let std = -s.hms(24, true)?;
    if s.p == s.b.len() {
        return Ok(PosixTz::Fixed(std));
    }
    s.name()?;
    let dst = if s.peek() == Some(b',') { std + 3600 } else { -s.hms(24, true)? };
    if !s.eat(b',') {
        return Err(", expected".into());
    }
    let start = s.rule(v3)?;
    if !s.eat(b',') {
        return Err(", expected".into());
    }
    let end = s.rule(v3)?;
    if s.p != s.b.len() {
        return Err("trailing text".into());
    }
    Ok(PosixTz::Rule { std, dst, start, end })
}

/// Day (days since 1970-01-01) on which the rule falls in astronomical year `y`.
pub fn rule_day(r: &RuleDay, y: i64) -> i64 {
    let jan1 = cal::days_from_civil(y, 1, 1) - cal::DAYS_TO_1970;
    match r {
        RuleDay::J(n) => jan1 + (*n as i64 - 1) + if cal::is_leap_astro(y) && *n >= 60 { 1 } else { 0 },
        RuleDay::N(n) => jan1 + *n as i64,
        RuleDay::M(m, w, d) => {
            let first = cal::days_from_civil(y, *m, 1) - cal::DAYS_TO_1970;
            // weekday of `first`: 1970-01-01 is a Thursday (4, Sunday = 0)
            let wd = (first + 4).rem_euclid(7);
            let mut day = first + (*d as i64 - wd).rem_euclid(7) + 7 * (*w as i64 - 1);
            let mlen = cal::month_len(y, *m) as i64;
            if day >= first + mlen {
                day -= 7;
            }
            day
        }
    }
}

impl PosixTz {
    /// (utoff, is_dst) at Unix time `t`
    pub fn at(&self, t: i64) -> (i32, bool) {
        match self {
            PosixTz::Fixed(o) => (*o, false),
            PosixTz::Rule { std, dst, start, end } => {
                let y = cal::civil_from_days(t.div_euclid(86_400) + cal::DAYS_TO_1970).0;
                let mut events: Vec<(i64, bool)> = vec![];
                for yy in [y - 1, y, y + 1] {
                    events.push((rule_day(&start.0, yy) * 86_400 + start.1 as i64 - *std as i64, true));
                    events.push((rule_day(&end.0, yy) * 86_400 + end.1 as i64 - *dst as i64, false));
                }
                events.sort();
                let mut state = None;
                for (when, to_dst) in events {
                    if when <= t {
                        state = Some(to_dst);
                    }
                }
                match state {
                    Some(true) => (*dst, true),
                    _ => (*std, false),
                }
            }
        }
    }
    /// UTC switch instants of year `y`: (dst start, dst end)
    pub fn switches(&self, y: i64) -> Option<(i64, i64)> {
        match self {
            PosixTz::Fixed(_) => None,
            PosixTz::Rule { std, dst, start, end } => Some((rule_day(&start.0, y) * 86_400 + start.1 as i64 - *std as i64, rule_day(&end.0, y) * 86_400 + end.1 as i64 - *dst as i64)),
        }
    }
    /// IANA-shaped: the two yearly switch-overs are more than a week apart and more than a week from
    /// 1 January, in every sampled year (after applying /time).
    pub fn iana_shaped(&self) -> bool {
        match self {
            PosixTz::Fixed(_) => true,
            PosixTz::Rule { .. } => [1995i64, 1996, 2000, 2023, 2024, 2100, 2400].iter().all(|y| {
                let (a, b) = self.switches(*y).unwrap();
                let jan1 = (cal::days_from_civil(*y, 1, 1) - cal::DAYS_TO_1970) * 86_400;
                let next = (cal::days_from_civil(*y + 1, 1, 1) - cal::DAYS_TO_1970) * 86_400;
                let wk = 8 * 86_400;
                (a - b).abs() > wk && a - jan1 > wk && b - jan1 > wk && next - a > wk && next - b > wk
            }),
        }
    }
}

impl RefTz {
    /// Offset RFC 8536 prescribes at Unix time `t`; None before the first transition (not claimed).
    pub fn offset_at(&self, t: i64) -> Option<(i32, &'static str)> {
        if self.transitions.is_empty() {
            return Some(match &self.footer {
                Some(f) => (f.at(t).0, "no-transitions/footer"),
                None => (self.types[0].0, "no-transitions/type0"),
            });
        }
        if t < self.transitions[0] {
            return None;
        }
        let last = *self.transitions.last().unwrap();
        if t >= last {
            if let Some(f) = &self.footer {
                let (o, d) = f.at(t);
                return Some((o, if t == last { "at-last-transition/footer" } else if d { "after-last/footer-dst" } else { "after-last/footer-std" }));
            }
        }
        let idx = self.transitions.partition_point(|x| *x <= t) - 1;
        let o = self.types[self.type_idx[idx] as usize].0;
        Some((o, if self.transitions[idx] == t { "at-a-transition" } else { "between-transitions" }))
    }
    /// RFC 8536 §3.3: the footer must agree with the last transition's type at that instant.
    pub fn footer_consistent(&self) -> bool {
        match (&self.footer, self.transitions.last()) {
            (Some(f), Some(last)) => f.at(*last).0 == self.types[*self.type_idx.last().unwrap() as usize].0,
            _ => true,
        }
    }
}

pub fn self_check() -> Result<(), String> {
    // vectors from astrolabe's own in-crate tests (CET-1CEST,J100,J200 / 99,199 / M3.5.0,M10.5.0)
    let j = parse_posix_tz("CET-1CEST,J100,J200", true)?;
    for (t, want) in [(1672531200i64, 3600), (1681088400 - 1, 3600), (1681088400, 7200), (1689724800 - 1, 7200), (1689724800, 3600), (1712710800 - 1, 3600), (1712710800, 7200), (1721347200, 3600)] {
        if j.at(t).0 != want {
            return Err(format!("tzif_ref: J rule at {}: {} != {}", t, j.at(t).0, want));
        }
    }
    let n = parse_posix_tz("CET-1CEST,99,199", true)?;
    for (t, want) in [(1681088400 - 1, 3600), (1681088400, 7200), (1712624400 - 1, 3600), (1712624400, 7200), (1721260800, 3600)] {
        if n.at(t).0 != want {
            return Err(format!("tzif_ref: n rule at {}", t));
        }
    }
    let m = parse_posix_tz("CET-1CEST,M3.5.0,M10.5.0", true)?;
    for (t, want) in [(1679792400 - 1, 3600), (1679792400, 7200), (1698537600 - 1, 7200), (1698537600, 3600)] {
        if m.at(t).0 != want {
            return Err(format!("tzif_ref: M rule at {}", t));
        }
    }
    let s = parse_posix_tz("CET-1CEST,M10.5.0,M3.5.0", true)?;
    for (t, want) in [(1672531200i64, 7200), (1679788800 - 1, 7200), (1679788800, 3600), (1698541200, 7200)] {
        if s.at(t).0 != want {
            return Err(format!("tzif_ref: southern rule at {}", t));
        }
    }
    if parse_posix_tz("<-03>3", false)? != PosixTz::Fixed(-10_800) || parse_posix_tz("IST-1GMT0,M10.5.0,M3.5.0/1", false).is_err() {
        return Err("tzif_ref: posix strings".into());
    }
    Ok(())
}
