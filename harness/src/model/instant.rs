//! Instant model: an instant is an i128 count of nanoseconds since 0001-01-01T00:00:00Z.
//! Local fields under offset `o` seconds are the calendar/clock fields of `i + o·10⁹`.

use super::calendar as cal;
use astrolabe::{DateTime, DateUtilities, Offset, OffsetUtilities, Time, TimeUtilities};

pub const NS: i128 = 1_000_000_000;
pub const D: i128 = 86_400 * NS;
pub const MIN_INSTANT: i128 = i32::MIN as i128 * D;
pub const MAX_INSTANT: i128 = i32::MAX as i128 * D + D - 1;
pub const UNIX_EPOCH_INSTANT: i128 = cal::DAYS_TO_1970 as i128 * D;
pub const MIN_TS: i64 = (i32::MIN as i64 - cal::DAYS_TO_1970) * 86_400;
pub const MAX_TS: i64 = (i32::MAX as i64 - cal::DAYS_TO_1970) * 86_400 + 86_399;

#[inline]
pub fn representable(i: i128) -> bool {
    (MIN_INSTANT..=MAX_INSTANT).contains(&i)
}

#[derive(Clone, Copy, Debug, PartialEq, Eq)]
pub struct Fields {
    pub day: i64,
    pub year: i64,
    pub month: u32,
    pub dom: u32,
    pub hour: u32,
    pub minute: u32,
    pub second: u32,
    /// nanoseconds within the second
    pub subsec: u32,
}

/// Fields of a *local* instant (already shifted by the offset).
pub fn fields(local: i128) -> Fields {
    let day = local.div_euclid(D) as i64;
    let tod = local.rem_euclid(D);
    let (year, month, dom) = cal::ymd(day);
    let secs = (tod / NS) as u32;
    Fields {
        day,
        year,
        month,
        dom,
        hour: secs / 3600,
        minute: secs / 60 % 60,
        second: secs % 60,
        subsec: (tod % NS) as u32,
    }
}

/// Builds the astrolabe value for UTC instant `i` (must be representable) through the public API:
/// `from_timestamp(floor seconds)` then `add_nanos(sub-second)`.
pub fn mk(i: i128) -> DateTime {
    debug_assert!(representable(i));
    let secs = i.div_euclid(NS);
    let sub = i.rem_euclid(NS) as u32;
    let ts = (secs - cal::DAYS_TO_1970 as i128 * 86_400) as i64;
    let dt = DateTime::from_timestamp(ts);
    if sub == 0 {
        dt
    } else {
        dt.add_nanos(sub)
    }
}

/// Builds a value at instant `i` carrying offset `off` seconds (instant unchanged).
pub fn mk_off(i: i128, off: i32) -> DateTime {
    mk(i).set_offset(Offset::Fixed(off))
}

/// Reads the UTC instant of a value back through the public API (`nanos_since` the default value,
/// which is 0001-01-01T00:00:00Z).
#[inline]
pub fn read(dt: &DateTime) -> i128 {
    dt.nanos_since(&DateTime::default())
}

/// Second, independent read-back route: `timestamp()` of the value (UTC) and the local `nano()`.
/// Sub-second digits do not depend on a whole-second offset.
#[inline]
pub fn read_via_timestamp(dt: &DateTime) -> i128 {
    (dt.timestamp() as i128 + cal::DAYS_TO_1970 as i128 * 86_400) * NS + dt.nano() as i128
}

pub fn offset_secs(dt: &DateTime) -> Option<i32> {
    match dt.get_offset() {
        Offset::Fixed(s) => Some(s),
        Offset::Local => None,
    }
}

pub fn time_offset_secs(t: &Time) -> Option<i32> {
    match t.get_offset() {
        Offset::Fixed(s) => Some(s),
        Offset::Local => None,
    }
}

/// Human-readable rendering of a model instant for witnesses (UTC fields).
pub fn show(i: i128) -> String {
    let f = fields(i);
    format!(
        "{}{:04}-{:02}-{:02}T{:02}:{:02}:{:02}.{:09}Z",
        if f.year < 0 { "-" } else { "" },
        f.year.abs(),
        f.month,
        f.dom,
        f.hour,
        f.minute,
        f.second,
        f.subsec
    )
}

/// Stratified instant generator shared by several monitors.
/// strata: 0 era boundary ±5 d, 1 low range end, 2 high range end, 3 1970±80 y, 4 uniform,
/// 5 second-aligned near 0001, 6 exact day boundaries ± few ns, 7 years 1..9999,
/// 8 at a "magic magnitude" (2^k of some unit) from 0001-01-01 or 1970-01-01, 9 within a second of a range end
pub fn gen_instant(rng: &mut crate::core::Rng, margin_days: i128) -> (i128, u8) {
    let lo = MIN_INSTANT + margin_days * D;
    let hi = MAX_INSTANT - margin_days * D;
    let s = rng.below(10) as u8;
    let i = match s {
        0 => rng.range_i128(-5 * D, 5 * D),
        1 => lo + rng.range_i128(0, 3 * D),
        2 => hi - rng.range_i128(0, 3 * D),
        3 => UNIX_EPOCH_INSTANT + rng.range_i128(-80 * 366 * D, 80 * 366 * D),
        4 => rng.range_i128(lo, hi),
        5 => rng.range_i128(-3 * 86_400, 3 * 86_400) * NS,
        6 => {
            let day = match rng.below(3) {
                0 => rng.range_i128(-3, 3),
                1 => cal::DAYS_TO_1970 as i128 + rng.range_i128(-20_000, 60_000),
                _ => rng.range_i128(lo / D + 1, hi / D - 1),
            };
            day * D + *rng.pick(&[-2i128, -1, 0, 1, 2, NS - 1, NS, -NS, D - 1])
        }
        8 => super::magic::gen_instant_at(rng, lo, hi),
        9 => {
            let e = *rng.pick(&[0i128, 0, 1, NS - 1, NS, NS + 1]) + if rng.chance(1, 2) { rng.range_i128(0, NS - 1) } else { 0 };
            if rng.chance(1, 2) { lo + e } else { hi - e }
        }
        _ => rng.range_i128(0, cal::days_from_civil(9999, 12, 31) as i128 * D + D - 1),
    };
    (i.clamp(lo, hi), s)
}

/// Offsets: full ±86 399 s range, stratified.
pub fn gen_offset(rng: &mut crate::core::Rng) -> i32 {
    match rng.below(6) {
        0 => 0,
        1 => rng.range_i64(-23, 23) as i32 * 3600,
        2 => rng.range_i64(-1439, 1439) as i32 * 60,
        3 => *rng.pick(&[86_399, -86_399, 1, -1, 3599, -3599, 43_200, -43_200]),
        _ => rng.range_i64(-86_399, 86_399) as i32,
    }
}

/// Like gen_offset, but one case in ten carries an `Offset::Fixed` of a day or more (up to the i32 extremes). The
/// variant is public, `set_offset` accepts it, and statements that do not speak about the offset at all (ordering,
/// differences, arithmetic, month shifts, weekday of the value's own day) quantify over such values too.
pub fn gen_offset_any(rng: &mut crate::core::Rng) -> i32 {
    if rng.chance(1, 10) {
        match rng.below(3) {
            0 => *rng.pick(&[86_400i32, -86_400, 86_401, -86_401, 172_800, -172_800, 200_000, -200_000, 1_000_000, -1_000_000]),
            1 => rng.range_i64(-40_000_000, 40_000_000) as i32,
            _ => *rng.pick(&[i32::MAX, i32::MIN, i32::MIN + 1, 1 << 30, -(1 << 30)]),
        }
    } else {
        gen_offset(rng)
    }
}

// ------------------------------------------------------------------------------------------------
// Differential observation (keeps one property's verdict independent of defects in the read-out or
// construction routes that other properties own): a result is never compared with the model
// directly but with an *independently constructed* value of the expected instant, both read through
// the same routes; and a case is only judged when its inputs and its expected value are "sane", i.e.
// every route agrees with the model there.
// ------------------------------------------------------------------------------------------------

/// Everything the public API says about one DateTime, one entry per read-out *route*.
#[derive(Clone, Debug, PartialEq)]
pub struct Obs {
    /// nanos_since(0001-01-01T00:00Z)
    pub ns_since: i128,
    /// timestamp() and nano() of the offset-free copy
    pub via_ts: i128,
    pub off: Option<i32>,
    /// as_ymdhms(): UTC fields
    pub utc: (i32, u32, u32, u32, u32, u32),
    /// local getters: year month day day_of_year weekday hour minute second milli micro nano
    /// (None when the local time is within a day of the range ends, where getters may legitimately panic)
    pub local: Option<(i64, u32, u32, u32, u32, u32, u32, u32, u32, u32, u32)>,
    /// routes taken out of the comparison (bit per route, see ROUTE_NAMES): their read-out disagrees with the
    /// model at the independently built expected value, so they say nothing about the operation under judgement
    pub masked: u16,
}

pub const ROUTE_NAMES: [&str; 15] = ["nanos_since", "timestamp+nano", "get_offset", "as_ymdhms", "year", "month", "day", "day_of_year", "weekday", "hour", "minute", "second", "milli", "micro", "nano"];
const R_NS: u16 = 1 << 0;
const R_TS: u16 = 1 << 1;
const R_OFF: u16 = 1 << 2;
const R_UTC: u16 = 1 << 3;

/// How often each route was masked (all workers); reported as bins by core::result_json.
pub static ROUTE_MASKED: [std::sync::atomic::AtomicU64; 15] = [const { std::sync::atomic::AtomicU64::new(0) }; 15];

fn local_ok(i: i128, off: i32) -> bool {
    let l = i + off as i128 * NS;
    l > MIN_INSTANT + D && l < MAX_INSTANT - D && i > MIN_INSTANT + D && i < MAX_INSTANT - D
}

/// Reads a value through every route. `with_local` must be decided from the *model* (local_ok of
/// the instant the value is supposed to have). May panic — call inside `trap`.
pub fn observe(dt: &DateTime, with_local: bool) -> Obs {
    Obs {
        ns_since: read(dt),
        via_ts: read_via_timestamp(&dt.set_offset(Offset::Fixed(0))),
        off: offset_secs(dt),
        utc: dt.as_ymdhms(),
        local: if with_local {
            Some((dt.year() as i64, dt.month(), dt.day(), dt.day_of_year(), dt.weekday() as u32, dt.hour(), dt.minute(), dt.second(), dt.milli(), dt.micro(), dt.nano()))
        } else {
            None
        },
        masked: 0,
    }
}

/// What the model says every route should show for instant `i` carrying offset `off`.
pub fn model_observe(i: i128, off: i32) -> Obs {
    let u = fields(i);
    let with_local = local_ok(i, off);
    let l = fields(i + off as i128 * NS);
    Obs {
        ns_since: i,
        via_ts: i,
        off: Some(off),
        utc: (u.year as i32, u.month, u.dom, u.hour, u.minute, u.second),
        local: if with_local {
            Some((l.year, l.month, l.dom, cal::day_of_year(l.day), cal::weekday_sun0(l.day), l.hour, l.minute, l.second, l.subsec / 1_000_000, l.subsec / 1_000, l.subsec))
        } else {
            None
        },
        masked: 0,
    }
}

impl Obs {
    fn local_arr(&self) -> Option<[i64; 11]> {
        self.local.map(|l| [l.0, l.1 as i64, l.2 as i64, l.3 as i64, l.4 as i64, l.5 as i64, l.6 as i64, l.7 as i64, l.8 as i64, l.9 as i64, l.10 as i64])
    }
    /// Bit per route on which the two observations differ.
    pub fn mismatch_bits(&self, m: &Obs) -> u16 {
        let mut b = 0u16;
        if self.ns_since != m.ns_since {
            b |= R_NS;
        }
        if self.via_ts != m.via_ts {
            b |= R_TS;
        }
        if self.off != m.off {
            b |= R_OFF;
        }
        if self.utc != m.utc {
            b |= R_UTC;
        }
        match (self.local_arr(), m.local_arr()) {
            (Some(a), Some(c)) => {
                for k in 0..11 {
                    if a[k] != c[k] {
                        b |= 1 << (4 + k);
                    }
                }
            }
            (None, None) => {}
            _ => b |= 0x7FF << 4,
        }
        b
    }
    /// Replaces the masked routes by neutral constants (so that equality, first_difference and to_json keep working).
    pub fn neutralize(&mut self, masked: u16) {
        self.masked = masked;
        if masked & R_NS != 0 {
            self.ns_since = 0;
        }
        if masked & R_TS != 0 {
            self.via_ts = 0;
        }
        if masked & R_UTC != 0 {
            self.utc = (0, 0, 0, 0, 0, 0);
        }
        if let Some(l) = self.local_arr() {
            let mut l = l;
            for k in 0..11 {
                if masked & (1 << (4 + k)) != 0 {
                    l[k] = 0;
                }
            }
            self.local = Some((l[0], l[1] as u32, l[2] as u32, l[3] as u32, l[4] as u32, l[5] as u32, l[6] as u32, l[7] as u32, l[8] as u32, l[9] as u32, l[10] as u32));
        }
    }
    pub fn masked_names(&self) -> Vec<&'static str> {
        (0..15).filter(|k| self.masked & (1 << k) != 0).map(|k| ROUTE_NAMES[k]).collect()
    }
}

/// Is a freshly built value trustworthy, given on which routes it disagrees with the model?  The offset must read
/// back, at least one of the two instant routes must agree, and of the three structural routes (nanos_since,
/// timestamp, as_ymdhms) at most one may disagree: a single broken read-out is masked, whereas a wrongly
/// *constructed* value (another property's defect) shows on several routes at once and is not trusted.
fn trusted(bits: u16, ignore_ns_since: bool) -> bool {
    let bits = if ignore_ns_since { bits & !R_NS } else { bits };
    if bits & R_OFF != 0 {
        return false;
    }
    let instant_ok = (bits & R_TS == 0) || (!ignore_ns_since && bits & R_NS == 0);
    let structural_bad = (bits & R_NS != 0) as u32 + (bits & R_TS != 0) as u32 + (bits & R_UTC != 0) as u32;
    instant_ok && structural_bad <= 1
}

/// Builds the value for (instant, offset) through the public API and returns it only if it is trustworthy there
/// (see `trusted`). Routes whose read-out disagrees with the model at this very value are *masked*: the
/// returned observation carries neutral constants for them and says so in `masked`.
/// `ignore_ns_since`: for the property that owns `*_since`.
pub fn sane_value_opt(i: i128, off: i32, ignore_ns_since: bool) -> Option<(DateTime, Obs)> {
    if !representable(i) {
        return None;
    }
    let with_local = local_ok(i, off);
    let l = i + off as i128 * NS;
    if !representable(l) {
        return None;
    }
    let r = crate::core::trap(|| {
        let dt = mk_off(i, off);
        let o = observe(&dt, with_local);
        (dt, o)
    });
    match r {
        Ok((dt, mut o)) => {
            let m = model_observe(i, off);
            let mut bits = o.mismatch_bits(&m);
            if ignore_ns_since {
                bits |= R_NS;
            }
            if !trusted(bits, ignore_ns_since) {
                return None;
            }
            if bits != 0 {
                for k in 0..15 {
                    if bits & (1 << k) != 0 && !(ignore_ns_since && k == 0) {
                        ROUTE_MASKED[k].fetch_add(1, std::sync::atomic::Ordering::Relaxed);
                    }
                }
                o.neutralize(bits);
            }
            Some((dt, o))
        }
        Err(_) => None,
    }
}

pub fn sane_value(i: i128, off: i32) -> Option<(DateTime, Obs)> {
    sane_value_opt(i, off, false)
}

/// Outcome of comparing a result with the independently constructed expected value.
pub enum Diff {
    /// the expected value could not be constructed/read sanely here: no verdict
    Skip,
    Same,
    /// (observed, expected)
    Differs(Box<Obs>, Box<Obs>),
}

/// Compares `res` (already produced by the operation under judgement) with an independently
/// built value of (target, off), through the same routes (minus the routes masked at the expected value).
/// Call inside `trap` is not needed: traps itself.
pub fn diff_with_expected(res: &DateTime, target: i128, off: i32) -> Result<Diff, crate::core::Panic> {
    let exp = match sane_value(target, off) {
        Some((_, e)) => e,
        None => return Ok(Diff::Skip),
    };
    let with_local = exp.local.is_some();
    let mut got = crate::core::trap(|| observe(res, with_local))?;
    got.neutralize(exp.masked);
    Ok(if got == exp { Diff::Same } else { Diff::Differs(Box::new(got), Box::new(exp)) })
}

impl Obs {
    pub fn to_json(&self) -> serde_json::Value {
        serde_json::json!({"nanos_since": show(self.ns_since), "timestamp+nano": show(self.via_ts), "offset": self.off, "as_ymdhms": format!("{:?}", self.utc), "getters(y,m,d,doy,wd,h,mi,s,ms,us,ns)": self.local.map(|l| format!("{:?}", l)), "routes_masked(read-out disagrees with the model at the expected value)": self.masked_names()})
    }
    /// Which aspect differs first (for signatures).
    pub fn first_difference(&self, exp: &Obs) -> &'static str {
        if self.ns_since != exp.ns_since {
            "wrong-instant"
        } else if self.off != exp.off {
            "offset-changed"
        } else if self.via_ts != exp.via_ts {
            "timestamp-readout-differs"
        } else if self.utc != exp.utc {
            "utc-fields-differ"
        } else {
            "local-getters-differ"
        }
    }
}
