//! Instant model: an instant is an i128 count of nanoseconds since 0001-01-01T00:00:00Z.
//! Local fields under offset `o` seconds are the calendar/clock fields of `i + o·10⁹`.

use super::calendar as cal;
use astrolabe::{DateTime, DateUtilities, Offset, OffsetUtilities, Time, TimeUtilities};

pub const NS: i128 = 1_000_000_000;
pub const D: i128 = 86_400 * NS;
pub const MIN_INSTANT: i128 = i32::MIN as i128 * D;
pub const MAX_INSTANT: i128 = i32::MAX as i128 * D + D - 1;
pub const UNIX_EPOCH_INSTANT: i128 = cal::DAYS_TO_1970 as i128 * D;
pub const MIN_TS: i64 = (i32::MIN as i64 - cal::DAYS_TO_1970) * 86_400;
pub const MAX_TS: i64 = (i32::MAX as i64 - cal::DAYS_TO_1970) * 86_400 + 86_399;

#[inline]
pub fn representable(i: i128) -> bool {
    (MIN_INSTANT..=MAX_INSTANT).contains(&i)
}

#[derive(Clone, Copy, Debug, PartialEq, Eq)]
pub struct Fields {
    pub day: i64,
    pub year: i64,
    pub month: u32,
    pub dom: u32,
    pub hour: u32,
    pub minute: u32,
    pub second: u32,
    /// nanoseconds within the second
    pub subsec: u32,
}

/// Fields of a *local* instant (already shifted by the offset).
pub fn fields(local: i128) -> Fields {
    let day = local.div_euclid(D) as i64;
    let tod = local.rem_euclid(D);
    let (year, month, dom) = cal::ymd(day);
    let secs = (tod / NS) as u32;
    Fields {
        day,
        year,
        month,
        dom,
        hour: secs / 3600,
        minute: secs / 60 % 60,
        second: secs % 60,
        subsec: (tod % NS) as u32,
    }
}

/// Builds the astrolabe value for UTC instant `i` (must be representable) through the public API:
/// `from_timestamp(floor seconds)` then `add_nanos(sub-second)`.
pub fn mk(i: i128) -> DateTime {
    debug_assert!(representable(i));
    let secs = i.div_euclid(NS);
    let sub = i.rem_euclid(NS) as u32;
    let ts = (secs - cal::DAYS_TO_1970 as i128 * 86_400) as i64;
    let dt = DateTime::from_timestamp(ts);
    if sub == 0 {
        dt
    } else {
        dt.add_nanos(sub)
    }
}

/// Builds a value at instant `i` carrying offset `off` seconds (instant unchanged).
pub fn mk_off(i: i128, off: i32) -> DateTime {
    mk(i).set_offset(Offset::Fixed(off))
}

/// Reads the UTC instant of a value back through the public API (`nanos_since` the default value,
/// which is 0001-01-01T00:00:00Z).
#[inline]
pub fn read(dt: &DateTime) -> i128 {
    dt.nanos_since(&DateTime::default())
}

/// Second, independent read-back route: `timestamp()` of the value (UTC) and the local `nano()`.
/// Sub-second digits do not depend on a whole-second offset.
#[inline]
pub fn read_via_timestamp(dt: &DateTime) -> i128 {
    (dt.timestamp() as i128 + cal::DAYS_TO_1970 as i128 * 86_400) * NS + dt.nano() as i128
}

pub fn offset_secs(dt: &DateTime) -> Option<i32> {
    match dt.get_offset() {
        Offset::Fixed(s) => Some(s),
        Offset::Local => None,
    }
}

pub fn time_offset_secs(t: &Time) -> Option<i32> {
    match t.get_offset() {
        Offset::Fixed(s) => Some(s),
        Offset::Local => None,
    }
}

/// Human-readable rendering of a model instant for witnesses (UTC fields).
pub fn show(i: i128) -> String {
    let f = fields(i);
    format!(
        "{}{:04}-{:02}-{:02}T{:02}:{:02}:{:02}.{:09}Z",
        if f.year < 0 { "-" } else { "" },
        f.year.abs(),
        f.month,
        f.dom,
        f.hour,
        f.minute,
        f.second,
        f.subsec
    )
}

/// Stratified instant generator shared by several monitors.
/// strata: 0 era boundary ±5 d, 1 low range end, 2 high range end, 3 1970±80 y, 4 uniform,
/// 5 second-aligned near 0001, 6 exact day boundaries ± few ns, 7 years 1..9999
pub fn gen_instant(rng: &mut crate::core::Rng, margin_days: i128) -> (i128, u8) {
    let lo = MIN_INSTANT + margin_days * D;
    let hi = MAX_INSTANT - margin_days * D;
    let s = rng.below(8) as u8;
    let i = match s {
        0 => rng.range_i128(-5 * D, 5 * D),
        1 => lo + rng.range_i128(0, 3 * D),
        2 => hi - rng.range_i128(0, 3 * D),
        3 => UNIX_EPOCH_INSTANT + rng.range_i128(-80 * 366 * D, 80 * 366 * D),
        4 => rng.range_i128(lo, hi),
        5 => rng.range_i128(-3 * 86_400, 3 * 86_400) * NS,
        6 => {
            let day = match rng.below(3) {
                0 => rng.range_i128(-3, 3),
                1 => cal::DAYS_TO_1970 as i128 + rng.range_i128(-20_000, 60_000),
                _ => rng.range_i128(lo / D + 1, hi / D - 1),
            };
            day * D + *rng.pick(&[-2i128, -1, 0, 1, 2, NS - 1, NS, -NS, D - 1])
        }
        _ => rng.range_i128(0, cal::days_from_civil(9999, 12, 31) as i128 * D + D - 1),
    };
    (i.clamp(lo, hi), s)
}

/// Offsets: full ±86 399 s range, stratified.
pub fn gen_offset(rng: &mut crate::core::Rng) -> i32 {
    match rng.below(6) {
        0 => 0,
        1 => rng.range_i64(-23, 23) as i32 * 3600,
        2 => rng.range_i64(-1439, 1439) as i32 * 60,
        3 => *rng.pick(&[86_399, -86_399, 1, -1, 3599, -3599, 43_200, -43_200]),
        _ => rng.range_i64(-86_399, 86_399) as i32,
    }
}
