//! Reference proleptic Gregorian calendar, written from the definition (Gregorian leap rule on
//! astronomical years, no year 0 in the *displayed* year). Day 0 = 0001-01-01 (a Monday).
//! All arithmetic in i64 so nothing can overflow on the i32 day domain.

pub const MIN_DAY: i64 = i32::MIN as i64;
pub const MAX_DAY: i64 = i32::MAX as i64;
pub const DAYS_TO_1970: i64 = 719_162;
/// Display-year range ends as the day range implies them (first/last representable date).
pub const MIN_DATE: (i64, u32, u32) = (-5_879_611, 6, 23);
pub const MAX_DATE: (i64, u32, u32) = (5_879_611, 7, 12);

#[inline]
pub fn display_year(astro: i64) -> i64 {
    if astro >= 1 {
        astro
    } else {
        astro - 1
    }
}

/// display year (≠ 0) → astronomical year
#[inline]
pub fn astro_year(display: i64) -> i64 {
    if display >= 1 {
        display
    } else {
        display + 1
    }
}

#[inline]
pub fn is_leap_astro(a: i64) -> bool {
    a.rem_euclid(4) == 0 && (a.rem_euclid(100) != 0 || a.rem_euclid(400) == 0)
}

#[inline]
pub fn month_len(a: i64, m: u32) -> u32 {
    match m {
        1 | 3 | 5 | 7 | 8 | 10 | 12 => 31,
        4 | 6 | 9 | 11 => 30,
        2 => {
            if is_leap_astro(a) {
                29
            } else {
                28
            }
        }
        _ => 0,
    }
}

#[inline]
pub fn year_len(a: i64) -> u32 {
    if is_leap_astro(a) {
        366
    } else {
        365
    }
}

/// day number → (astronomical year, month, day)
#[inline]
pub fn civil_from_days(n: i64) -> (i64, u32, u32) {
    let z = n + 306; // days since 0000-03-01 (astronomical)
    let era = z.div_euclid(146_097);
    let doe = z.rem_euclid(146_097);
    let yoe = (doe - doe / 1_460 + doe / 36_524 - doe / 146_096) / 365;
    let y = yoe + era * 400;
    let doy = doe - (365 * yoe + yoe / 4 - yoe / 100);
    let mp = (5 * doy + 2) / 153;
    let d = (doy - (153 * mp + 2) / 5 + 1) as u32;
    let m = if mp < 10 { mp + 3 } else { mp - 9 } as u32;
    (if m <= 2 { y + 1 } else { y }, m, d)
}

/// (astronomical year, month 1..=12, day 1..=31) → day number
#[inline]
pub fn days_from_civil(a: i64, m: u32, d: u32) -> i64 {
    let y = if m <= 2 { a - 1 } else { a };
    let era = y.div_euclid(400);
    let yoe = y.rem_euclid(400);
    let mp = if m > 2 { m as i64 - 3 } else { m as i64 + 9 };
    let doy = (153 * mp + 2) / 5 + d as i64 - 1;
    let doe = yoe * 365 + yoe / 4 - yoe / 100 + doy;
    era * 146_097 + doe - 306
}

/// day number → (display year, month, day)
#[inline]
pub fn ymd(n: i64) -> (i64, u32, u32) {
    let (a, m, d) = civil_from_days(n);
    (display_year(a), m, d)
}

/// Is (display year, month, day) an existing calendar date?
pub fn valid_display(y: i64, m: u32, d: u32) -> bool {
    y != 0 && (1..=12).contains(&m) && d >= 1 && d <= month_len(astro_year(y), m)
}

/// Existing calendar date whose day number is representable → that day number.
pub fn day_of_display(y: i64, m: u32, d: u32) -> Option<i64> {
    if !valid_display(y, m, d) {
        return None;
    }
    let n = days_from_civil(astro_year(y), m, d);
    if (MIN_DAY..=MAX_DAY).contains(&n) {
        Some(n)
    } else {
        None
    }
}

/// 0 = Sunday … 6 = Saturday. Day 0 (0001-01-01) is a Monday; 1970-01-01 (day 719162) a Thursday.
#[inline]
pub fn weekday_sun0(n: i64) -> u32 {
    (n + 1).rem_euclid(7) as u32
}

/// 0 = Monday … 6 = Sunday
#[inline]
pub fn weekday_mon0(n: i64) -> u32 {
    n.rem_euclid(7) as u32
}

/// 1-based day of the year
#[inline]
pub fn day_of_year(n: i64) -> u32 {
    let (a, _, _) = civil_from_days(n);
    (n - days_from_civil(a, 1, 1) + 1) as u32
}

/// ISO-8601 week number ("the week of the Thursday"); returns (astronomical ISO year, week)
#[inline]
pub fn iso_week(n: i64) -> (i64, u32) {
    let thursday = n - weekday_mon0(n) as i64 + 3;
    let (a, _, _) = civil_from_days(thursday);
    let jan1 = days_from_civil(a, 1, 1);
    (a, ((thursday - jan1) / 7 + 1) as u32)
}

#[inline]
pub fn quarter(m: u32) -> u32 {
    (m - 1) / 3 + 1
}

/// N-th (1-based) day of astronomical year `a`
pub fn day_from_year_doy(a: i64, doy: u32) -> Option<i64> {
    if doy < 1 || doy > year_len(a) {
        return None;
    }
    Some(days_from_civil(a, 1, 1) + doy as i64 - 1)
}

/// Month arithmetic on (astronomical year, month): shift by `delta` months, clamp the day.
pub fn shift_months(n: i64, delta: i64) -> i64 {
    let (a, m, d) = civil_from_days(n);
    let total = a * 12 + (m as i64 - 1) + delta;
    let ta = total.div_euclid(12);
    let tm = total.rem_euclid(12) as u32 + 1;
    let td = d.min(month_len(ta, tm));
    days_from_civil(ta, tm, td)
}

/// Start-up self check of the model against a slow, definition-level day counter.
pub fn self_check() -> Result<(), String> {
    // anchors
    if ymd(0) != (1, 1, 1) {
        return Err("day 0 is not 0001-01-01".into());
    }
    if ymd(-1) != (-1, 12, 31) {
        return Err("day -1 is not -0001-12-31".into());
    }
    if ymd(DAYS_TO_1970) != (1970, 1, 1) || weekday_sun0(DAYS_TO_1970) != 4 {
        return Err("1970-01-01 anchor".into());
    }
    if days_from_civil(2000, 2, 29) != DAYS_TO_1970 + 11_016 {
        return Err("2000-02-29 anchor".into());
    }
    if ymd(days_from_civil(1900, 2, 28) + 1) != (1900, 3, 1) {
        return Err("1900 is not a common year".into());
    }
    if ymd(MIN_DAY) != MIN_DATE || ymd(MAX_DAY) != MAX_DATE {
        return Err(format!("range ends: {:?} {:?}", ymd(MIN_DAY), ymd(MAX_DAY)));
    }
    // 2024-10-01 is a Tuesday, ISO week 40; 2021-01-03 is in ISO week 53 of 2020
    let d = days_from_civil(2024, 10, 1);
    if weekday_sun0(d) != 2 || iso_week(d) != (2024, 40) {
        return Err("2024-10-01 weekday/week".into());
    }
    if iso_week(days_from_civil(2021, 1, 3)) != (2020, 53) || iso_week(days_from_civil(2018, 12, 31)) != (2019, 1) {
        return Err("iso week year-end anchors".into());
    }
    // slow walk, forwards and backwards from day 0, three 400-year cycles each way
    let (mut a, mut m, mut d) = (1i64, 1u32, 1u32);
    for n in 0..(3 * 146_097 + 800) {
        if civil_from_days(n) != (a, m, d) || days_from_civil(a, m, d) != n {
            return Err(format!("forward walk disagrees at day {}", n));
        }
        d += 1;
        if d > month_len(a, m) {
            d = 1;
            m += 1;
            if m > 12 {
                m = 1;
                a += 1;
            }
        }
    }
    let (mut a, mut m, mut d) = (1i64, 1u32, 1u32);
    for k in 0..(3 * 146_097 + 800) {
        let n = -(k as i64);
        if civil_from_days(n) != (a, m, d) || days_from_civil(a, m, d) != n {
            return Err(format!("backward walk disagrees at day {}", n));
        }
        if d > 1 {
            d -= 1;
        } else {
            if m > 1 {
                m -= 1;
            } else {
                m = 12;
                a -= 1;
            }
            d = month_len(a, m);
        }
    }
    // day_of_year / iso week definitional checks over a few cycles
    for n in (-400_000i64..400_000).step_by(1) {
        let (a, m, dd) = civil_from_days(n);
        let mut doy = dd;
        for mm in 1..m {
            doy += month_len(a, mm);
        }
        if doy != day_of_year(n) {
            return Err(format!("doy at {}", n));
        }
    }
    Ok(())
}
