//! Writer of synthetic TZif files (v1/v2/v3) with arbitrary transition tables and IANA-shaped footers.

use super::calendar as cal;
use super::tzif_ref::{parse_posix_tz, PosixTz};
use crate::core::Rng;

pub struct Synth {
    pub version: u8,
    pub transitions: Vec<i64>,
    pub type_idx: Vec<u8>,
    pub types: Vec<(i32, bool)>,
    pub footer: String,
}

fn header(version: u8, isut: u32, isstd: u32, leap: u32, time: u32, typ: u32, chr: u32) -> Vec<u8> {
    let mut v = b"TZif".to_vec();
    v.push(match version {
        1 => 0,
        2 => b'2',
        _ => b'3',
    });
    v.extend_from_slice(&[0u8; 15]);
    for x in [isut, isstd, leap, time, typ, chr] {
        v.extend_from_slice(&x.to_be_bytes());
    }
    v
}

fn block(s: &Synth, tsize: usize, with_indicators: bool) -> (Vec<u8>, u32, u32) {
    let mut v = vec![];
    let trans: Vec<(i64, u8)> = s.transitions.iter().cloned().zip(s.type_idx.iter().cloned()).filter(|(t, _)| tsize == 8 || (*t >= i32::MIN as i64 && *t <= i32::MAX as i64)).collect();
    for (t, _) in trans.iter() {
        if tsize == 4 {
            v.extend_from_slice(&(*t as i32).to_be_bytes());
        } else {
            v.extend_from_slice(&t.to_be_bytes());
        }
    }
    for (_, i) in trans.iter() {
        v.push(*i);
    }
    for (k, (utoff, dst)) in s.types.iter().enumerate() {
        v.extend_from_slice(&utoff.to_be_bytes());
        v.push(*dst as u8);
        v.push(((k * 4) % (s.types.len() * 4)) as u8);
    }
    for k in 0..s.types.len() {
        v.extend_from_slice(format!("T{:02}", k % 100).as_bytes());
        v.push(0);
    }
    let ind = if with_indicators { s.types.len() as u32 } else { 0 };
    for _ in 0..ind {
        v.push(0);
    }
    for _ in 0..ind {
        v.push(0);
    }
    (v, trans.len() as u32, ind)
}

impl Synth {
    pub fn bytes(&self) -> Vec<u8> {
        let chr = (self.types.len() * 4) as u32;
        let typ = self.types.len() as u32;
        let with_ind = self.transitions.len() % 2 == 0;
        if self.version == 1 {
            let (b, n, ind) = block(self, 4, with_ind);
            let mut v = header(1, ind, ind, 0, n, typ, chr);
            v.extend(b);
            return v;
        }
        let (b1, n1, ind1) = block(self, 4, with_ind);
        let mut v = header(self.version, ind1, ind1, 0, n1, typ, chr);
        v.extend(b1);
        let (b2, n2, ind2) = block(self, 8, with_ind);
        v.extend(header(self.version, ind2, ind2, 0, n2, typ, chr));
        v.extend(b2);
        v.push(b'\n');
        v.extend_from_slice(self.footer.as_bytes());
        v.push(b'\n');
        v
    }
}

fn fmt_off(secs: i32) -> String {
    // POSIX sign convention: positive = west of Greenwich
    let p = -secs;
    let a = p.unsigned_abs();
    let (h, m, s) = (a / 3600, a / 60 % 60, a % 60);
    let sign = if p < 0 { "-" } else { "" };
    if s != 0 {
        format!("{}{}:{:02}:{:02}", sign, h, m, s)
    } else if m != 0 {
        format!("{}{}:{:02}", sign, h, m)
    } else {
        format!("{}{}", sign, h)
    }
}

fn fmt_time(t: i32) -> String {
    if t == 7200 {
        return String::new();
    }
    let a = t.unsigned_abs();
    let (h, m, s) = (a / 3600, a / 60 % 60, a % 60);
    let sign = if t < 0 { "-" } else { "" };
    if s != 0 {
        format!("/{}{}:{:02}:{:02}", sign, h, m, s)
    } else if m != 0 {
        format!("/{}{}:{:02}", sign, h, m)
    } else {
        format!("/{}{}", sign, h)
    }
}

fn rule_for_doy(rng: &mut Rng, doy: u32, kind: u64) -> String {
    match kind {
        0 => format!("J{}", doy.clamp(1, 365)),
        1 => format!("{}", doy.clamp(0, 365)),
        _ => {
            // month/week/day around that day of the year
            let (_, m, d) = cal::civil_from_days(cal::days_from_civil(2023, 1, 1) + doy as i64 - 1);
            let w = match rng.below(3) {
                0 => 5,
                _ => ((d - 1) / 7 + 1).min(4),
            };
            format!("M{}.{}.{}", m, w, rng.below(7))
        }
    }
}

/// An IANA-shaped POSIX TZ string (fixed, or alternating with J / n / M rules, either hemisphere, possibly
/// negative DST) plus its parsed form. `v3` allows the extended /time range.
pub fn gen_footer(rng: &mut Rng, v3: bool) -> (String, PosixTz) {
    loop {
        let std = match rng.below(4) {
            0 => rng.range_i64(-12, 14) as i32 * 3600,
            1 => rng.range_i64(-47, 56) as i32 * 900,
            2 => *rng.pick(&[0, 3600, -18_000, 19_800, 20_700, -12_600, 45_900, -34_200]),
            _ => rng.range_i64(-43_200, 50_400) as i32,
        };
        let name = |rng: &mut Rng, o: i32| -> String {
            if rng.chance(1, 3) {
                format!("<{}{:02}>", if o < 0 { '-' } else { '+' }, o.unsigned_abs() / 3600)
            } else {
                ["CET", "EST", "AEST", "NZST", "WET", "XYZ", "LMT"][rng.below(7) as usize].to_string()
            }
        };
        if rng.chance(1, 4) {
            let text = format!("{}{}", name(rng, std), fmt_off(std));
            if let Ok(p) = parse_posix_tz(&text, v3) {
                return (text, p);
            }
            continue;
        }
        // alternating
        let negative_dst = rng.chance(1, 10);
        let dst = if negative_dst { std - 3600 } else { std + *rng.pick(&[3600, 3600, 3600, 1800, 7200]) };
        let dst_text = if dst == std + 3600 && rng.chance(2, 3) { String::new() } else { fmt_off(dst) };
        let southern = rng.chance(1, 3);
        let a = 25 + rng.below(120) as u32; // late January … late May
        let b = 200 + rng.below(140) as u32; // late July … early December
        let (start_doy, end_doy) = if southern { (b, a) } else { (a, b) };
        let kind = rng.below(4);
        let time = |rng: &mut Rng| -> i32 {
            match rng.below(6) {
                0 | 1 => 7200,
                2 => *rng.pick(&[0, 3600, 10_800, 86_400, 1800]),
                3 if v3 => *rng.pick(&[-3600, -7200, 93_600, 26 * 3600, -24 * 3600, 100 * 3600, -100 * 3600, -1800, -900, -59, -1, -5400, -3_661, 25 * 3600 + 1800]),
                4 => rng.below(86_400) as i32,
                _ => rng.range_i64(0, 24) as i32 * 3600,
            }
        };
        let (t1, t2) = (time(rng), time(rng));
        let kind2 = if kind == 3 { rng.below(3) } else { kind };
        let std_name = name(rng, std);
        let dst_name = ["CEST", "EDT", "AEDT", "NZDT", "WEST", "<+x1>", "DST"][rng.below(7) as usize];
        let r1 = rule_for_doy(rng, start_doy, kind);
        let r2 = rule_for_doy(rng, end_doy, kind2);
        let text = format!("{}{}{}{},{}{},{}{}", std_name, fmt_off(std), dst_name, dst_text, r1, fmt_time(t1), r2, fmt_time(t2));
        if let Ok(p) = parse_posix_tz(&text, v3) {
            if p.iana_shaped() {
                return (text, p);
            }
        }
    }
}

/// A synthetic file obeying the statement's side conditions: ascending transitions, valid type
/// indices, and (v2+) a footer whose value at the last transition equals that transition's type.
pub fn gen_synth(rng: &mut Rng) -> Synth {
    let version = [1u8, 2, 2, 3, 3][rng.below(5) as usize];
    let ntypes = 1 + rng.below(8) as usize;
    let mut types: Vec<(i32, bool)> = (0..ntypes).map(|_| ((rng.range_i64(-50_000, 54_000) as i32 / 60) * 60 + if rng.chance(1, 6) { rng.below(60) as i32 } else { 0 }, rng.chance(1, 3))).collect();
    let ntrans = match rng.below(5) {
        0 => 0,
        1 => 1 + rng.below(3),
        _ => rng.below(61),
    } as usize;
    let mut t: i64 = match rng.below(3) {
        0 => rng.range_i64(-2_500_000_000, -1_000_000_000),
        1 => rng.range_i64(-4_000_000_000, 0),
        _ => rng.range_i64(0, 1_500_000_000),
    };
    let mut transitions = vec![];
    let mut type_idx = vec![];
    for _ in 0..ntrans {
        transitions.push(t);
        type_idx.push(rng.below(ntypes as u64) as u8);
        t += match rng.below(4) {
            0 => 1 + rng.below(86_400) as i64,
            1 => 86_400 * (150 + rng.below(60) as i64),
            _ => 1 + rng.below(40_000_000) as i64,
        };
    }
    if version == 1 {
        transitions.retain(|x| *x >= i32::MIN as i64 && *x <= i32::MAX as i64);
        type_idx.truncate(transitions.len());
    }
    let mut footer = String::new();
    if version >= 2 {
        let (text, p) = gen_footer(rng, version >= 3);
        footer = text;
        // make the last transition agree with the footer at that instant
        if let (Some(last), Some(li)) = (transitions.last(), type_idx.last()) {
            let (o, d) = p.at(*last);
            types[*li as usize] = (o, d);
        }
    }
    Synth { version, transitions, type_idx, types, footer }
}
