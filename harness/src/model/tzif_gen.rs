//! Writer of synthetic TZif files (v1/v2/v3) with arbitrary transition tables and IANA-shaped footers.

use super::calendar as cal;
use super::tzif_ref::{parse_posix_tz, PosixTz};
use crate::core::Rng;

pub struct Synth {
    pub version: u8,
    pub transitions: Vec<i64>,
    pub type_idx: Vec<u8>,
    pub types: Vec<(i32, bool)>,
    pub footer: String,
    /// designation of each type (data block); `None` = the plain T00, T01 … table
    pub desigs: Option<Vec<String>>,
}

fn header(version: u8, isut: u32, isstd: u32, leap: u32, time: u32, typ: u32, chr: u32) -> Vec<u8> {
    let mut v = b"TZif".to_vec();
    v.push(match version {
        1 => 0,
        2 => b'2',
        _ => b'3',
    });
    v.extend_from_slice(&[0u8; 15]);
    for x in [isut, isstd, leap, time, typ, chr] {
        v.extend_from_slice(&x.to_be_bytes());
    }
    v
}

fn block(s: &Synth, tsize: usize, with_indicators: bool) -> (Vec<u8>, u32, u32) {
    let mut v = vec![];
    let trans: Vec<(i64, u8)> = s.transitions.iter().cloned().zip(s.type_idx.iter().cloned()).filter(|(t, _)| tsize == 8 || (*t >= i32::MIN as i64 && *t <= i32::MAX as i64)).collect();
    for (t, _) in trans.iter() {
        if tsize == 4 {
            v.extend_from_slice(&(*t as i32).to_be_bytes());
        } else {
            v.extend_from_slice(&t.to_be_bytes());
        }
    }
    for (_, i) in trans.iter() {
        v.push(*i);
    }
    let (table, idx) = desig_table(s);
    for (k, (utoff, dst)) in s.types.iter().enumerate() {
        v.extend_from_slice(&utoff.to_be_bytes());
        v.push(*dst as u8);
        v.push(idx[k]);
    }
    v.extend_from_slice(&table);
    let ind = if with_indicators { s.types.len() as u32 } else { 0 };
    for _ in 0..ind {
        v.push(0);
    }
    for _ in 0..ind {
        v.push(0);
    }
    (v, trans.len() as u32, ind)
}

/// designation table (NUL-terminated strings, shared when equal) and each type's index into it
fn desig_table(s: &Synth) -> (Vec<u8>, Vec<u8>) {
    let names: Vec<String> = match &s.desigs {
        Some(d) => d.clone(),
        None => (0..s.types.len()).map(|k| format!("T{:02}", k % 100)).collect(),
    };
    let mut table: Vec<u8> = vec![];
    let mut idx = vec![];
    let mut seen: Vec<(String, u8)> = vec![];
    for n in names.iter() {
        if let Some((_, i)) = seen.iter().find(|(m, _)| m == n) {
            idx.push(*i);
            continue;
        }
        let i = table.len().min(255) as u8;
        table.extend_from_slice(n.as_bytes());
        table.push(0);
        seen.push((n.clone(), i));
        idx.push(i);
    }
    (table, idx)
}

/// Designations as they occur in the wild — and a few that look like the file's own syntax (the magic, a header-like
/// run, digits and signs): data must stay data wherever it is stored.
const DESIGNATIONS: [&str; 23] = ["LMT", "UTC", "GMT", "CET", "CEST", "EST", "EDT", "AEDT", "+0530", "-03", "+1245", "-0930", "WITA", "ChST", "TZif", "TZif2", "TZif3", "Pacific Standard", "ABCDEFGHIJKL", "+00", "-00", "NZDT", "zzz"];

impl Synth {
    pub fn bytes(&self) -> Vec<u8> {
        let chr = desig_table(self).0.len() as u32;
        let typ = self.types.len() as u32;
        let with_ind = self.transitions.len() % 2 == 0;
        if self.version == 1 {
            let (b, n, ind) = block(self, 4, with_ind);
            let mut v = header(1, ind, ind, 0, n, typ, chr);
            v.extend(b);
            return v;
        }
        let (b1, n1, ind1) = block(self, 4, with_ind);
        let mut v = header(self.version, ind1, ind1, 0, n1, typ, chr);
        v.extend(b1);
        let (b2, n2, ind2) = block(self, 8, with_ind);
        v.extend(header(self.version, ind2, ind2, 0, n2, typ, chr));
        v.extend(b2);
        v.push(b'\n');
        v.extend_from_slice(self.footer.as_bytes());
        v.push(b'\n');
        v
    }
}

fn fmt_off(secs: i32) -> String {
    // POSIX sign convention: positive = west of Greenwich
    let p = -secs;
    let a = p.unsigned_abs();
    let (h, m, s) = (a / 3600, a / 60 % 60, a % 60);
    let sign = if p < 0 { "-" } else { "" };
    if s != 0 {
        format!("{}{}:{:02}:{:02}", sign, h, m, s)
    } else if m != 0 {
        format!("{}{}:{:02}", sign, h, m)
    } else {
        format!("{}{}", sign, h)
    }
}

fn fmt_time(t: i32) -> String {
    if t == 7200 {
        return String::new();
    }
    let a = t.unsigned_abs();
    let (h, m, s) = (a / 3600, a / 60 % 60, a % 60);
    let sign = if t < 0 { "-" } else { "" };
    if s != 0 {
        format!("/{}{}:{:02}:{:02}", sign, h, m, s)
    } else if m != 0 {
        format!("/{}{}:{:02}", sign, h, m)
    } else {
        format!("/{}{}", sign, h)
    }
}

fn fnv(s: &str) -> u64 {
    s.bytes().fold(0xcbf2_9ce4_8422_2325u64, |h, b| (h ^ b as u64).wrapping_mul(0x100_0000_01b3)) >> 7
}

/// `[-]h[:mm[:ss]]` in another spelling of the same value: explicit `+`, two-digit hours, missing parts written as `:00`.
fn respell(core: &str, how: u64, allow_plus: bool) -> String {
    if core.is_empty() {
        return String::new();
    }
    let (sign, rest) = match core.strip_prefix('-') {
        Some(r) => ("-", r),
        None => (if allow_plus && how % 2 == 0 { "+" } else { "" }, core),
    };
    let mut parts: Vec<String> = rest.split(':').map(|x| x.to_string()).collect();
    if (how / 2) % 2 == 0 && parts[0].len() == 1 {
        parts[0] = format!("0{}", parts[0]);
    }
    match (how / 4) % 3 {
        0 => {
            while parts.len() < 3 {
                parts.push("00".into());
            }
        }
        1 if parts.len() < 2 => parts.push("00".into()),
        _ => {}
    }
    format!("{}{}", sign, parts.join(":"))
}

fn respell_time(t: &str, how: u64, v3: bool) -> String {
    match t.strip_prefix('/') {
        Some(core) => format!("/{}", respell(core, how, v3)),
        None if how % 5 == 0 => format!("/{}", respell("2", how / 5, v3)),
        None => String::new(),
    }
}

fn rule_for_doy(rng: &mut Rng, doy: u32, kind: u64) -> String {
    match kind {
        0 => format!("J{}", doy.clamp(1, 365)),
        1 => format!("{}", doy.clamp(0, 365)),
        _ => {
            // month/week/day around that day of the year
            let (_, m, d) = cal::civil_from_days(cal::days_from_civil(2023, 1, 1) + doy as i64 - 1);
            let w = match rng.below(3) {
                0 => 5,
                _ => ((d - 1) / 7 + 1).min(4),
            };
            format!("M{}.{}.{}", m, w, rng.below(7))
        }
    }
}

/// An IANA-shaped POSIX TZ string (fixed, or alternating with J / n / M rules, either hemisphere, possibly
/// negative DST) plus its parsed form. `v3` allows the extended /time range.
pub fn gen_footer(rng: &mut Rng, v3: bool) -> (String, PosixTz) {
    loop {
        let std = match rng.below(4) {
            0 => rng.range_i64(-12, 14) as i32 * 3600,
            1 => rng.range_i64(-47, 56) as i32 * 900,
            2 => *rng.pick(&[0, 3600, -18_000, 19_800, 20_700, -12_600, 45_900, -34_200]),
            _ => rng.range_i64(-43_200, 50_400) as i32,
        };
        let name = |rng: &mut Rng, o: i32| -> String {
            match rng.below(8) {
                0 | 1 => format!("<{}{:02}>", if o < 0 { '-' } else { '+' }, o.unsigned_abs() / 3600),
                // POSIX puts no upper bound on the length of a name (three or more characters); quoted names may hold
                // digits and signs: <+103126>, <-0930>, <UTC+5>, EASTERN, "Pacific" …
                2 => format!("<{}{:02}{:02}{:02}>", if o < 0 { '-' } else { '+' }, o.unsigned_abs() / 3600, o.unsigned_abs() / 60 % 60, o.unsigned_abs() % 60),
                3 => ["EASTERN", "Pacific", "ABCDEFGHIJKLMNOP", "WESTEUROPE", "<UTC+5>", "<GMT-10>", "<ABCDEFGH123>", "<+0530>", "<TZif2>", "TZif"][rng.below(10) as usize].to_string(),
                _ => ["CET", "EST", "AEST", "NZST", "WET", "XYZ", "LMT"][rng.below(7) as usize].to_string(),
            }
        };
        if rng.chance(1, 4) {
            let text = format!("{}{}", name(rng, std), fmt_off(std));
            if let Ok(p) = parse_posix_tz(&text, v3) {
                return (text, p);
            }
            continue;
        }
        // alternating
        let negative_dst = rng.chance(1, 10);
        let dst = if negative_dst { std - 3600 } else { std + *rng.pick(&[3600, 3600, 3600, 1800, 7200]) };
        let dst_text = if dst == std + 3600 && rng.chance(2, 3) { String::new() } else { fmt_off(dst) };
        let southern = rng.chance(1, 3);
        let a = 25 + rng.below(120) as u32; // late January … late May
        let b = 200 + rng.below(140) as u32; // late July … early December
        let (start_doy, end_doy) = if southern { (b, a) } else { (a, b) };
        let kind = rng.below(4);
        let time = |rng: &mut Rng| -> i32 {
            match rng.below(6) {
                0 | 1 => 7200,
                2 => *rng.pick(&[0, 3600, 10_800, 86_400, 1800]),
                3 if v3 => *rng.pick(&[-3600, -7200, 93_600, 26 * 3600, -24 * 3600, 100 * 3600, -100 * 3600, -1800, -900, -59, -1, -5400, -3_661, 25 * 3600 + 1800]),
                4 => rng.below(86_400) as i32,
                _ => rng.range_i64(0, 24) as i32 * 3600,
            }
        };
        let (t1, t2) = (time(rng), time(rng));
        let kind2 = if kind == 3 { rng.below(3) } else { kind };
        let std_name = name(rng, std);
        let dst_name = ["CEST", "EDT", "AEDT", "NZDT", "WEST", "<+x1>", "DST", "EASTDAY", "<+113126>", "SUMMERTIME", "<TZif3>"][rng.below(11) as usize];
        let r1 = rule_for_doy(rng, start_doy, kind);
        let r2 = rule_for_doy(rng, end_doy, kind2);
        let text = format!("{}{}{}{},{}{},{}{}", std_name, fmt_off(std), dst_name, dst_text, r1, fmt_time(t1), r2, fmt_time(t2));
        // the same rule in another of the spellings the grammar allows (explicit '+', two-digit hours, full h:mm:ss,
        // the default /2 written out) — chosen from the text itself so that the draw sequence is unchanged
        let text = match fnv(&text) % 3 {
            0 => format!(
                "{}{}{}{},{}{},{}{}",
                std_name,
                respell(&fmt_off(std), fnv(&text) / 3, true),
                dst_name,
                respell(&dst_text, fnv(&text) / 31, true),
                r1,
                respell_time(&fmt_time(t1), fnv(&text) / 7, v3),
                r2,
                respell_time(&fmt_time(t2), fnv(&text) / 57, v3)
            ),
            _ => text,
        };
        if let Ok(p) = parse_posix_tz(&text, v3) {
            if p.iana_shaped() {
                return (text, p);
            }
        }
    }
}

/// A synthetic file obeying the statement's side conditions: ascending transitions, valid type
/// indices, and (v2+) a footer whose value at the last transition equals that transition's type.
pub fn gen_synth(rng: &mut Rng) -> Synth {
    let version = [1u8, 2, 2, 3, 3][rng.below(5) as usize];
    let ntypes = 1 + rng.below(8) as usize;
    let mut types: Vec<(i32, bool)> = (0..ntypes).map(|_| ((rng.range_i64(-50_000, 54_000) as i32 / 60) * 60 + if rng.chance(1, 6) { rng.below(60) as i32 } else { 0 }, rng.chance(1, 3))).collect();
    let ntrans = match rng.below(5) {
        0 => 0,
        1 => 1 + rng.below(3),
        _ => rng.below(61),
    } as usize;
    let mut t: i64 = match rng.below(3) {
        0 => rng.range_i64(-2_500_000_000, -1_000_000_000),
        1 => rng.range_i64(-4_000_000_000, 0),
        _ => rng.range_i64(0, 1_500_000_000),
    };
    let mut transitions = vec![];
    let mut type_idx = vec![];
    // sometimes the table passes through the instant whose 32-bit big-endian spelling is the file's magic "TZif"
    // (0x545A6966 = 2014-11-05T18:16:06Z) — and its 64-bit neighbour with the magic in the low half
    let bait: i64 = 0x545A_6966;
    let with_bait = rng.chance(1, 10);
    if with_bait {
        t = bait - rng.range_i64(0, 3) * 15_000_000;
    }
    for k in 0..ntrans {
        if with_bait && t > bait && !transitions.contains(&bait) && transitions.last().map(|l| *l < bait).unwrap_or(true) && k > 0 {
            t = bait;
        }
        transitions.push(t);
        type_idx.push(rng.below(ntypes as u64) as u8);
        t += match rng.below(4) {
            0 => 1 + rng.below(86_400) as i64,
            1 => 86_400 * (150 + rng.below(60) as i64),
            _ => 1 + rng.below(40_000_000) as i64,
        };
    }
    if version == 1 {
        transitions.retain(|x| *x >= i32::MIN as i64 && *x <= i32::MAX as i64);
        type_idx.truncate(transitions.len());
    }
    let mut footer = String::new();
    if version >= 2 {
        let (text, p) = gen_footer(rng, version >= 3);
        footer = text;
        // make the last transition agree with the footer at that instant
        if let (Some(last), Some(li)) = (transitions.last(), type_idx.last()) {
            let (o, d) = p.at(*last);
            types[*li as usize] = (o, d);
        }
    }
    let desigs = if rng.chance(1, 2) { Some((0..ntypes).map(|_| rng.pick(&DESIGNATIONS).to_string()).collect()) } else { None };
    Synth { version, transitions, type_idx, types, footer, desigs }
}


/// A file whose header fields are all drawn *independently* — the version byte of the first and of the second header,
/// the width (4 or 8 bytes) the second block's transition times are written with, the six counts of each header — and
/// whose body is then written to match those fields exactly, so that the file is self-aligned however inconsistent it
/// is (a version-2 outer header around a version-1-shaped inner block, more UT/local than standard/wall indicators,
/// a leap-second table, non-zero indicator bytes, a valid footer behind it).  Mutating a well-formed file never gets
/// here: one changed field misaligns everything behind it and the reader stops at the footer.
pub fn gen_frankenstein(rng: &mut Rng) -> (Vec<u8>, String) {
    let vers = [0u8, b'2', b'3', b'4', b'1'];
    let vo = *rng.pick(&vers[..4]);
    let vi = if rng.chance(1, 3) { vo } else { *rng.pick(&vers) };
    let mut out: Vec<u8> = vec![];
    let mut desc = format!("outer version {:?}, inner version {:?}", vo as char, vi as char);
    let block = |rng: &mut Rng, ver: u8, tsize: usize, desc: &mut String| -> Vec<u8> {
        let typ = 1 + rng.below(5) as u32;
        let time = match rng.below(4) { 0 => 0, 1 => 1, _ => rng.below(12) as u32 };
        let chr = 4 * typ;
        let leap = if rng.chance(1, 5) { 1 + rng.below(3) as u32 } else { 0 };
        let cnt = |rng: &mut Rng| match rng.below(4) { 0 => 0, 1 => typ, 2 => typ + 1 + rng.below(3) as u32, _ => rng.below(typ as u64 + 1) as u32 };
        let (isut, isstd) = (cnt(rng), cnt(rng));
        desc.push_str(&format!("; block(tsize {}): time {} typ {} chr {} leap {} isstd {} isut {}", tsize, time, typ, chr, leap, isstd, isut));
        let mut v = b"TZif".to_vec();
        v.push(ver);
        v.extend_from_slice(&[0u8; 15]);
        for x in [isut, isstd, leap, time, typ, chr] {
            v.extend_from_slice(&x.to_be_bytes());
        }
        let mut t: i64 = rng.range_i64(-2_000_000_000, 1_000_000_000);
        for _ in 0..time {
            if tsize == 4 { v.extend_from_slice(&(t as i32).to_be_bytes()); } else { v.extend_from_slice(&t.to_be_bytes()); }
            t += 1 + rng.below(30_000_000) as i64;
        }
        for _ in 0..time {
            v.push(rng.below(typ as u64) as u8);
        }
        for k in 0..typ {
            v.extend_from_slice(&((rng.range_i64(-50_000, 50_000) as i32 / 900) * 900).to_be_bytes());
            v.push(rng.below(2) as u8);
            v.push((4 * k) as u8);
        }
        for k in 0..typ {
            v.extend_from_slice(format!("T{:02}", k).as_bytes());
            v.push(0);
        }
        let mut lt: i64 = 78_796_800;
        for k in 0..leap {
            if tsize == 4 { v.extend_from_slice(&(lt as i32).to_be_bytes()); } else { v.extend_from_slice(&lt.to_be_bytes()); }
            v.extend_from_slice(&((k + 1) as i32).to_be_bytes());
            lt += 31_536_000;
        }
        for _ in 0..isstd {
            v.push(rng.below(2) as u8);
        }
        for _ in 0..isut {
            v.push(if rng.chance(2, 3) { 1 } else { 0 });
        }
        v
    };
    out.extend(block(rng, vo, 4, &mut desc));
    if vo != 0 || rng.chance(1, 4) {
        let tsize = if rng.chance(1, 2) { 8 } else { 4 };
        out.extend(block(rng, vi, tsize, &mut desc));
        match rng.below(5) {
            0 => {}
            1 => out.extend_from_slice(b"\n\n"),
            _ => {
                let v3 = rng.chance(1, 2);
                let (f, _) = gen_footer(rng, v3);
                out.push(b'\n');
                out.extend_from_slice(f.as_bytes());
                out.push(b'\n');
                desc.push_str(&format!("; footer {:?}", f));
            }
        }
    }
    (out, desc)
}
