pub mod calendar;
pub mod instant;
