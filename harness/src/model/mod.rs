pub mod calendar;
pub mod cron_spec;
pub mod fmt_spec;
pub mod instant;
pub mod pattern_gen;
pub mod rfc3339;
pub mod tzif_gen;
pub mod tzif_ref;
