//! RFC 3339 `date-time` generator and a hand-written recogniser/reader (reference for C13/C20).
//!
//!   date-time = full-date "T" full-time
//!   full-date = 4DIGIT "-" 2DIGIT "-" 2DIGIT          full-time = partial-time time-offset
//!   partial-time = 2DIGIT ":" 2DIGIT ":" 2DIGIT ["." 1*DIGIT]
//!   time-offset = "Z" / ("+" / "-") 2DIGIT ":" 2DIGIT

use super::calendar as cal;
use super::instant::{D, NS};
use crate::core::Rng;

#[derive(Clone, Debug, PartialEq, Eq)]
pub struct Stamp {
    pub year: u32,
    pub month: u32,
    pub day: u32,
    pub hour: u32,
    pub minute: u32,
    pub second: u32,
    /// fraction digits as written (may be empty = no fraction)
    pub frac: String,
    /// None = "Z"
    pub offset: Option<(char, u32, u32)>,
}

impl Stamp {
    pub fn text(&self) -> String {
        let mut s = format!("{:04}-{:02}-{:02}T{:02}:{:02}:{:02}", self.year, self.month, self.day, self.hour, self.minute, self.second);
        if !self.frac.is_empty() {
            s.push('.');
            s.push_str(&self.frac);
        }
        match self.offset {
            None => s.push('Z'),
            Some((sign, h, m)) => s.push_str(&format!("{}{:02}:{:02}", sign, h, m)),
        }
        s
    }
    pub fn offset_secs(&self) -> i32 {
        match self.offset {
            None => 0,
            Some((sign, h, m)) => {
                let v = (h * 3600 + m * 60) as i32;
                if sign == '-' {
                    -v
                } else {
                    v
                }
            }
        }
    }
    /// nanoseconds: the fraction truncated to 9 digits
    pub fn nanos(&self) -> u32 {
        let mut d: String = self.frac.chars().take(9).collect();
        while d.len() < 9 {
            d.push('0');
        }
        d.parse().unwrap()
    }
    /// Are all fields in range (calendar-valid date, hour ≤ 23, minute/second ≤ 59, offset ≤ 23:59)?
    pub fn fields_valid(&self) -> bool {
        self.year >= 1
            && cal::valid_display(self.year as i64, self.month, self.day)
            && self.hour <= 23
            && self.minute <= 59
            && self.second <= 59
            && match self.offset {
                None => true,
                Some((_, h, m)) => h <= 23 && m <= 59,
            }
    }
    /// UTC instant denoted (fields must be valid)
    pub fn instant(&self) -> i128 {
        let day = cal::days_from_civil(self.year as i64, self.month, self.day);
        day as i128 * D + (self.hour as i128 * 3600 + self.minute as i128 * 60 + self.second as i128) * NS + self.nanos() as i128 - self.offset_secs() as i128 * NS
    }
}

/// Generates a grammatical, in-range timestamp.
pub fn gen_valid(rng: &mut Rng) -> Stamp {
    let year = match rng.below(5) {
        0 => *rng.pick(&[1u32, 2, 4, 100, 400, 1900, 1970, 2000, 2024, 9999, 9998]),
        1 => rng.range_i64(1, 9999) as u32,
        _ => rng.range_i64(1900, 2100) as u32,
    };
    let month = rng.range_i64(1, 12) as u32;
    let ml = cal::month_len(year as i64, month);
    let day = match rng.below(4) {
        0 => ml,
        1 => 1,
        _ => rng.range_i64(1, ml as i64) as u32,
    };
    let (hour, minute, second) = match rng.below(4) {
        0 => *rng.pick(&[(0, 0, 0), (23, 59, 59), (12, 0, 0), (0, 0, 1), (23, 0, 0)]),
        _ => (rng.below(24) as u32, rng.below(60) as u32, rng.below(60) as u32),
    };
    let frac = match rng.below(4) {
        0 => String::new(),
        _ => {
            let len = 1 + rng.below(40) as usize;
            let style = rng.below(4);
            (0..len)
                .map(|k| match style {
                    0 => '0',
                    1 => '9',
                    2 => if k == len - 1 { '1' } else { '0' },
                    _ => (b'0' + rng.below(10) as u8) as char,
                })
                .collect()
        }
    };
    let offset = match rng.below(5) {
        0 => None,
        1 => Some((*rng.pick(&['+', '-']), 0, 0)),
        2 => Some((*rng.pick(&['+', '-']), *rng.pick(&[23u32, 12, 14, 1, 5]), *rng.pick(&[59u32, 0, 30, 45]))),
        _ => Some((*rng.pick(&['+', '-']), rng.below(24) as u32, rng.below(60) as u32)),
    };
    let mut st = Stamp { year, month, day, hour, minute, second, frac, offset };
    if rng.chance(1, 6) {
        // local time chosen so that the UTC instant is exactly midnight (or one second either side):
        // the day carry of "local − offset" is decided by equality
        let off = st.offset_secs() as i64;
        let utc_tod: i64 = *rng.pick(&[0i64, 0, 0, 1, 86_399]);
        let local = (utc_tod + off).rem_euclid(86_400);
        st.hour = (local / 3600) as u32;
        st.minute = (local / 60 % 60) as u32;
        st.second = (local % 60) as u32;
        if rng.chance(1, 2) {
            st.frac = String::new();
        }
    }
    st
}

/// One out-of-range field; returns the mutated stamp and the name of the mutation.
pub fn mutate_field(rng: &mut Rng, s: &Stamp) -> (Stamp, &'static str) {
    let mut m = s.clone();
    let ml = cal::month_len(s.year as i64, s.month);
    let kind = rng.below(10);
    let name = match kind {
        0 => {
            m.month = 0;
            "month=00"
        }
        1 => {
            m.month = *rng.pick(&[13u32, 14, 19, 99]);
            "month>12"
        }
        2 => {
            m.day = 0;
            "day=00"
        }
        3 => {
            m.day = *rng.pick(&[32u32, 33, 40, 99]);
            "day>31"
        }
        4 => {
            if ml == 31 {
                m.month = 2;
            }
            m.day = cal::month_len(m.year as i64, m.month) + 1;
            "day>month-length"
        }
        5 => {
            m.hour = *rng.pick(&[24u32, 25, 99]);
            "hour>=24"
        }
        6 => {
            m.minute = *rng.pick(&[60u32, 61, 99]);
            "minute>=60"
        }
        7 => {
            m.offset = Some((*rng.pick(&['+', '-']), *rng.pick(&[24u32, 25, 99]), rng.below(60) as u32));
            "offset-hour>=24"
        }
        8 => {
            m.offset = Some((*rng.pick(&['+', '-']), rng.below(24) as u32, *rng.pick(&[60u32, 61, 99])));
            "offset-minute>=60"
        }
        _ => {
            // Feb 29 in a common year
            m.month = 2;
            m.day = 29;
            while cal::is_leap_astro(m.year as i64) {
                m.year = if m.year > 1 { m.year - 1 } else { m.year + 1 };
            }
            "feb29-common-year"
        }
    };
    (m, name)
}

/// Recogniser for the `date-time` production (upper-case T/Z); returns the parsed stamp.
pub fn recognise(s: &str) -> Option<Stamp> {
    let b = s.as_bytes();
    if !s.is_ascii() || b.len() < 20 {
        return None;
    }
    let num = |r: std::ops::Range<usize>| -> Option<u32> {
        if b[r.clone()].iter().all(|c| c.is_ascii_digit()) {
            s[r].parse().ok()
        } else {
            None
        }
    };
    if b[4] != b'-' || b[7] != b'-' || b[10] != b'T' || b[13] != b':' || b[16] != b':' {
        return None;
    }
    let (year, month, day, hour, minute, second) = (num(0..4)?, num(5..7)?, num(8..10)?, num(11..13)?, num(14..16)?, num(17..19)?);
    let mut pos = 19;
    let mut frac = String::new();
    if b[pos] == b'.' {
        pos += 1;
        while pos < b.len() && b[pos].is_ascii_digit() {
            frac.push(b[pos] as char);
            pos += 1;
        }
        if frac.is_empty() {
            return None;
        }
    }
    if pos >= b.len() {
        return None;
    }
    let offset = if b[pos] == b'Z' {
        if pos + 1 != b.len() {
            return None;
        }
        None
    } else if b[pos] == b'+' || b[pos] == b'-' {
        if pos + 6 != b.len() || b[pos + 3] != b':' {
            return None;
        }
        Some((b[pos] as char, num(pos + 1..pos + 3)?, num(pos + 4..pos + 6)?))
    } else {
        return None;
    };
    Some(Stamp { year, month, day, hour, minute, second, frac, offset })
}
