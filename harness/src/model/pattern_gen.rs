//! Generator of patterns whose fields are unambiguous in text (C12's quantifier):
//! at most one field per component, in random order; after every variable-width numeric field
//! (y…yyyy, one-letter numerics, D/DD/DDDD+, w, X/x, XXXX/xxxx, XXXXX/xxxxx) comes a literal whose
//! rendered text does not start with a digit (after a zone field additionally none of `: - + Z`), or
//! the end; fixed-width fields may be adjacent; yyyyy+ only when |year| < 10^width; no narrow names;
//! a zone symbol wide enough for the offset; derived-only fields (G q w e) only next to a full date
//! whose year is not `yy`; `b` only together with minute and second fields (it depends on all three);
//! over-long runs are in scope (default-width rule).

use super::fmt_spec::Kind;
use crate::core::Rng;

#[derive(Clone, Debug, Default)]
pub struct PatInfo {
    pub pattern: String,
    /// year field carrying the full year (not yy)
    pub full_year: bool,
    pub has_year: bool,
    pub has_month: bool,
    pub has_dom: bool,
    pub has_doy: bool,
    pub hour24: bool,
    pub hour12: bool,
    pub has_period: bool,
    pub has_minute: bool,
    pub has_second: bool,
    /// digits of the sub-second field (0 = none)
    pub subsec_digits: u32,
    pub has_zone: bool,
    /// symbols used, e.g. "y4", "M3" (for coverage bins)
    pub used: Vec<(char, usize)>,
    pub multibyte_literal: bool,
    pub quoted_literal: bool,
    /// a symbol run of the other type used as literal text
    pub other_type_literal: bool,
}

#[derive(Clone, Copy, Debug)]
pub struct ValueFacts {
    /// display year
    pub year: i64,
    pub offset: i32,
}

/// Patterns people actually write (ISO-like, compact "key" forms, regional forms, log/mail forms).  A fast path or a
/// special case keyed on one exact pattern string is reached only by that string, so the whole corpus is run against
/// every value stratum.  (pattern, type it is written for, has a year field directly followed by digits — not
/// delimiter-terminated, so outside C12 —, unambiguous in text otherwise).
pub const COMMON_PATTERNS: [(&str, Kind, bool, bool); 62] = [
    ("yyyy-MM-dd HH:mm:ss", Kind::DateTime, false, true),
    ("yyyy/MM/dd HH:mm:ss", Kind::DateTime, false, true),
    ("yyyy-MM-ddTHH:mm:ss.nnnnnxxxxx", Kind::DateTime, false, true),
    ("d.M.yyyy H:m:s", Kind::DateTime, false, true),
    ("MMMM d, yyyy h:mm a", Kind::DateTime, false, true),
    ("yyyyMMddHHmmss", Kind::DateTime, true, true),
    ("yyyyMMdd'T'HHmmss", Kind::DateTime, true, true),
    ("yyyyMMddTHHmmssxxxx", Kind::DateTime, true, true),
    ("yyyy-MM-dd'T'HH:mm:ssxxx", Kind::DateTime, false, true),
    ("yyyy-MM-ddTHH:mm:ssXXX", Kind::DateTime, false, true),
    ("yyyy-MM-ddTHH:mm:ss.nnnXXX", Kind::DateTime, false, true),
    ("dd/MM/yyyy HH:mm", Kind::DateTime, false, true),
    ("MM/dd/yyyy hh:mm:ss a", Kind::DateTime, false, true),
    ("dd.MM.yyyy HH:mm:ss", Kind::DateTime, false, true),
    ("eee, dd MMM yyyy HH:mm:ss xxxx", Kind::DateTime, false, true),
    ("yyyy-MM-dd HH:mm:ss.nnn", Kind::DateTime, false, true),
    ("yyyy-MM-dd HH:mm:ss.nnnn", Kind::DateTime, false, true),
    ("yyyy-DDD'T'HH:mm", Kind::DateTime, false, true),
    ("yyyyMMddHHmmssnnn", Kind::DateTime, true, true),
    ("yyyy-MM-dd kk:mm", Kind::DateTime, false, true),
    ("kk:mm e D w", Kind::DateTime, false, false),
    ("yyyy-MM-dd HH:mm:ss eeee", Kind::DateTime, false, true),
    ("dd MMM yyyy, h:mm a", Kind::DateTime, false, true),
    ("yyyy-'W'ww-e", Kind::Date, false, false),
    ("yyyy-'W'ww", Kind::Date, false, false),
    ("w e", Kind::Date, false, false),
    ("yyyy 'Q'q", Kind::Date, false, false),
    ("yyyy-MM-dd", Kind::Date, false, true),
    ("yyyyMMdd", Kind::Date, true, true),
    ("yyMMdd", Kind::Date, false, false),
    ("yyyy/MM/dd", Kind::Date, false, true),
    ("dd.MM.yyyy", Kind::Date, false, true),
    ("d.M.yyyy", Kind::Date, false, true),
    ("MM/dd/yyyy", Kind::Date, false, true),
    ("M/d/yyyy", Kind::Date, false, true),
    ("d MMM yyyy", Kind::Date, false, true),
    ("MMMM d, yyyy", Kind::Date, false, true),
    ("eeee, d MMMM yyyy", Kind::Date, false, true),
    ("yyyy-DDD", Kind::Date, false, true),
    ("yyyyDDD", Kind::Date, true, true),
    ("yyyy-MM", Kind::Date, false, true),
    ("yyyyMM", Kind::Date, true, true),
    ("dd-MMM-yyyy", Kind::Date, false, true),
    ("yyyy.MM.dd G", Kind::Date, false, true),
    ("MMdd", Kind::Date, false, true),
    ("G", Kind::Date, false, false),
    ("GGGG", Kind::Date, false, false),
    ("HH:mm:ss", Kind::Time, false, true),
    ("HHmmss", Kind::Time, false, true),
    ("HH:mm", Kind::Time, false, true),
    ("HHmm", Kind::Time, false, true),
    ("h:mm a", Kind::Time, false, true),
    ("hh:mm:ss a", Kind::Time, false, true),
    ("HH:mm:ss.nnn", Kind::Time, false, true),
    ("HH:mm:ss.nnnnn", Kind::Time, false, true),
    ("HHmmssnnn", Kind::Time, false, true),
    ("h:mm:ss a xxx", Kind::Time, false, true),
    ("HH:mm:ssxxx", Kind::Time, false, true),
    ("kk:mm", Kind::Time, false, true),
    ("G HH", Kind::DateTime, false, false),
    ("HH:mm G", Kind::DateTime, false, false),
    ("HH:mm:ss xxxxx", Kind::DateTime, false, false),
];

struct Field {
    text: String,
    /// needs a non-digit literal (or the end) after it
    needs_delim: bool,
    zone: bool,
}

fn run(c: char, w: usize) -> String {
    std::iter::repeat(c).take(w).collect()
}

fn year_field(rng: &mut Rng, v: &ValueFacts, info: &mut PatInfo, allow_yy: bool) -> Field {
    let digits = v.year.unsigned_abs().to_string().len();
    let mut opts: Vec<usize> = vec![1, 3, 4];
    for w in 5..=9 {
        if digits <= w {
            opts.push(w);
        }
    }
    if allow_yy && v.year >= 0 {
        opts.push(2);
    }
    let w = *rng.pick(&opts);
    info.has_year = true;
    info.full_year = w != 2;
    info.used.push(('y', w));
    Field { text: run('y', w), needs_delim: matches!(w, 1 | 3 | 4), zone: false }
}

fn numeric12(rng: &mut Rng, c: char, info: &mut PatInfo) -> Field {
    // widths 1, 2 and over-long (→ default 2)
    let w = *rng.pick(&[1usize, 2, 2, 2, 3, 4, 6]);
    info.used.push((c, w));
    Field { text: run(c, w), needs_delim: w == 1, zone: false }
}

fn zone_field(rng: &mut Rng, v: &ValueFacts, info: &mut PatInfo) -> Field {
    let c = if rng.chance(1, 2) { 'X' } else { 'x' };
    let widths: Vec<usize> = if v.offset % 60 != 0 { vec![4, 5] } else { vec![1, 2, 3, 4, 5, 6, 7] };
    let w = *rng.pick(&widths);
    info.has_zone = true;
    info.used.push((c, w));
    Field { text: run(c, w), needs_delim: matches!(w, 1 | 4 | 5), zone: true }
}

const DELIMS: [&str; 46] = [
    " ", "/", "-", ":", ".", ",", "T", "_", " ", "-", "é", "日", "'at'", "''", "' o''clock '", "'日付'",
    // white space / line ends (also as the very last thing of a pattern), Unicode numerics that are not ASCII
    // digits (a reader that asks char::is_numeric instead of is_ascii_digit swallows them into a number)
    "\n", "\r\n", "\t", "\u{a0}", "½", "②", "Ⅳ", "'½'", "'\n'", " \n", "|", "'\r'",
    // two literal tokens of different kinds side by side (plain then quoted, quoted then plain), quoted text that
    // starts / ends with white space, and quoted text that continues an English name ("Sun" + "day", "Sep" + "tember")
    " ' at '", " 'T'", "' 'T", "'  '", "- ' '", "' ' ", "'day'", "'nesday'", "'urday'", "'uary'", "'tember'", "'ober'", "'ust'", "'M'", "'.m.'", "'night'", "'st'", "'th'",
];
/// Symbol runs of the *other* type: a Date copies time symbols literally and a Time copies date symbols literally,
/// so in a pattern of that type they are plain literal text (a DateTime pattern re-used for a Date, say).
const TIME_RUNS_AS_DATE_LITERALS: [&str; 14] = ["HH", "mm", "ss", "h", "a", "T HH:mm", "nnn", "XXX", "k", "b", "K", "x", " HH:mm:ss", "HHmmss"];
const DATE_RUNS_AS_TIME_LITERALS: [&str; 12] = ["yyyy", "MM", "dd", "G", "q", "w", "D", "e", "yyyy-MM-dd ", "M", "d", "yyyyMMdd"];
const ZONE_SAFE_DELIMS: [&str; 14] = [" ", "/", ".", ",", "T", "_", "é", "'at'", "''", "\n", "\t", "½", "②", "|"];

/// Generates one pattern for a value with the given year/offset.
pub fn gen(rng: &mut Rng, kind: Kind, v: &ValueFacts) -> PatInfo {
    let mut info = PatInfo::default();
    let mut fields: Vec<Field> = vec![];
    let date = kind != Kind::Time;
    let time = kind != Kind::Date;

    if date {
        // year: usually present
        let with_year = rng.chance(5, 6);
        // derived-only fields need a full date with a full year
        let want_derived = with_year && rng.chance(1, 3);
        if with_year {
            let f = year_field(rng, v, &mut info, !want_derived);
            fields.push(f);
        }
        let date_shape = if want_derived { rng.below(2) } else { rng.below(5) };
        match date_shape {
            0 => {
                // month + day of month
                let w = *rng.pick(&[1usize, 2, 2, 3, 4, 6, 7]);
                info.has_month = true;
                info.used.push(('M', w));
                fields.push(Field { text: run('M', w), needs_delim: w == 1, zone: false });
                info.has_dom = true;
                fields.push(numeric12(rng, 'd', &mut info));
            }
            1 => {
                // day of year
                let w = *rng.pick(&[1usize, 2, 3, 3, 4, 5]);
                info.has_doy = true;
                info.used.push(('D', w));
                fields.push(Field { text: run('D', w), needs_delim: w != 3, zone: false });
            }
            2 => {
                let w = *rng.pick(&[1usize, 2, 3, 4]);
                info.has_month = true;
                info.used.push(('M', w));
                fields.push(Field { text: run('M', w), needs_delim: w == 1, zone: false });
            }
            3 => {
                info.has_dom = true;
                fields.push(numeric12(rng, 'd', &mut info));
            }
            _ => {}
        }
        if want_derived && info.full_year && ((info.has_month && info.has_dom) || info.has_doy) {
            let k = 1 + rng.below(3);
            let mut pool = vec!['G', 'q', 'w', 'e'];
            for _ in 0..k {
                if pool.is_empty() {
                    break;
                }
                let c = pool.remove(rng.below(pool.len() as u64) as usize);
                let (w, needs): (usize, bool) = match c {
                    'G' => (*rng.pick(&[1usize, 2, 3, 4, 5, 6]), false),
                    'q' => (*rng.pick(&[1usize, 2, 3, 4, 5, 6]), false),
                    'w' => {
                        let w = *rng.pick(&[1usize, 2, 2, 3]);
                        (w, w == 1)
                    }
                    _ => (*rng.pick(&[1usize, 2, 3, 4, 6, 7, 8, 9]), false),
                };
                info.used.push((c, w));
                fields.push(Field { text: run(c, w), needs_delim: needs, zone: false });
            }
        }
    }
    if time {
        // `b` (noon/midnight) is decided by hour, minute and second together: it is only unambiguous in
        // text when the pattern also carries minute and second; otherwise `a` is used.
        let with_min = rng.chance(4, 5);
        let with_sec = rng.chance(3, 4);
        let b_ok = with_min && with_sec;
        match rng.below(6) {
            0 | 1 | 2 => {
                let c = if rng.chance(3, 4) { 'H' } else { 'k' };
                info.hour24 = true;
                fields.push(numeric12(rng, c, &mut info));
                if rng.chance(1, 6) {
                    // a period next to a 24-hour field is ignored by the parser but must still round-trip
                    let c = if b_ok && rng.chance(1, 2) { 'b' } else { 'a' };
                    let w = 1 + rng.below(6) as usize;
                    info.used.push((c, w));
                    fields.push(Field { text: run(c, w), needs_delim: false, zone: false });
                }
            }
            3 | 4 => {
                let c = if rng.chance(2, 3) { 'h' } else { 'K' };
                info.hour12 = true;
                fields.push(numeric12(rng, c, &mut info));
                if rng.chance(5, 6) {
                    let c = if b_ok && rng.chance(1, 2) { 'b' } else { 'a' };
                    let w = 1 + rng.below(6) as usize;
                    info.has_period = true;
                    info.used.push((c, w));
                    fields.push(Field { text: run(c, w), needs_delim: false, zone: false });
                }
            }
            _ => {}
        }
        if with_min {
            info.has_minute = true;
            fields.push(numeric12(rng, 'm', &mut info));
        }
        if with_sec {
            info.has_second = true;
            fields.push(numeric12(rng, 's', &mut info));
        }
        if rng.chance(1, 2) {
            let w = 1 + rng.below(7) as usize;
            info.subsec_digits = match w {
                1 => 1,
                2 => 2,
                4 => 6,
                5 => 9,
                _ => 3,
            };
            info.used.push(('n', w));
            fields.push(Field { text: run('n', w), needs_delim: false, zone: false });
        }
        if rng.chance(2, 3) {
            fields.push(zone_field(rng, v, &mut info));
        }
    }
    // random order
    for i in (1..fields.len()).rev() {
        let j = rng.below(i as u64 + 1) as usize;
        fields.swap(i, j);
    }
    // assemble with delimiters
    let mut p = String::new();
    if rng.chance(1, 6) {
        let d = *rng.pick(&DELIMS);
        note_delim(&mut info, d);
        p.push_str(d);
    }
    let n = fields.len();
    for (k, f) in fields.iter().enumerate() {
        // two adjacent runs of the same letter would merge
        let last = k + 1 == n;
        p.push_str(&f.text);
        let next_same_letter = !last && fields[k + 1].text.chars().next() == f.text.chars().next();
        let must = (f.needs_delim && !last) || next_same_letter;
        if must || (!last && rng.chance(2, 3)) || (last && rng.chance(1, 5)) {
            let d = if kind == Kind::Date && rng.chance(1, 6) {
                info.other_type_literal = true;
                *rng.pick(&TIME_RUNS_AS_DATE_LITERALS)
            } else if kind == Kind::Time && rng.chance(1, 6) {
                info.other_type_literal = true;
                *rng.pick(&DATE_RUNS_AS_TIME_LITERALS)
            } else if f.zone {
                *rng.pick(&ZONE_SAFE_DELIMS)
            } else {
                *rng.pick(&DELIMS)
            };
            // a literal run must not merge with the neighbouring symbol run of the same character
            note_delim(&mut info, d);
            p.push_str(d);
        }
    }
    info.pattern = p;
    info
}

fn note_delim(info: &mut PatInfo, d: &str) {
    if d.chars().any(|c| c.len_utf8() > 1) {
        info.multibyte_literal = true;
    }
    if d.starts_with('\'') {
        info.quoted_literal = true;
    }
}
