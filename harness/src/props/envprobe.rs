//! The process environment as ambient state.  `Offset::Local` is the one place where the library looks outside its
//! arguments (the zone file, the clock); a library of this kind is one `std::env::var("TZ")` away from looking at the
//! environment too.  Environment variables cannot be varied safely inside the multi-threaded harness, so the battery
//! below runs in a child process (`astromon envprobe <zone-file>`) started with a hostile environment: TZ / TZDIR /
//! LANG / LC_ALL / HOME unset, empty, a lone colon, multi-byte, very long, pointing nowhere.  What the answers are may
//! depend on the environment (honouring TZ is legitimate); that every call *returns* may not.
use crate::core::*;
use astrolabe::{DateTime, DateUtilities, Offset, OffsetUtilities, Time, TimeUtilities};
use serde_json::json;

/// The battery (child side).  Everything a program does with a local value: resolve, attach, read, set, clear, format,
/// parse with a clock-dependent field — with the zone hook pointing at a given file and with the machine's own zone.
pub fn child(args: &[String]) -> i32 {
    let zone = args.first().cloned();
    let mut calls = 0u64;
    for hooked in [false, true] {
        let r = trap(|| {
            if hooked {
                if let Some(z) = &zone {
                    astrolabe::verif::set_localtime_path(Some(std::path::PathBuf::from(z)));
                }
            }
            let mut n = 0u64;
            let _ = Offset::Local.resolve();
            n += 1;
            for ts in [0i64, 1_700_000_000, -2_000_000_000, 253_402_300_799] {
                let d = DateTime::from_timestamp(ts).set_offset(Offset::Local);
                let _ = (d.year(), d.month(), d.day(), d.day_of_year(), d.weekday(), d.hour(), d.minute(), d.second(), d.nano(), d.timestamp());
                let _ = (d.format("yyyy-MM-dd HH:mm:ss xxxxx e w"), d.to_string(), d.format_rfc3339(astrolabe::Precision::Nanos));
                let _ = (d.set_year(2000), d.set_year(i32::MAX), d.set_month(2), d.set_month(13), d.set_day(31), d.set_day(0), d.set_day_of_year(366), d.set_hour(23), d.set_hour(24), d.set_minute(59), d.set_second(60), d.set_milli(999), d.set_micro(1_000_000), d.set_nano(0));
                let _ = (d.clear_until_year(), d.clear_until_day(), d.clear_until_second(), d.clear_until_nano());
                let _ = d.as_offset(Offset::Local);
                n += 30;
                let t = Time::from(d).set_offset(Offset::Local);
                let _ = (t.hour(), t.minute(), t.second(), t.nano(), t.to_string(), t.format("HH:mm:ss xxx"));
                let _ = (t.set_hour(5), t.set_hour(24), t.set_minute(60), t.set_second(7), t.set_nano(1), t.clear_until_minute());
                n += 12;
            }
            let _ = (DateTime::now(), astrolabe::Date::now(), Time::now());
            let _ = DateTime::parse("22-05-02", "yy-MM-dd");
            let _ = astrolabe::Date::parse("99 123", "yy DDD");
            let _ = "2022-05-02T15:30:20Z".parse::<DateTime>();
            let _ = astrolabe::CronSchedule::parse("* * * * *").map(|mut s| s.next());
            n += 7;
            astrolabe::verif::set_localtime_path(None);
            n
        });
        match r {
            Ok(n) => calls += n,
            Err(p) => {
                println!("ENVPROBE-PANIC hooked={} class={} site={}", hooked, p.class, p.site());
                return 3;
            }
        }
    }
    println!("ENVPROBE-OK calls={}", calls);
    0
}

/// One hostile environment for the child (parent side).  idx enumerates the table below.
pub fn env_table() -> Vec<(&'static str, Vec<(&'static str, Option<String>)>)> {
    let long = "A".repeat(5_000);
    let mixed = format!("{}é{}", "a".repeat(39), "日".repeat(20));
    let mut t: Vec<(&'static str, Vec<(&'static str, Option<String>)>)> = vec![("inherited", vec![]), ("TZ unset", vec![("TZ", None)])];
    for (name, v) in [
        ("TZ empty", ""), ("TZ colon", ":"), ("TZ :/etc/localtime", ":/etc/localtime"), ("TZ UTC", "UTC"), ("TZ UTC0", "UTC0"), ("TZ Europe/Berlin", "Europe/Berlin"),
        ("TZ :Europe/Berlin", ":Europe/Berlin"), ("TZ é", "é"), ("TZ :é", ":é"), ("TZ 日本", "日本"), ("TZ /nonexistent", "/nonexistent/zone"), ("TZ relative ..", "../../../etc/passwd"),
        ("TZ posix rule", "CET-1CEST,M3.5.0,M10.5.0/3"), ("TZ <+05>-5", "<+05>-5"), ("TZ space", " "), ("TZ newline", "\n"), ("TZ directory", "/"),
    ] {
        t.push((name, vec![("TZ", Some(v.to_string()))]));
    }
    t.push(("TZ 5000 chars", vec![("TZ", Some(long.clone()))]));
    t.push(("TZ mixed widths around byte 40", vec![("TZ", Some(mixed.clone()))]));
    t.push(("TZ : + mixed widths", vec![("TZ", Some(format!(":{}", mixed)))]));
    for (name, k) in [("TZDIR", "TZDIR"), ("LANG", "LANG"), ("LC_ALL", "LC_ALL"), ("LC_TIME", "LC_TIME"), ("HOME", "HOME"), ("TMPDIR", "TMPDIR")] {
        let _ = name;
        for v in ["", "é", "/nonexistent"] {
            t.push((k, vec![(k, Some(v.to_string()))]));
        }
        t.push((k, vec![(k, Some(long.clone()))]));
    }
    t.push(("TZ empty + TZDIR empty", vec![("TZ", Some(String::new())), ("TZDIR", Some(String::new()))]));
    t.push(("TZ Europe/Berlin + TZDIR nonexistent", vec![("TZ", Some("Europe/Berlin".into())), ("TZDIR", Some("/nonexistent".into()))]));
    t
}

/// Parent side: run the battery in a child with environment #idx; a panic (or any abnormal exit) is a violation of
/// the never-abort / never-panic sentences of the calling property.
pub fn judge_env(rec: &mut Rec, prop: &'static str, idx: u64) {
    let table = env_table();
    let (name, vars) = &table[(idx as usize) % table.len()];
    rec.eval();
    rec.api("Offset::Local / set_* / format / parse in a child process");
    rec.bin("environment/child-run");
    rec.nontrivial(hash_str(name) ^ mix64(idx));
    let zone = super::c18::verif_root().join("corpus/tzif/fat/Europe__Paris");
    let exe = match std::env::current_exe() {
        Ok(e) => e,
        Err(_) => {
            rec.bin("environment/no-current-exe(skipped)");
            return;
        }
    };
    let mut cmd = std::process::Command::new(exe);
    cmd.arg("envprobe").arg(&zone);
    for (k, v) in vars {
        match v {
            Some(v) => {
                cmd.env(k, v);
            }
            None => {
                cmd.env_remove(k);
            }
        }
    }
    match cmd.output() {
        Err(e) => {
            rec.bin("environment/spawn-failed(skipped)");
            let _ = e;
        }
        Ok(o) => {
            let out = String::from_utf8_lossy(&o.stdout).to_string();
            if o.status.code() == Some(0) && out.contains("ENVPROBE-OK") {
                rec.bin("environment/child-ok");
            } else {
                let tail: String = String::from_utf8_lossy(&o.stderr).chars().rev().take(300).collect::<String>().chars().rev().collect();
                let what = out.lines().find(|l| l.starts_with("ENVPROBE-PANIC")).unwrap_or("abnormal exit").to_string();
                rec.violation(format!("{}|environment|Offset::Local battery|panic-or-abort-under-environment|{}", prop, vars.first().map(|v| v.0).unwrap_or("inherited")), || json!({"environment": name, "variables": vars.iter().map(|(k, v)| json!({"name": k, "value": v.as_ref().map(|s| s.chars().take(80).collect::<String>())})).collect::<Vec<_>>(), "exit": o.status.code(), "stdout": what, "stderr_tail": tail}));
            }
        }
    }
}

pub fn env_cases() -> u64 {
    env_table().len() as u64
}
