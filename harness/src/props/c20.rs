//! C20 — default text forms (Display, FromStr, serde) name the value they came from.

use super::c11::{gen_fmt_value, val_of};
use super::PropResult;
use crate::core::*;
use crate::model::calendar as cal;
use crate::model::fmt_spec::{render, Kind};
use crate::model::instant::*;
use super::diff::*;
use astrolabe::{Date, DateTime, DateUtilities, Offset, OffsetUtilities, Precision, Time, TimeUtilities};
use serde_json::{json, Value};
use std::str::FromStr;


fn year_class(y: i64) -> &'static str {
    if y < 0 {
        if y <= -10_000 {
            "year/negative-5+digits"
        } else {
            "year/negative"
        }
    } else if y >= 10_000 {
        "year/5+digits"
    } else if y < 1000 {
        "year/<4digits"
    } else {
        "year/4digits"
    }
}


/// Display read through the formatting machinery's other doors: a width, a fill and an alignment, a precision, flags,
/// a wrapper that forwards its Formatter, write! into a String.  Padding may be added (it is stripped here — the fill
/// characters used never occur at the ends of a default text); anything else must leave the text what to_string() is:
/// a precision must not cut it short.  Returns the first route whose text differs.
fn display_routes<T: std::fmt::Display>(x: &T, shown: &str) -> Option<(&'static str, String)> {
    use std::fmt::Write;
    struct Fwd<'a, U: std::fmt::Display>(&'a U);
    impl<U: std::fmt::Display> std::fmt::Display for Fwd<'_, U> {
        fn fmt(&self, f: &mut std::fmt::Formatter<'_>) -> std::fmt::Result {
            self.0.fmt(f)
        }
    }
    let mut w = String::new();
    let _ = write!(w, "{}", x);
    let routes: Vec<(&'static str, String, char)> = vec![
        ("write!", w, ' '),
        ("{:>40}", format!("{:>40}", x), ' '),
        ("{:<5}", format!("{:<5}", x), ' '),
        ("{:*^33}", format!("{:*^33}", x), '*'),
        ("{:.7}", format!("{:.7}", x), ' '),
        ("{:.0}", format!("{:.0}", x), ' '),
        ("{:.3}", format!("{:.3}", x), ' '),
        ("{:_<30.5}", format!("{:_<30.5}", x), '_'),
        ("{:+}", format!("{:+}", x), ' '),
        ("{:#}", format!("{:#}", x), ' '),
        ("forwarding wrapper {:>30.4}", format!("{:>30.4}", Fwd(x)), ' '),
        ("forwarding wrapper {}", format!("{}", Fwd(x)), ' '),
    ];
    for (name, text, fill) in routes {
        if text.trim_matches(fill) != shown {
            return Some((name, text));
        }
    }
    None
}

fn judge_date(rec: &mut Rec, day: i64) {
    rec.eval();
    let (y, m, d) = cal::ymd(day);
    rec.bin(year_class(y));
    rec.nontrivial(mix64(day as u64 ^ 0x2020));
    let v = val_of(Kind::Date, day as i128 * D, 0);
    let disp = render(&v, "yyyy/MM/dd").unwrap();
    let iso = render(&v, "yyyy-MM-dd").unwrap();
    let Some(x) = sane_date(day) else {
        rec.bin(SKIP_START);
        return;
    };
    // 1 = reads like the independently built Date of that day, 0 = differs, −1 = no trustworthy expected value
    let same_day = |p: &Date| -> i8 {
        match diff_date(p, day) {
            Ok(DateDiff::Same) => 1,
            Ok(DateDiff::Skip) => -1,
            _ => 0,
        }
    };
    let r = trap(|| {
        let shown = x.to_string();
        let routes = display_routes(&x, &shown);
        // "of the value": what the value's own format() shows for the documented default pattern
        let disp_lib = x.format("yyyy/MM/dd");
        let iso_lib = x.format("yyyy-MM-dd");
        let parsed = Date::from_str(&iso).map(|p| same_day(&p)).map_err(|e| e.to_string());
        let js = serde_json::to_string(&x).map_err(|e| e.to_string());
        let back = js.clone().and_then(|j| serde_json::from_str::<Date>(&j).map_err(|e| e.to_string())).map(|p| same_day(&p));
        (shown, disp_lib, iso_lib, parsed, js, back, routes)
    });
    rec.api("Date: Display/FromStr/serde");
    let wit = |obs: Value| json!({"date": [y, m, d], "day": day, "model_display": disp, "model_iso": iso, "observed": obs});
    match r {
        Err(p) => rec.violation(format!("C20|date|Display/FromStr/serde|panic|{},{}", p.class, p.site()), || wit(p.to_json())),
        Ok((shown, disp_lib, iso_lib, parsed, js, back, routes)) => {
            if let Some((route, text)) = routes {
                rec.violation(format!("C20|date|Display|format-spec-changes-the-text|{}", route), || wit(json!({"to_string": shown, "route": route, "text": text})));
            }
            if shown != disp_lib {
                rec.violation(format!("C20|date|Display|wrong-text|{}", year_class(y)), || wit(json!({"to_string": shown, "format(\"yyyy/MM/dd\")": disp_lib})));
            }
            if disp_lib != disp || iso_lib != iso {
                rec.bin("note/format-differs-from-model(other-property)");
            }
            match parsed {
                Ok(1) => {}
                Ok(-1) => rec.bin(SKIP_EXPECTED),
                other => rec.violation(format!("C20|date|FromStr|does-not-read-yyyy-MM-dd|{}", year_class(y)), || wit(json!(format!("{:?} (1 = the same date)", other)))),
            }
            match (&js, &back) {
                (Ok(j), Ok(1)) if *j == format!("\"{}\"", iso_lib) => {}
                (Ok(_), Ok(-1)) => rec.bin(SKIP_EXPECTED),
                _ => rec.violation(format!("C20|date|serde|round-trip-differs|{}", year_class(y)), || wit(json!({"json": js, "back (1 = the same date)": back}))),
            }
        }
    }
    if rec.want_sample() {
        rec.sample(|| wit(json!("(see verdict)")));
    }
}

fn judge_time(rec: &mut Rec, n: u64, off: i32) {
    rec.eval();
    rec.bin(if off == 0 { "time/offset0" } else { "time/with-offset" });
    rec.nontrivial(hash_i128s(&[n as i128, off as i128, 0x20]));
    let v = val_of(Kind::Time, n as i128, off);
    let hms = render(&v, "HH:mm:ss").unwrap();
    // The Display and serde claims are relative to the value's own HH:mm:ss, so they are judged even where the
    // model-based construction check fails (then only the model-written FromStr text is skipped).
    let sane = sane_time(n, off).is_some();
    let built = trap(|| Time::from_nanos(n).ok().map(|t| t.set_offset(Offset::Fixed(off)))).ok().flatten();
    let Some(t) = built else {
        rec.bin(SKIP_START);
        return;
    };
    if !sane {
        rec.bin(SKIP_START);
        rec.bin("time/relative-claims-only(value-not-canonical)");
    }
    let local_secs = v.tod / 1_000_000_000;
    let r = trap(|| {
        let shown = t.to_string();
        let routes = display_routes(&t, &shown);
        let hms_lib = t.format("HH:mm:ss");
        let parsed = Time::from_str(&hms).map_err(|e| e.to_string()).map(|p| match diff_time(&p, local_secs * 1_000_000_000, 0) {
            Ok(TDiff::Same) => 1i8,
            Ok(TDiff::Skip) => -1,
            _ => 0,
        });
        let js = serde_json::to_string(&t).map_err(|e| e.to_string());
        let back = js.clone().and_then(|j| serde_json::from_str::<Time>(&j).map_err(|e| e.to_string())).map(|p| (p.format("HH:mm:ss"), p.as_nanos()));
        (shown, hms_lib, parsed, js, back, routes)
    });
    rec.api("Time: Display/FromStr/serde");
    let wit = |obs: Value| json!({"time_as_nanos": n, "offset": off, "model_HH:mm:ss": hms, "observed": obs});
    match r {
        Err(p) => rec.violation(format!("C20|time|Display/FromStr/serde|panic|{},{}", p.class, p.site()), || wit(p.to_json())),
        Ok((shown, hms_lib, parsed, js, back, routes)) => {
            if let Some((route, text)) = routes {
                rec.violation(format!("C20|time|Display|format-spec-changes-the-text|{}", route), || wit(json!({"to_string": shown, "route": route, "text": text})));
            }
            if shown != hms_lib {
                rec.violation("C20|time|Display|wrong-text".to_string(), || wit(json!({"to_string": shown, "format(\"HH:mm:ss\")": hms_lib})));
            }
            if hms_lib != hms {
                rec.bin("note/format-differs-from-model(other-property)");
            }
            match parsed {
                _ if !sane => {}
                Ok(1) => {}
                Ok(-1) => rec.bin(SKIP_EXPECTED),
                other => rec.violation("C20|time|FromStr|does-not-read-HH:mm:ss".to_string(), || wit(json!(format!("{:?} (1 = the time written)", other)))),
            }
            match (&js, &back) {
                (Ok(j), Ok((text, pn))) if *text == hms_lib && *pn < 86_400_000_000_000 && *j == format!("\"{}\"", hms_lib) => {}
                _ => rec.violation("C20|time|serde|does-not-show-the-same-HH:mm:ss".to_string(), || wit(json!({"json": js, "back": format!("{:?}", back)}))),
            }
        }
    }
    if rec.want_sample() {
        rec.sample(|| wit(json!("(see verdict)")));
    }
}

fn judge_datetime(rec: &mut Rec, i: i128, off: i32) {
    rec.eval();
    let v = val_of(Kind::DateTime, i, off);
    let (y, _, _) = cal::ymd(v.day);
    let serde_claim = (1..=9999).contains(&y) && off % 60 == 0;
    rec.bin(if serde_claim { "datetime/serde-claimed" } else { "datetime/display-only" });
    rec.bin(if off == 0 { "datetime/offset0" } else if off < 0 { "datetime/negative-offset" } else { "datetime/positive-offset" });
    rec.nontrivial(hash_i128s(&[i, off as i128, 0x2020]));
    let disp = match render(&v, "yyyy/MM/dd HH:mm:ss") {
        Some(d) => d,
        None => return,
    };
    let sane = sane_value(i, off).is_some();
    let built = if representable(i) && representable(i + off as i128 * NS) { trap(|| mk_off(i, off)).ok() } else { None };
    let Some(dt) = built else {
        rec.bin(SKIP_START);
        return;
    };
    if !sane {
        rec.bin(SKIP_START);
        rec.bin("datetime/relative-claims-only(value-not-canonical)");
    }
    let want = i.div_euclid(NS) * NS;
    let r = trap(|| {
        let shown = dt.to_string();
        let routes = display_routes(&dt, &shown);
        let disp_lib = dt.format("yyyy/MM/dd HH:mm:ss");
        let (js, back) = if serde_claim {
            let js = serde_json::to_string(&dt).map_err(|e| e.to_string());
            let back = js.clone().and_then(|j| serde_json::from_str::<DateTime>(&j).map_err(|e| e.to_string())).map(|p| if !sane {
                // relative form of the claim: same text form to the second, same timestamp, same offset
                let same = p.format_rfc3339(Precision::Seconds) == dt.format_rfc3339(Precision::Seconds) && p.timestamp() == dt.timestamp() && p.get_offset() == dt.get_offset();
                if same { (1i8, String::new()) } else { (0, format!("deserialized value writes {} / timestamp {} but the original writes {} / timestamp {}", p.format_rfc3339(Precision::Seconds), p.timestamp(), dt.format_rfc3339(Precision::Seconds), dt.timestamp())) }
            } else { match diff_with_expected(&p, want, off) {
                Ok(Diff::Same) => (1i8, String::new()),
                Ok(Diff::Skip) => (-1, String::new()),
                Ok(Diff::Differs(g, e)) => (0, format!("deserialized value reads {} but the original (to the second) reads {}", g.to_json(), e.to_json())),
                Err(pn) => (0, format!("deserialized value unreadable: {}", pn.msg)),
            }});
            (Some(js), Some(back))
        } else {
            (None, None)
        };
        (shown, disp_lib, js, back, routes)
    });
    rec.api("DateTime: Display/serde");
    let wit = |obs: Value| json!({"value_utc": show(i), "offset": off, "model_display": disp, "observed": obs});
    match r {
        Err(p) => rec.violation(format!("C20|datetime|Display/serde|panic|{},{}", p.class, p.site()), || wit(p.to_json())),
        Ok((shown, disp_lib, js, back, routes)) => {
            if let Some((route, text)) = routes {
                rec.violation(format!("C20|datetime|Display|format-spec-changes-the-text|{}", route), || wit(json!({"to_string": shown, "route": route, "text": text})));
            }
            if shown != disp_lib {
                rec.violation(format!("C20|datetime|Display|wrong-text|{}", year_class(y)), || wit(json!({"to_string": shown, "format(\"yyyy/MM/dd HH:mm:ss\")": disp_lib})));
            }
            if disp_lib != disp {
                rec.bin("note/format-differs-from-model(other-property)");
            }
            if serde_claim {
                match (&js, &back) {
                    (Some(Ok(_)), Some(Ok((1, _)))) => {}
                    (Some(Ok(_)), Some(Ok((-1, _)))) => rec.bin(SKIP_EXPECTED),
                    _ => rec.violation("C20|datetime|serde|not-the-same-instant-to-the-second-and-offset".to_string(), || wit(json!({"json": format!("{:?}", js), "back": format!("{:?}", back), "expected_instant": show(want)}))),
                }
            }
        }
    }
    if rec.want_sample() {
        rec.sample(|| wit(json!("(see verdict)")));
    }
}

const JUNK: [&str; 14] = ["é", "日", "\u{0}", "-", "+", ":", "Z", "T", ".", "99", "a", " ", "\u{1F570}", "0"];

fn mutate(rng: &mut Rng, s: &str) -> String {
    let mut cs: Vec<char> = s.chars().collect();
    let n = 1 + rng.below(3);
    for _ in 0..n {
        let pos = rng.below(cs.len() as u64 + 1) as usize;
        match rng.below(4) {
            0 if !cs.is_empty() => {
                cs.remove(pos.min(cs.len() - 1));
            }
            1 => {
                for (k, c) in rng.pick(&JUNK).chars().enumerate() {
                    cs.insert((pos + k).min(cs.len()), c);
                }
            }
            2 if !cs.is_empty() => {
                let p = pos.min(cs.len() - 1);
                cs[p] = rng.pick(&JUNK).chars().next().unwrap();
            }
            _ => cs.truncate(pos),
        }
    }
    cs.into_iter().collect()
}

fn judge_malformed(rec: &mut Rec, kind: Kind, text: &str) {
    rec.eval();
    rec.api("serde_json::from_str / FromStr on malformed text");
    rec.nontrivial(hash_str(text) ^ kind as u64);
    let js = serde_json::to_string(text).unwrap();
    let r = trap(|| match kind {
        Kind::Date => (serde_json::from_str::<Date>(&js).is_ok(), Date::from_str(text).is_ok()),
        Kind::Time => (serde_json::from_str::<Time>(&js).map(|t| t.as_nanos() < 86_400_000_000_000).unwrap_or(false), Time::from_str(text).is_ok()),
        Kind::DateTime => (serde_json::from_str::<DateTime>(&js).is_ok(), DateTime::from_str(text).is_ok()),
    });
    let kn = match kind {
        Kind::Date => "Date",
        Kind::Time => "Time",
        Kind::DateTime => "DateTime",
    };
    match r {
        Err(p) => rec.violation(format!("C20|malformed|{}::deserialize/from_str|panic|{},{}", kn, p.class, p.site()), || json!({"type": kn, "text": text, "panic": p.to_json()})),
        Ok((a, b)) => {
            rec.bin(if a || b { "malformed/accepted-anyway" } else { "malformed/rejected" });
        }
    }
}

pub fn run(ctx: &Ctx) -> PropResult {
    // for every offset (quick: every whole-minute offset and every 89th other one): the stored times whose local
    // reading is exactly midnight, one nanosecond / one second either side of it, and exactly noon
    let offs: Vec<i32> = (-86_399..=86_399).filter(|o| !ctx.quick() || o % 60 == 0 || o % 89 == 0).collect();
    let offs_r = &offs;
    let mut wls = vec![];
    wls.push(Workload::cases("dates", ctx.count(120_000, 4_000_000), |rec, _, rng| {
        let day = match rng.below(8) {
            0 => *rng.pick(&[cal::MIN_DAY, cal::MAX_DAY, cal::MIN_DAY + 1, cal::MAX_DAY - 1, 0, -1, 1, -366, 365]),
            1 => rng.range_i64(-1_000_000, 1_000_000),
            2 => rng.range_i64(-400 * 366, 400 * 366),
            3 => cal::days_from_civil(*rng.pick(&[1i64, -1]) * rng.range_i64(10_000, 5_879_000), rng.below(12) as u32 + 1, rng.below(28) as u32 + 1),
            4 => {
                // leap days in both eras
                let a = rng.range_i64(-3000, 3000) / 4 * 4;
                if cal::is_leap_astro(a) { cal::days_from_civil(a, 2, 29) } else { cal::days_from_civil(a, 2, 28) }
            }
            _ => rng.range_i64(cal::MIN_DAY, cal::MAX_DAY),
        };
        judge_date(rec, day);
    }));
    let stride = ctx.n(11, 1);
    let nsec = (86_400 + stride - 1) / stride;
    wls.push(Workload::cases("times_all_seconds_x_3_offsets", nsec * 3, move |rec, idx, rng| {
        let sec = (idx / 3) * stride;
        let off = match idx % 3 {
            0 => 0,
            1 => super::c09::gen_c09_offset(rng, sec as i128 * NS),
            _ => gen_offset(rng),
        };
        judge_time(rec, sec * 1_000_000_000 + *rng.pick(&[0u64, 0, 1, 999_999_999, 500_000_000]), off);
    }));
    wls.push(Workload::cases("times_local_midnight_per_offset", offs.len() as u64 * 6, move |rec, idx, _| {
        const DN: i128 = 86_400_000_000_000;
        let off = offs_r[(idx / 6) as usize];
        let delta: i128 = [0, 1, -1, 1_000_000_000, -1_000_000_000, 43_200_000_000_000][(idx % 6) as usize];
        let n = (delta - off as i128 * NS).rem_euclid(DN) as u64;
        rec.bin("time/local-midnight-stratum");
        judge_time(rec, n, off);
    }));
    wls.push(Workload::cases("datetimes", ctx.count(150_000, 5_000_000), |rec, idx, rng| {
        let (i, off) = if idx % 3 == 0 {
            gen_fmt_value(rng)
        } else {
            // years 1..=9999, whole-minute offsets
            let off = match rng.below(4) {
                0 => 0,
                1 => *rng.pick(&[1439i32, -1439, 1438, 1430, -1430, 1400, 60, -60, 720]) * 60,
                _ => rng.range_i64(-1439, 1439) as i32 * 60,
            };
            let hi = cal::days_from_civil(9999, 12, 31) as i128 * D + D - 1;
            let local = match rng.below(8) {
                6 | 7 => (crate::model::magic::gen_instant_at(rng, 0, hi) - if rng.chance(1, 2) { rng.range_i128(0, D) } else { 0 } + off as i128 * NS).clamp(0, hi),
                0 => rng.range_i128(0, 2 * D),
                1 => hi - rng.range_i128(0, 2 * D),
                // local reading exactly on a midnight, or the UTC instant exactly on one (± 1 s / 1 ns)
                2 => (rng.range_i128(1, hi / D) * D + *rng.pick(&[0i128, 0, 1, -1, NS, -NS])).clamp(0, hi),
                3 => (rng.range_i128(1, hi / D - 1) * D + off as i128 * NS + *rng.pick(&[0i128, 0, 1, -1, NS, -NS])).clamp(0, hi),
                _ => rng.range_i128(0, hi),
            };
            (local - off as i128 * NS, off)
        };
        judge_datetime(rec, i, off);
    }));
    // one instant shown under several offsets in a row on one thread (and the first again): a "last value" cache in
    // Display / Serialize keyed by == (which ignores the offset) would repeat the first text
    wls.push(Workload::cases("same_instant_under_changing_offsets_in_sequence", ctx.count(30_000, 1_000_000), |rec, _, rng| {
        let hi = cal::days_from_civil(9999, 12, 31) as i128 * D + D - 1;
        let i = rng.range_i128(2 * D, hi - 2 * D);
        let o1 = rng.range_i64(-1439, 1439) as i32 * 60;
        let o2 = if rng.chance(1, 3) { 0 } else { rng.range_i64(-1439, 1439) as i32 * 60 };
        let o3 = gen_offset(rng);
        rec.bin("datetime/same-instant-offset-sequence");
        for o in [o1, o2, o1, o3, 0, o2] {
            judge_datetime(rec, i, o);
        }
        let n = rng.below(86_400_000_000_000);
        for o in [o1, o2, o1, o3, 0, o2] {
            judge_time(rec, n, o);
        }
    }));
    // "FromStr reads … RFC 3339": grammatical timestamps (any fraction length, Z, ±hh:mm incl. -00:00) through
    // str::parse::<DateTime>() and through serde_json — the same value as DateTime::parse_rfc3339 gives, never an error
    wls.push(Workload::cases("fromstr_reads_grammatical_rfc3339", ctx.count(40_000, 1_500_000), |rec, _, rng| {
        rec.eval();
        rec.api("DateTime::from_str / Deserialize on grammatical RFC 3339");
        let st = crate::model::rfc3339::gen_valid(rng);
        let text = st.text();
        rec.bin("datetime/fromstr-grammatical-rfc3339");
        rec.nontrivial(hash_str(&text) ^ 0x2020);
        let js = serde_json::to_string(&text).unwrap();
        let r = trap(|| {
            let a = DateTime::from_str(&text).map_err(|e| e.to_string());
            let b = serde_json::from_str::<DateTime>(&js).map_err(|e| e.to_string());
            let c = DateTime::parse_rfc3339(&text).map_err(|e| e.to_string());
            let same = match (&a, &b, &c) {
                (Ok(x), Ok(y), Ok(z)) => x == z && y == z && x.get_offset() == z.get_offset() && y.get_offset() == z.get_offset() && x.nanos_since(z) == 0,
                _ => false,
            };
            (a.map(|x| x.format_rfc3339(Precision::Nanos)), b.map(|x| x.format_rfc3339(Precision::Nanos)), c.map(|x| x.format_rfc3339(Precision::Nanos)), same)
        });
        match r {
            Err(p) => rec.violation(format!("C20|datetime|FromStr/Deserialize|panic|{},{}", p.class, p.site()), || json!({"text": text, "panic": p.to_json()})),
            Ok((a, b, c, same)) => {
                if a.is_err() || b.is_err() || (c.is_ok() && !same) {
                    rec.violation("C20|datetime|FromStr/Deserialize|does-not-read-grammatical-rfc3339".to_string(), || json!({"text": text, "from_str": format!("{:?}", a), "serde_json": format!("{:?}", b), "parse_rfc3339": format!("{:?}", c)}));
                }
            }
        }
    }));
    wls.push(Workload::cases("malformed_strings", ctx.count(150_000, 4_000_000), |rec, idx, rng| {
        let (kind, base): (Kind, String) = match idx % 3 {
            0 => (Kind::Date, format!("{:04}-{:02}-{:02}", rng.range_i64(1, 9999), rng.range_i64(1, 12), rng.range_i64(1, 28))),
            1 => (Kind::Time, format!("{:02}:{:02}:{:02}", rng.below(24), rng.below(60), rng.below(60))),
            _ => (Kind::DateTime, crate::model::rfc3339::gen_valid(rng).text()),
        };
        let text = mutate(rng, &base);
        judge_malformed(rec, kind, &text);
    }));
    wls.push(Workload::cases("offset_local_under_a_changing_zone", ctx.count(3_000, 30_000), |rec, _, rng| super::localzone::zone_switch_case(rec, rng, "C20")));
    let out = run_workloads(ctx, wls);
    let mut meta = PropMeta::default();
    meta.rule = format!(
        "Dates: range ends, ±10^6 days, ±400 years, 5–7 digit years of both signs, leap days, uniform over all 2^32 days — to_string() vs the documented yyyy/MM/dd, str::parse of the model-written yyyy-MM-dd, serde_json round trip (text and value). Times: every {} second of the day x 3 offsets (0, one that moves the local time across midnight, uniform), and for every offset (quick: whole-minute offsets and every 89th other) the stored times whose local reading is exactly midnight, ±1 ns, ±1 s, and noon — Display, FromStr of HH:mm:ss, serde shows the same HH:mm:ss. DateTimes: Display for all eras/offsets; serde (years 1..=9999, whole-minute offsets) returns the same instant to the second and the same offset. Malformed: delete/insert/replace/truncate mutations (multi-byte, NUL, signs, digits) of well-formed texts through serde_json and FromStr — an error, never a panic. Every case non-trivial; distinct by input hash. One instant (and one time of day) shown under six offsets in a row on one thread; DateTimes at 2^k units from 0001-01-01 / 1970-01-01 with offsets up to ±23:59; Offset::Local under a changing system zone as in C11 (Display). str::parse::<DateTime>() and serde_json on grammatical RFC 3339 texts (any fraction length, Z, ±hh:mm incl. -00:00) must succeed and agree with parse_rfc3339. Display is also read through write!, width/fill/alignment, precision (.0 .3 .7), + and # flags and a wrapper forwarding its Formatter: padding is stripped, the text must stay what to_string() prints (a precision may not cut it short).",
        if ctx.quick() { "11th" } else { "single" }
    );
    meta.required_bins = vec![
        "local-twin/zone-switch-judged",
        "year/negative", "year/negative-5+digits", "year/5+digits", "year/<4digits", "year/4digits", "time/offset0", "time/with-offset", "time/local-midnight-stratum", "datetime/same-instant-offset-sequence", "datetime/fromstr-grammatical-rfc3339",
        "datetime/serde-claimed", "datetime/display-only", "datetime/negative-offset", "malformed/rejected",
    ];
    meta.assumptions = vec!["serde is exercised through serde_json (string serializer/deserializer); fmt_spec supplies the documented default renderings".into()];
    let _ = (DateTime::default(), TimeUtilities::hour(&Time::default()));
    Ok((meta, out))
}
