//! Random API walks on one DateTime value: a history of operations from several families, each step
//! observed through every read-out route (nanos_since, timestamp+nano, all getters, as_ymdhms). Steps
//! of the *judged* family are compared with the model; steps of the other families only move the state
//! (the model is re-synchronised from what the library reports), so a defect in another family's
//! operation does not raise this property's alarm. Catches non-canonical intermediate states and
//! interactions between call sites that single-operation cases cannot see.

use super::c04::{apply_method, METHODS};
use super::c05::OPS as MONTH_OPS;
use super::c09::{apply_dt_clear, apply_dt_setter, model_clear, model_set, DT_CLEARS, DT_SETTERS};
use crate::core::*;
use crate::model::calendar as cal;
use crate::model::instant::*;
use astrolabe::{DateTime, DateUtilities, Offset, OffsetUtilities, Time};
use serde_json::json;
use std::time::Duration;

#[derive(Clone, Copy, PartialEq, Eq, Debug)]
pub enum Family {
    /// add_/sub_ units, ± Duration, ± Time (C04)
    Arithmetic,
    /// add/sub months/years (C05)
    Months,
    /// set_* / clear_until_* (C09)
    SetClear,
    /// set_offset / as_offset (C10)
    Offsets,
}

fn inner(i: i128) -> bool {
    i > MIN_INSTANT + 3 * D && i < MAX_INSTANT - 3 * D
}

pub enum Step {
    /// (description, family, expected (instant, offset) or None when the model makes no claim)
    Op(String, Family, Option<(i128, i32)>, Box<dyn Fn(&DateTime) -> Option<DateTime>>),
}

pub fn gen_step(rng: &mut Rng, i: i128, off: i32) -> Step {
    match rng.below(12) {
        0 | 1 | 2 => {
            let m = rng.below(14) as usize;
            let (name, unit, dir) = METHODS[m];
            let c: u32 = match rng.below(5) {
                0 => rng.below(3) as u32,
                1 => rng.below(100_000) as u32,
                2 => (D / unit).min(u32::MAX as i128) as u32,
                3 => ((1u64 << 31) / (unit as u64).max(1)).min(400_000) as u32,
                _ => rng.below(400) as u32,
            };
            let t = i + dir * unit * c as i128;
            if !inner(t) {
                return gen_step(rng, i, off);
            }
            Step::Op(format!("{}({})", name, c), Family::Arithmetic, Some((t, off)), Box::new(move |d| Some(apply_method(d, m, c))))
        }
        3 => {
            let d = Duration::new(rng.below(400 * 86_400), rng.below(1_000_000_000) as u32);
            let sub = rng.chance(1, 2);
            let amount = d.as_secs() as i128 * NS + d.subsec_nanos() as i128;
            let t = if sub { i - amount } else { i + amount };
            if !inner(t) {
                return gen_step(rng, i, off);
            }
            Step::Op(format!("{} {:?}", if sub { "-" } else { "+" }, d), Family::Arithmetic, Some((t, off)), Box::new(move |x| Some(if sub { *x - d } else { *x + d })))
        }
        4 => {
            let tn = rng.below(86_400_000_000_000);
            let sub = rng.chance(1, 2);
            let t = if sub { i - tn as i128 } else { i + tn as i128 };
            if !inner(t) {
                return gen_step(rng, i, off);
            }
            Step::Op(format!("{} Time({} ns)", if sub { "-" } else { "+" }, tn), Family::Arithmetic, Some((t, off)), Box::new(move |x| {
                let tt = Time::from_nanos(tn).unwrap();
                Some(if sub { *x - tt } else { *x + tt })
            }))
        }
        5 | 6 => {
            let op = rng.below(4) as usize;
            let (name, dir, mult) = MONTH_OPS[op];
            let n = match rng.below(3) {
                0 => rng.below(14) as u32,
                _ => rng.below(3000) as u32,
            };
            // exact claim only where the UTC and the local date coincide; otherwise either reading is fine → no claim
            let day = i.div_euclid(D) as i64;
            let lday = (i + off as i128 * NS).div_euclid(D) as i64;
            let t = cal::shift_months(day, dir * mult * n as i64) as i128 * D + i.rem_euclid(D);
            let claim = if day == lday && inner(t) { Some((t, off)) } else { None };
            if !inner(t) {
                return gen_step(rng, i, off);
            }
            Step::Op(format!("{}({})", name, n), Family::Months, claim, Box::new(move |x| {
                Some(match op {
                    0 => x.add_months(n),
                    1 => x.sub_months(n),
                    2 => x.add_years(n),
                    _ => x.sub_years(n),
                })
            }))
        }
        7 | 8 => {
            let f = rng.below(10) as usize;
            let local = i + off as i128 * NS;
            let fl = fields(local);
            let v: i64 = match f {
                0 => (fl.year + rng.range_i64(-30, 30)).clamp(-5_000_000, 5_000_000),
                1 => rng.range_i64(0, 13),
                2 => rng.range_i64(0, 32),
                3 => rng.range_i64(0, 367),
                4 => rng.range_i64(0, 24),
                5 | 6 => rng.range_i64(0, 60),
                7 => rng.range_i64(0, 1000),
                8 => rng.range_i64(0, 1_000_000),
                _ => rng.range_i64(0, 1_000_000_000),
            };
            let exp = model_set(local, f, v);
            let claim = match exp {
                Ok(l) if inner(l) && inner(l - off as i128 * NS) => Some((l - off as i128 * NS, off)),
                Ok(_) => return gen_step(rng, i, off),
                Err(()) => Some((i, off)), // refused: the value stays what it was
            };
            let refused = exp.is_err();
            Step::Op(format!("{}({}){}", DT_SETTERS[f], v, if refused { " [must be refused]" } else { "" }), Family::SetClear, claim, Box::new(move |x| match apply_dt_setter(x, f, v) {
                Ok(r) => Some(r),
                Err(_) => {
                    if refused {
                        Some(*x)
                    } else {
                        None
                    }
                }
            }))
        }
        9 => {
            let k = rng.below(9) as usize;
            let l = model_clear(i + off as i128 * NS, k);
            let t = l - off as i128 * NS;
            if !inner(t) || !inner(l) || k == 0 {
                return gen_step(rng, i, off);
            }
            Step::Op(DT_CLEARS[k].to_string(), Family::SetClear, Some((t, off)), Box::new(move |x| Some(apply_dt_clear(x, k))))
        }
        10 => {
            let o = gen_offset(rng);
            Step::Op(format!("set_offset({})", o), Family::Offsets, Some((i, o)), Box::new(move |x| Some(x.set_offset(Offset::Fixed(o)))))
        }
        _ => {
            // as_offset is specified for a value read in UTC: strip the offset first
            let o = gen_offset(rng);
            let t = i - o as i128 * NS;
            if !inner(t) {
                return gen_step(rng, i, off);
            }
            Step::Op(format!("set_offset(0).as_offset({})", o), Family::Offsets, Some((t, o)), Box::new(move |x| Some(x.set_offset(Offset::Fixed(0)).as_offset(Offset::Fixed(o)))))
        }
    }
}

/// One walk of 4–14 steps. `judged` = the family whose steps are compared with the model.
pub fn walk(rec: &mut Rec, rng: &mut Rng, prop: &'static str, judged: Family) {
    let (mut i, _) = gen_instant(rng, 400);
    if rng.chance(1, 3) {
        i = super::c09::gen_c09_instant(rng);
    }
    let mut off = gen_offset(rng);
    let mut history: Vec<String> = vec![format!("start {} offset {}", show(i), off)];
    let mut dt = match sane_value(i, off) {
        Some((d, _)) => d,
        None => {
            rec.bin(super::diff::SKIP_START);
            return;
        }
    };
    let steps = 4 + rng.below(11);
    let mut judged_steps = 0;
    for _ in 0..steps {
        let Step::Op(desc, fam, claim, f) = gen_step(rng, i, off);
        history.push(desc.clone());
        let opname: String = desc.split('(').next().unwrap_or("").trim().to_string();
        let opname = if opname.starts_with('+') || opname.starts_with('-') { "operator".to_string() } else { opname };
        let r = trap(|| f(&dt));
        let is_judged = fam == judged && claim.is_some();
        match r {
            Err(p) => {
                if fam == judged {
                    rec.violation(format!("{}|walk|{}|panic|{},{}", prop, opname, p.class, p.site()), || json!({"history": history, "panic": p.to_json()}));
                }
                return;
            }
            Ok(None) => {
                if is_judged {
                    rec.violation(format!("{}|walk|{}|refused-valid", prop, opname), || json!({"history": history}));
                }
                return;
            }
            Ok(Some(nd)) => {
                rec.eval();
                if is_judged {
                    let (ei, eo) = claim.unwrap();
                    match diff_with_expected(&nd, ei, eo) {
                        Ok(Diff::Skip) => {
                            rec.bin(super::diff::SKIP_EXPECTED);
                            return;
                        }
                        Ok(Diff::Same) => {}
                        Ok(Diff::Differs(got, exp)) => {
                            let kind = if got.ns_since != exp.ns_since || got.off != exp.off { "diverges-from-model" } else { "read-outs-disagree" };
                            rec.violation(format!("{}|walk|{}|{}", prop, opname, kind), || {
                                json!({"history": history, "step": desc, "model": {"instant": show(ei), "offset": eo}, "result_reads": got.to_json(), "independently_built_expected_reads": exp.to_json(),
                                       "note": if kind == "read-outs-disagree" { "right instant by nanos_since, but another route reads something else than it does on the canonical value of that instant (non-canonical internal state)" } else { "" }})
                            });
                            return;
                        }
                        Err(p) => {
                            rec.violation(format!("{}|walk|{}|result-unreadable|{},{}", prop, opname, p.class, p.site()), || json!({"history": history, "panic": p.to_json()}));
                            return;
                        }
                    }
                    judged_steps += 1;
                    i = ei;
                    off = eo;
                } else {
                    // a mover (another property's operation): take the state the library reports, but only
                    // go on if that state is canonical, i.e. reads like an independently built value of it
                    let Ok((ni, no)) = trap(|| (read(&nd), offset_secs(&nd))) else { return };
                    let Some(no) = no else { return };
                    if !inner(ni) {
                        return;
                    }
                    match diff_with_expected(&nd, ni, no) {
                        Ok(Diff::Same) => {}
                        _ => {
                            rec.bin("walk/stopped-at-untrustworthy-state(other-property)");
                            return;
                        }
                    }
                    i = ni;
                    off = no;
                }
                dt = nd;
            }
        }
    }
    if judged_steps > 0 {
        rec.bin("walk/with-judged-steps");
        rec.nontrivial(hash_str(&history.join(";")));
    }
    if rec.want_sample() {
        rec.sample(|| json!({"walk": history, "judged_family": format!("{:?}", judged), "judged_steps": judged_steps}));
    }
}

/// The same idea on a `Date`: a chain of add_/sub_days, month/year shifts, setters and clears on one value.  Steps of
/// the judged family are compared with the calendar model (through an independently built Date of the expected day);
/// steps of other families only move the state.
pub fn walk_date(rec: &mut Rec, rng: &mut Rng, prop: &'static str, judged: Family) {
    use super::diff::{diff_date, sane_date, DateDiff};
    use astrolabe::Date;
    let mut day: i64 = match rng.below(4) {
        0 => rng.range_i64(-1500, 1500),
        1 => {
            let a = rng.range_i64(1890, 2110);
            let m = rng.below(12) as u32 + 1;
            cal::days_from_civil(a, m, cal::month_len(a, m)) - rng.below(3) as i64
        }
        2 => cal::days_from_civil(*rng.pick(&[-400i64, -100, -4, 0, 4, 1900, 2000, 2024, 2100]), 2, 28) + rng.below(3) as i64,
        _ => rng.range_i64(cal::MIN_DAY + 2000, cal::MAX_DAY - 2000),
    };
    let Some(mut d) = sane_date(day) else {
        rec.bin(super::diff::SKIP_START);
        return;
    };
    let s0 = cal::ymd(day);
    let mut history: Vec<String> = vec![format!("start {}-{:02}-{:02}", s0.0, s0.1, s0.2)];
    let inner_day = |x: i64| x > cal::MIN_DAY + 1000 && x < cal::MAX_DAY - 1000;
    let steps = 4 + rng.below(9);
    let mut judged_steps = 0;
    for _ in 0..steps {
        // (description, family, expected day or None = must be refused, operation)
        let (desc, fam, exp, op): (String, Family, Option<i64>, Box<dyn Fn(&Date) -> Option<Date>>) = match rng.below(8) {
            0 | 1 => {
                let c = match rng.below(3) {
                    0 => rng.below(40) as u32,
                    1 => rng.below(100_000) as u32,
                    _ => rng.below(400) as u32,
                };
                let sub = rng.chance(1, 2);
                let t = if sub { day - c as i64 } else { day + c as i64 };
                (format!("{}({})", if sub { "sub_days" } else { "add_days" }, c), Family::Arithmetic, Some(t), Box::new(move |x: &Date| Some(if sub { x.sub_days(c) } else { x.add_days(c) })))
            }
            2 | 3 => {
                let opi = rng.below(4) as usize;
                let (name, dir, mult) = MONTH_OPS[opi];
                let n = if rng.chance(2, 3) { rng.below(30) as u32 } else { rng.below(4000) as u32 };
                let t = cal::shift_months(day, dir * mult * n as i64);
                (format!("{}({})", name, n), Family::Months, Some(t), Box::new(move |x: &Date| {
                    Some(match opi {
                        0 => x.add_months(n),
                        1 => x.sub_months(n),
                        2 => x.add_years(n),
                        _ => x.sub_years(n),
                    })
                }))
            }
            4 | 5 | 6 => {
                let f = rng.below(4) as usize;
                let fl = fields(day as i128 * D);
                let v: i64 = match f {
                    0 => (fl.year + rng.range_i64(-40, 40)).clamp(-5_000_000, 5_000_000),
                    1 => rng.range_i64(0, 13),
                    2 => rng.range_i64(0, 32),
                    _ => rng.range_i64(0, 367),
                };
                let exp = model_set(day as i128 * D, f, v).ok().map(|l| l.div_euclid(D) as i64);
                (format!("{}({}){}", DT_SETTERS[f], v, if exp.is_none() { " [must be refused]" } else { "" }), Family::SetClear, exp, Box::new(move |x: &Date| match f {
                    0 => x.set_year(v as i32).ok(),
                    1 => x.set_month(v as u32).ok(),
                    2 => x.set_day(v as u32).ok(),
                    _ => x.set_day_of_year(v as u32).ok(),
                }))
            }
            _ => {
                let k = 1 + rng.below(2) as usize;
                let t = model_clear(day as i128 * D, k).div_euclid(D) as i64;
                (DT_CLEARS[k].to_string(), Family::SetClear, Some(t), Box::new(move |x: &Date| Some(if k == 1 { x.clear_until_month() } else { x.clear_until_day() })))
            }
        };
        if let Some(t) = exp {
            if !inner_day(t) {
                continue;
            }
        }
        history.push(desc.clone());
        let opname: String = desc.split('(').next().unwrap_or("").trim().to_string();
        let r = trap(|| op(&d));
        rec.eval();
        match (r, exp) {
            (Err(p), _) => {
                if fam == judged {
                    rec.violation(format!("{}|date-walk|{}|panic|{},{}", prop, opname, p.class, p.site()), || json!({"history": history, "panic": p.to_json()}));
                }
                return;
            }
            (Ok(None), None) => {} // refused as the model demands: the value stays
            (Ok(None), Some(_)) => {
                if fam == judged {
                    rec.violation(format!("{}|date-walk|{}|refused-valid", prop, opname), || json!({"history": history}));
                }
                return;
            }
            (Ok(Some(nd)), None) => {
                if fam == judged {
                    rec.violation(format!("{}|date-walk|{}|accepted-invalid", prop, opname), || json!({"history": history, "result": trap(|| super::diff::date_reads(&nd)).unwrap_or_default()}));
                }
                return;
            }
            (Ok(Some(nd)), Some(t)) => {
                if fam == judged {
                    match diff_date(&nd, t) {
                        Ok(DateDiff::Same) => judged_steps += 1,
                        Ok(DateDiff::Skip) => {
                            rec.bin(super::diff::SKIP_EXPECTED);
                            return;
                        }
                        Ok(DateDiff::Differs(g, e)) => {
                            rec.violation(format!("{}|date-walk|{}|diverges-from-model", prop, opname), || json!({"history": history, "step": desc, "result_reads": g, "independently_built_expected_reads": e}));
                            return;
                        }
                        Err(p) => {
                            rec.violation(format!("{}|date-walk|{}|result-unreadable|{},{}", prop, opname, p.class, p.site()), || json!({"history": history, "panic": p.to_json()}));
                            return;
                        }
                    }
                    day = t;
                    d = nd;
                } else {
                    // a mover: take what the library reports, go on only if it reads like a canonical Date of that day
                    let Ok(ts) = trap(|| nd.timestamp()) else { return };
                    let nday = ts.div_euclid(86_400) + cal::DAYS_TO_1970;
                    if !inner_day(nday) || !matches!(diff_date(&nd, nday), Ok(DateDiff::Same)) {
                        rec.bin("walk/stopped-at-untrustworthy-state(other-property)");
                        return;
                    }
                    day = nday;
                    d = nd;
                }
            }
        }
    }
    if judged_steps > 0 {
        rec.bin("date-walk/with-judged-steps");
    }
    rec.nontrivial(hash_str(&history.join(";")));
    if rec.want_sample() {
        rec.sample(|| json!({"history": history, "final_day": day}));
    }
}
