//! Shared generator of instant pairs for C03 / C06 (deliberately rich in pairs whose sub-unit
//! remainders are ordered opposite to their totals and pairs on either side of 0001-01-01).
use crate::core::Rng;
use crate::model::instant::*;

pub struct Pair {
    pub i: i128,
    pub j: i128,
    pub o1: i32,
    pub o2: i32,
    pub class: &'static str,
}

pub const UNITS: [(&str, i128); 7] = [
    ("nanos", 1),
    ("micros", 1_000),
    ("millis", 1_000_000),
    ("seconds", NS),
    ("minutes", 60 * NS),
    ("hours", 3_600 * NS),
    ("days", D),
];

pub fn gen_pair(rng: &mut Rng) -> Pair {
    // one-day margin at both ends so that every offset can be attached
    let (i, _) = gen_instant(rng, 2);
    let lo = MIN_INSTANT + 2 * D;
    let hi = MAX_INSTANT - 2 * D;
    let sign: i128 = if rng.chance(1, 2) { 1 } else { -1 };
    let delta: i128 = match rng.below(12) {
        0 => 0,
        1 => sign,
        2 => sign * rng.range_i128(1, NS - 1),
        3 | 4 | 5 => {
            // k units ± a little: the borrow cases
            let (_, u) = UNITS[rng.below(7) as usize];
            let k = match rng.below(4) {
                0 => 1,
                1 => rng.range_i128(1, 100),
                2 => rng.range_i128(1, 100_000),
                _ => rng.range_i128(1, 3),
            };
            sign * (k * u + *rng.pick(&[-1i128, 0, 1, -2, 2])) + if rng.chance(1, 4) { rng.range_i128(-u + 1, u - 1) } else { 0 }
        }
        6 => sign * rng.range_i128(1, 400) * D + rng.range_i128(-D + 1, D - 1),
        7 => sign * rng.range_i128(1, 1 << 62),
        8 => sign * rng.range_i128(1, D - 1),
        9 | 10 => crate::model::magic::gen_delta(rng),
        _ => rng.range_i128(lo, hi) - i,
    };
    let mut i = i;
    let mut j = (i + delta).clamp(lo, hi);
    let mut alias: Option<&'static str> = None;
    if rng.chance(1, 8) {
        // representation relatives (see magic::alias_relative): pairs a folded key / a bit trick would confuse
        if let Some((i2, j2, tag)) = crate::model::magic::alias_relative(rng, i, lo, hi) {
            i = i2;
            j = j2;
            alias = Some(tag);
        }
    }
    let o1 = gen_offset_any(rng);
    let o2 = if rng.chance(1, 4) { o1 } else { gen_offset_any(rng) };
    let wild = o1.unsigned_abs() > 86_399 || o2.unsigned_abs() > 86_399;
    let (i, j) = if wild { (i.clamp(MIN_INSTANT + 30_000 * D, MAX_INSTANT - 30_000 * D), j.clamp(MIN_INSTANT + 30_000 * D, MAX_INSTANT - 30_000 * D)) } else { (i, j) };
    let class = if let Some(t) = alias {
        t
    } else if i == j {
        "pair/equal-instant"
    } else if (i < 0) != (j < 0) {
        "pair/straddles-0001-01-01"
    } else if (i - j).abs() < NS {
        "pair/sub-second"
    } else if i.div_euclid(D) == j.div_euclid(D) {
        "pair/same-day"
    } else if (i.div_euclid(D) - j.div_euclid(D)).abs() == 1 && (i - j).abs() < D {
        "pair/straddles-midnight-within-24h"
    } else {
        "pair/far"
    };
    Pair { i, j, o1, o2, class }
}
