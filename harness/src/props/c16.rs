//! C16 — a cron expression denotes exactly the documented value sets per field.
//! The denoted sets are observed behaviourally: with the clock pinned one minute before `t`, a fresh
//! clone's `next()` returns `t` iff `t` belongs to the schedule.

use super::PropResult;
use crate::core::*;
use crate::model::calendar as cal;
use crate::model::cron_spec::{self, Sets, Spec};
use crate::model::instant::*;
use astrolabe::errors::AstrolabeError;
use astrolabe::{CronSchedule, DateTime};
use serde_json::{json, Value};

const MIN_NS: i128 = 60 * NS;
const HORIZON: i64 = 40 * 366;

/// Does `next()` of a fresh clone, with the clock at `t − 1 min`, return exactly minute `t`?
/// Ok(None) = the clock value or the result cannot be built/read trustworthily here (skipped).
pub fn observe_member(s: &CronSchedule, t: i64) -> Result<Option<bool>, Panic> {
    let Some((clk, _)) = sane_value((t - 1) as i128 * MIN_NS, 0) else { return Ok(None) };
    trap(|| {
        astrolabe::verif::pin_now(Some(clk));
        // the first result, pulled through next() or through one of the Iterator methods a type may override
        let mut c = s.clone();
        let r = match t.rem_euclid(5) {
            0 => c.nth(0),
            1 => c.by_ref().take(1).last(),
            2 => c.by_ref().skip(0).next(),
            _ => c.next(),
        };
        astrolabe::verif::pin_now(None);
        match r {
            Some(dt) => super::diff::read_checked(&dt).map(|x| x == t as i128 * MIN_NS),
            None => Some(false),
        }
    })
}

const MONTH_NAMES: [&str; 12] = ["jan", "feb", "mar", "apr", "may", "jun", "jul", "aug", "sep", "oct", "nov", "dec"];
const DOW_NAMES: [&str; 7] = ["sun", "mon", "tue", "wed", "thu", "fri", "sat"];

fn random_case(rng: &mut Rng, s: &str) -> String {
    s.chars().map(|c| if rng.chance(1, 2) { c.to_ascii_uppercase() } else { c }).collect()
}

/// Sunday as 7 — sometimes zero-padded
fn seven(rng: &mut Rng) -> String {
    match rng.below(8) {
        0 => "07".to_string(),
        1 => "007".to_string(),
        _ => "7".to_string(),
    }
}

fn value_text(rng: &mut Rng, v: u32, field: usize) -> String {
    match field {
        3 if rng.chance(1, 2) => random_case(rng, MONTH_NAMES[v as usize - 1]),
        4 if rng.chance(1, 2) => random_case(rng, DOW_NAMES[(v % 7) as usize]),
        // sometimes zero-padded (05, 007): acceptance unspecified, the denoted value is not
        _ if rng.chance(1, 10) => format!("{:0w$}", v, w = 2 + rng.below(2) as usize),
        _ => v.to_string(),
    }
}

/// One field from the documented grammar: a list of 1–4 items.
pub fn gen_field(rng: &mut Rng, field: usize) -> String {
    let (min, max): (u32, u32) = [(0, 59), (0, 23), (1, 31), (1, 12), (0, 7)][field];
    let n = match rng.below(6) {
        0 | 1 | 2 => 1,
        3 => 2,
        4 => 3,
        _ => 4,
    };
    let mut items = vec![];
    for _ in 0..n {
        let it = match rng.below(10) {
            0 | 1 => "*".to_string(),
            2 | 3 => {
                let size = if field == 4 { 7 } else { max - min + 1 };
                format!("*/{}", 1 + rng.below(size as u64))
            }
            4 | 5 | 6 => {
                let a = min + rng.below((max - min + 1) as u64) as u32;
                let b = a + rng.below((max - a + 1) as u64) as u32;
                // a name for the start only when it denotes the same number (7 has no name distinct from 0)
                let at = if field == 4 && a == 7 { seven(rng) } else { value_text(rng, a, field) };
                let bt = if field == 4 && b == 7 { seven(rng) } else if field == 4 && b == 0 && a == 0 { value_text(rng, 0, field) } else { value_text(rng, b, field) };
                format!("{}-{}", at, bt)
            }
            _ => {
                let v = min + rng.below((max - min + 1) as u64) as u32;
                if field == 4 && v == 7 { seven(rng) } else { value_text(rng, v, field) }
            }
        };
        items.push(it);
    }
    items.join(",")
}

pub fn gen_expression(rng: &mut Rng) -> String {
    let sep = |rng: &mut Rng| match rng.below(8) {
        0 => "  ",
        1 => "\t",
        _ => " ",
    };
    let mut e = String::new();
    if rng.chance(1, 10) {
        e.push(' ');
    }
    for f in 0..5 {
        // keep most expressions satisfiable and quick to iterate: restrict few fields at once
        let text = if rng.chance(1, 2) && f != (rng.below(5) as usize) { "*".to_string() } else { gen_field(rng, f) };
        e.push_str(&text);
        if f < 4 {
            e.push_str(sep(rng));
        }
    }
    if rng.chance(1, 10) {
        e.push(' ');
    }
    e
}

fn field_shape(expr: &str, field: usize) -> String {
    let f = expr.split_whitespace().nth(field).unwrap_or("");
    let mut tags: Vec<&str> = vec![];
    if f.contains(',') {
        tags.push("list");
    }
    if f.contains("*/") {
        tags.push("step");
    } else if f.contains('*') {
        tags.push("star");
    }
    if f.contains('-') {
        tags.push("range");
    }
    if f.chars().any(|c| c.is_ascii_alphabetic()) {
        tags.push("name");
    }
    if field == 4 && f.split(',').any(|it| it.ends_with("-7")) {
        tags.push("range-ending-in-7");
    } else if field == 4 && f.split(',').any(|it| it == "7") {
        tags.push("7");
    }
    if tags.is_empty() {
        tags.push("single");
    }
    tags.join("+")
}

fn first_true(v: &[bool]) -> Option<usize> {
    v.iter().position(|b| *b)
}

/// A day ≥ `from` satisfying `pred`, within the horizon.
fn find_day(from: i64, pred: impl Fn(i64) -> bool) -> Option<i64> {
    (from..from + HORIZON).find(|d| pred(*d))
}

const FIELD_NAMES: [&str; 5] = ["minute", "hour", "day-of-month", "month", "day-of-week"];

/// Membership queries for one accepted expression. Returns number of queries made.
fn query_sets(rec: &mut Rec, expr: &str, sched: &CronSchedule, sets: &Sets, rng: &mut Rng, thin: u64) -> u64 {
    let base = cal::days_from_civil(2024, 1, 1) + rng.below(3000) as i64;
    if !sets.satisfiable_from(base, HORIZON) {
        rec.bin("sets/unsatisfiable-skipped");
        return 0;
    }
    let d0 = match find_day(base, |d| sets.day_matches(d)) {
        Some(d) => d,
        None => return 0,
    };
    let h0 = first_true(&sets.hours).unwrap() as i64;
    let m0 = first_true(&sets.minutes).unwrap() as i64;
    let mut queries: Vec<(usize, u32, i64)> = vec![];
    for v in 0..60u32 {
        queries.push((0, v, d0 * 1440 + h0 * 60 + v as i64));
    }
    for v in 0..24u32 {
        queries.push((1, v, d0 * 1440 + v as i64 * 60 + m0));
    }
    let dom_r = sets.dom_restricted();
    let dow_r = sets.dow_restricted();
    for v in 1..=31u32 {
        // a day with this day of month, an allowed month, and (when the weekday field is restricted) a weekday outside it
        if let Some(d) = find_day(base, |d| {
            let (_, m, dd) = cal::civil_from_days(d);
            dd == v && sets.months[m as usize] && (!dow_r || !sets.dow[cal::weekday_sun0(d) as usize])
        }) {
            queries.push((2, v, d * 1440 + h0 * 60 + m0));
        }
    }
    for v in 1..=12u32 {
        if let Some(d) = find_day(base, |d| {
            let (_, m, dd) = cal::civil_from_days(d);
            let wd = cal::weekday_sun0(d) as usize;
            let day_ok = match (dom_r, dow_r) {
                (true, true) => sets.dom[dd as usize] || sets.dow[wd],
                (true, false) => sets.dom[dd as usize],
                (false, true) => sets.dow[wd],
                _ => true,
            };
            m == v && day_ok
        }) {
            queries.push((3, v, d * 1440 + h0 * 60 + m0));
        }
    }
    for v in 0..7u32 {
        if let Some(d) = find_day(base, |d| {
            let (_, m, dd) = cal::civil_from_days(d);
            cal::weekday_sun0(d) == v && sets.months[m as usize] && (!dom_r || !sets.dom[dd as usize])
        }) {
            queries.push((4, v, d * 1440 + h0 * 60 + m0));
        }
    }
    let mut n = 0;
    for (k, (field, v, t)) in queries.iter().enumerate() {
        if thin > 1 && (k as u64 + rng.below(thin)) % thin != 0 {
            continue;
        }
        n += 1;
        judge_member(rec, expr, sched, sets, *t, Some((*field, *v)));
    }
    for _ in 0..(64 / thin.max(1)).max(4) {
        let t = (cal::days_from_civil(2024, 1, 1) + rng.below(3660) as i64) * 1440 + rng.below(1440) as i64;
        n += 1;
        judge_member(rec, expr, sched, sets, t, None);
    }
    n
}

/// Second observation route (the one the property's anchors name): the set of minutes the iterator
/// yields over a window, from one schedule object under a fixed clock, compared with the model's
/// enumeration of the denoted set over the same window.
fn window_iteration(rec: &mut Rec, expr: &str, sched: &CronSchedule, sets: &Sets, rng: &mut Rng) {
    let a = rng.range_i64(1990, 2090);
    let start_day = match rng.below(4) {
        0 => cal::days_from_civil(a, 2, 1) + rng.below(28) as i64,
        1 => cal::days_from_civil(a, 12, 20) + rng.below(14) as i64,
        _ => cal::days_from_civil(a, 1, 1) + rng.below(365) as i64,
    };
    if !sets.satisfiable_from(start_day, HORIZON) {
        return;
    }
    let start = start_day * 1440 + rng.below(1440) as i64;
    let n = 24;
    let mut expected = vec![];
    let mut t = start;
    for _ in 0..n {
        match sets.next_after(t, HORIZON) {
            Some(x) => {
                expected.push(x);
                t = x;
            }
            None => break,
        }
    }
    if expected.len() < n {
        return;
    }
    rec.eval();
    rec.api("CronSchedule::next (window iteration)");
    rec.bin("sets/window-iterated");
    let mode = rng.below(8);
    let skip = 1 + rng.below(6) as usize;
    let positions: Vec<usize> = match mode {
        3 | 4 => (skip..n).collect(),
        5 => (0..n / 2).map(|k| 2 * k).collect(),
        _ => (0..n).collect(),
    };
    rec.bin(match mode { 1 => "pull/take", 2 => "pull/nth(0)", 3 => "pull/nth(k)-then-next", 4 => "pull/skip-take", 5 => "pull/step_by", 6 => "pull/for-loop", _ => "pull/next" });
    let Some((clk, _)) = sane_value(start as i128 * MIN_NS, 0) else {
        rec.bin(super::diff::SKIP_START);
        return;
    };
    let r = trap(|| {
        astrolabe::verif::pin_now(Some(clk));
        let mut s = sched.clone();
        // Some(None) = iterator ended; None = a result that cannot be read trustworthily
        let rd = |x: Option<DateTime>| match x {
            Some(d) => super::diff::read_checked(&d).map(Some),
            None => Some(None),
        };
        // the n results are pulled with next(), or through the Iterator methods a type may override (nth, skip, take,
        // step_by, for-loops over by_ref); `positions` are the indices of the model's sequence each pull must equal
        let got: Option<Vec<Option<i128>>> = match mode {
            1 => s.by_ref().take(n).map(|d| rd(Some(d))).collect(),
            2 => (0..n).map(|_| rd(s.nth(0))).collect(),
            3 => std::iter::once(rd(s.nth(skip))).chain((skip + 1..n).map(|_| rd(s.next()))).collect(),
            4 => s.by_ref().skip(skip).take(n - skip).map(|d| rd(Some(d))).collect(),
            5 => s.by_ref().step_by(2).take(n / 2).map(|d| rd(Some(d))).collect(),
            6 => {
                let mut v = vec![];
                for d in s.by_ref() {
                    v.push(rd(Some(d)));
                    if v.len() == n {
                        break;
                    }
                }
                v.into_iter().collect()
            }
            _ => (0..n).map(|_| rd(s.next())).collect(),
        };
        astrolabe::verif::pin_now(None);
        got
    });
    let expected: Vec<i64> = positions.iter().map(|k| expected[*k]).collect();
    let wit = |obs: Value| json!({"expression": expr, "clock_fixed_at": show(start as i128 * MIN_NS), "model_yields": expected.iter().take(8).map(|x| show(*x as i128 * MIN_NS)).collect::<Vec<_>>(), "observed": obs});
    match r {
        Err(p) => rec.violation(format!("C16|window|next|panic|{},{}", p.class, p.site()), || wit(p.to_json())),
        Ok(None) => rec.bin(super::diff::SKIP_EXPECTED),
        Ok(Some(got)) => {
            for (k, (g, e)) in got.iter().zip(expected.iter()).enumerate() {
                if *g != Some(*e as i128 * MIN_NS) {
                    let kind = match g {
                        Some(x) if *x > *e as i128 * MIN_NS => "member-minute-not-yielded",
                        Some(_) => "non-member-minute-yielded",
                        None => "iterator-ended",
                    };
                    let dom_shape = field_shape(expr, 2);
                    let dow_shape = field_shape(expr, 4);
                    rec.violation(format!("C16|window|{}|dom:{},dow:{}", kind, dom_shape, dow_shape), || wit(json!({"position": k, "yielded": g.map(show), "model": show(*e as i128 * MIN_NS)})));
                    break;
                }
            }
        }
    }
}

fn judge_member(rec: &mut Rec, expr: &str, sched: &CronSchedule, sets: &Sets, t: i64, probe: Option<(usize, u32)>) {
    rec.eval();
    rec.api("CronSchedule::next (membership query)");
    let exp = sets.matches(t);
    rec.bin(if exp { "member/expected-yes" } else { "member/expected-no" });
    let wit = |obs: Value| json!({"expression": expr, "minute_queried": show(t as i128 * MIN_NS), "probing": probe.map(|(f, v)| format!("{}={}", FIELD_NAMES[f], v)), "model_says_member": exp, "observed": obs});
    match observe_member(sched, t) {
        Err(p) => rec.violation(format!("C16|sets|next|panic|{},{}", p.class, p.site()), || wit(p.to_json())),
        Ok(None) => rec.bin(super::diff::SKIP_EXPECTED),
        Ok(Some(got)) => {
            if got != exp {
                let (fname, shape) = match probe {
                    Some((f, _)) => (FIELD_NAMES[f], field_shape(expr, f)),
                    None => ("random-minute", "-".to_string()),
                };
                rec.violation(format!("C16|sets|{}|{}|{}", fname, if exp { "member-but-not-yielded" } else { "not-member-but-yielded" }, shape), || wit(json!({"next()==queried_minute": got})));
            }
        }
    }
}

fn judge_expression(rec: &mut Rec, expr: &str, rng: &mut Rng, origin: &'static str, query: bool, thin: u64) {
    rec.eval();
    rec.api("CronSchedule::parse");
    let spec = cron_spec::parse(expr);
    rec.nontrivial(hash_str(expr));
    let r = trap(|| CronSchedule::parse(expr));
    let wit = |obs: Value| json!({"expression": expr, "origin": origin, "model": match &spec { Spec::Accept(_) => "accept".to_string(), Spec::Reject(w) => format!("reject: {}", w), Spec::Unspecified(w) => format!("unspecified: {}", w) }, "observed": obs});
    match (&spec, r) {
        (_, Err(p)) => rec.violation(format!("C16|parse|panic|{},{}", p.class, p.site()), || wit(p.to_json())),
        (Spec::Unspecified("leading zero"), Ok(Ok(s))) => {
            // acceptance of zero-padded numbers is unspecified; what an accepted one denotes is not
            match cron_spec::parse_lenient(expr) {
                Spec::Accept(sets) if query => {
                    rec.bin("parse/leading-zero-accepted:sets-judged");
                    query_sets(rec, expr, &s, &sets, rng, thin);
                    window_iteration(rec, expr, &s, &sets, rng);
                }
                _ => rec.bin("parse/unspecified-shape-skipped"),
            }
        }
        (Spec::Unspecified(_), _) => rec.bin("parse/unspecified-shape-skipped"),
        (Spec::Accept(sets), Ok(Ok(s))) => {
            rec.bin("parse/accept-accept");
            if query {
                let n = query_sets(rec, expr, &s, sets, rng, thin);
                if n > 0 {
                    rec.bin("sets/queried");
                }
                window_iteration(rec, expr, &s, sets, rng);
            }
        }
        (Spec::Accept(_), Ok(Err(e))) => {
            let shape: Vec<String> = (0..5).map(|f| field_shape(expr, f)).collect();
            let culprit = shape.iter().enumerate().filter(|(_, s)| s.as_str() != "star").map(|(f, s)| format!("{}:{}", FIELD_NAMES[f], s)).last().unwrap_or_default();
            rec.violation(format!("C16|parse|rejected-documented-expression|{}", culprit), || wit(json!({"error": e.to_string()})));
        }
        (Spec::Reject(why), Ok(Ok(_))) => {
            rec.violation(format!("C16|parse|accepted-invalid-expression|{}", why), || wit(json!("Ok")));
        }
        (Spec::Reject(_), Ok(Err(e))) => {
            rec.bin("parse/reject-reject");
            if !matches!(e, AstrolabeError::InvalidFormat(_)) {
                rec.violation("C16|parse|wrong-error-kind".to_string(), || wit(json!(format!("{:?}", e))));
            }
        }
    }
    if rec.want_sample() {
        rec.sample(|| wit(json!("(see verdict)")));
    }
}

// (the last four: characters whose Unicode upper/lower-casing lands on an ASCII letter — long s, dotless i, Kelvin
// sign, dotted capital I — which a name matcher built on to_uppercase()/to_lowercase() takes for s, i, k)
const EDIT_ALPHABET: &str = "0123456789*,-/+ abcdefghijklmnopqrstuvwxyzé7\u{17f}\u{131}\u{212a}\u{130}";

pub const BASE: [&str; 16] = [
    "* * * * *",
    "*/5 * * * *",
    "0 10 * * Mon-Fri",
    "0,30 0-23 1,15 jan-dec sun",
    "59 23 31 12 7",
    "1-5 */3 */31 DEC 0-6",
    "0 0 29 feb *",
    "*/59 */23 1-31 1-12 0-7",
    "5 4 * * sun",
    "15,45 8-18 * * 1-5",
    "0 0 1 1 5-7",
    "0 12 10-20 mar,jun sat,sun",
    "30 6 */2 */3 */2",
    "0 0 * * tue-7",
    "*,5 3,* 1,*,15 *,6 *,mon",
    "0 0 7-31 * 7-7",
];

/// All single-character edits of `s`: (edited string) for index k in 0..count
fn edit_count(s: &str) -> u64 {
    let l = s.chars().count() as u64;
    let a = EDIT_ALPHABET.chars().count() as u64;
    l + l * a + (l + 1) * a
}

fn nth_edit(s: &str, k: u64) -> String {
    let cs: Vec<char> = s.chars().collect();
    let al: Vec<char> = EDIT_ALPHABET.chars().collect();
    let l = cs.len() as u64;
    let a = al.len() as u64;
    let mut out = cs.clone();
    if k < l {
        out.remove(k as usize);
    } else if k < l + l * a {
        let k = k - l;
        out[(k / a) as usize] = al[(k % a) as usize];
    } else {
        let k = k - l - l * a;
        out.insert((k / a) as usize, al[(k % a) as usize]);
    }
    out.into_iter().collect()
}

pub fn run(ctx: &Ctx) -> PropResult {
    // all single-character edits of the base expressions (thorough: also of generated ones)
    let mut bases: Vec<String> = BASE.iter().map(|s| s.to_string()).collect();
    if !ctx.quick() {
        let mut rng = Rng::new(ctx.seed ^ hash_str("C16-bases"));
        for _ in 0..400 {
            bases.push(gen_expression(&mut rng));
        }
    }
    let mut offsets: Vec<u64> = vec![0];
    for b in bases.iter() {
        offsets.push(offsets.last().unwrap() + edit_count(b));
    }
    let total = *offsets.last().unwrap();
    let mut wls = vec![];
    wls.push(Workload::cases("grammar_generated_expressions", ctx.count(6_000, 300_000), |rec, _, rng| {
        let e = gen_expression(rng);
        judge_expression(rec, &e, rng, "grammar", true, 1);
    }));
    // every value / every range end / every step, one field at a time
    wls.push(Workload::cases("every_value_range_and_step", 5 * 64, |rec, idx, rng| {
        let field = (idx % 5) as usize;
        let k = (idx / 5) as u32;
        let (min, max): (u32, u32) = [(0, 59), (0, 23), (1, 31), (1, 12), (0, 7)][field];
        let make = |item: String| {
            let mut f = vec!["*".to_string(); 5];
            f[field] = item;
            f.join(" ")
        };
        if min + k <= max {
            let v = min + k;
            judge_expression(rec, &make(v.to_string()), rng, "every-value", true, 2);
            judge_expression(rec, &make(format!("{}-{}", min, v)), rng, "every-range-end", true, 2);
            judge_expression(rec, &make(format!("{}-{}", v, max)), rng, "every-range-start", true, 2);
            let size = if field == 4 { 7 } else { max - min + 1 };
            if k >= 1 && k <= size {
                judge_expression(rec, &make(format!("*/{}", k)), rng, "every-step", true, 2);
            }
            if field == 3 {
                judge_expression(rec, &make(random_case(rng, MONTH_NAMES[v as usize - 1])), rng, "every-name", true, 2);
            }
            if field == 4 && v < 7 {
                judge_expression(rec, &make(random_case(rng, DOW_NAMES[v as usize])), rng, "every-name", true, 2);
            }
        }
    }));
    let (br, or) = (&bases, &offsets);
    wls.push(Workload::cases("all_single_character_edits", total, move |rec, idx, rng| {
        let bi = or.partition_point(|o| *o <= idx) - 1;
        let e = nth_edit(&br[bi], idx - or[bi]);
        // observe the denoted sets of a sample of the edits that are still accepted
        judge_expression(rec, &e, rng, "single-edit", idx % 5 == 0, 6);
    }));
    if !ctx.quick() {
        // ALL double edits of the four shortest base expressions (thorough): second edit applied to every
        // single-edited string
        let short: Vec<&str> = vec![BASE[0], BASE[1], BASE[8], BASE[9]];
        let mut off2: Vec<u64> = vec![0];
        for b in short.iter() {
            off2.push(off2.last().unwrap() + edit_count(b));
        }
        let total2 = *off2.last().unwrap();
        wls.push(Workload::cases("all_double_character_edits", total2, move |rec, idx, rng| {
            let bi = off2.partition_point(|o| *o <= idx) - 1;
            let e1 = nth_edit(short[bi], idx - off2[bi]);
            let n2 = edit_count(&e1);
            for k in 0..n2 {
                let e2 = nth_edit(&e1, k);
                judge_expression(rec, &e2, rng, "double-edit", false, 6);
            }
        }));
    }
    // EVERY Unicode scalar value in place of each syntax character of a base expression (the range hyphen, the step
    // slash, the list comma, the star, a field separator, a digit, a letter of a name): whatever it looks like — en dash,
    // fullwidth comma, fraction slash, Arabic-Indic digit — it is the character itself, white space, or a stray character
    const SWEEP_BASE: &str = "1-5 */3 1,15 jan-mar mon";
    const SWEEP_POS: [usize; 9] = [1, 3, 4, 5, 6, 9, 13, 16, 7];
    wls.push(Workload::chunks("every_code_point_in_place_of_a_syntax_character", 0x11_0000, 1 << 12, |rec, r| {
        let base: Vec<char> = SWEEP_BASE.chars().collect();
        let mut n = 0u64;
        for cp in r {
            let Some(c) = char::from_u32(cp as u32) else { continue };
            // which non-ASCII characters count as white space between fields is not settled by the documentation
            if c.is_whitespace() && !c.is_ascii() {
                continue;
            }
            for pos in SWEEP_POS {
                if base[pos] == c {
                    continue;
                }
                let mut e = base.clone();
                e[pos] = c;
                let expr: String = e.into_iter().collect();
                n += 1;
                let spec = cron_spec::parse(&expr);
                let got = trap(|| CronSchedule::parse(&expr).is_ok());
                let agree = match (&spec, &got) {
                    (Spec::Accept(_), Ok(true)) | (Spec::Reject(_), Ok(false)) | (Spec::Unspecified(_), Ok(_)) => true,
                    _ => false,
                };
                if !agree {
                    rec.cur_idx = cp;
                    let mut rng = Rng::new(cp);
                    judge_expression(rec, &expr, &mut rng, "code-point-sweep", false, 1);
                }
            }
        }
        rec.evals(n);
        rec.api_n("CronSchedule::parse", n);
        rec.nontrivial_counted(n);
        *rec.bins.entry("sweep/every-code-point").or_insert(0) += n;
    }));
    wls.push(Workload::cases("one_invalid_item_in_a_valid_expression", ctx.count(30_000, 1_500_000), |rec, _, rng| {
        // a grammar-generated (valid) expression in which one list item — at a random position, also
        // after a `*` — is replaced by an item the documented grammar excludes
        let e = gen_expression(rng);
        let mut fields: Vec<String> = e.split_whitespace().map(|s| s.to_string()).collect();
        if fields.len() != 5 {
            return;
        }
        let f = rng.below(5) as usize;
        let (min, max): (u32, u32) = [(0, 59), (0, 23), (1, 31), (1, 12), (0, 7)][f];
        let bad: String = match rng.below(9) {
            0 => (max + 1 + rng.below(3) as u32).to_string(),
            1 => if min > 0 { "0".to_string() } else { "60".to_string() },
            2 => "*/0".to_string(),
            3 => format!("{}-{}", max, min),
            4 => String::new(),
            5 => "foo".to_string(),
            6 => "+1".to_string(),
            7 => format!("{}-", min),
            _ => format!("{}-{}-{}", min, min, max),
        };
        let mut items: Vec<String> = fields[f].split(',').map(|s| s.to_string()).collect();
        match rng.below(3) {
            0 => items.push(bad),
            1 => items.insert(rng.below(items.len() as u64 + 1) as usize, bad),
            _ => {
                // explicitly after a star
                items.insert(0, "*".to_string());
                items.insert(1, bad);
            }
        }
        fields[f] = items.join(",");
        let expr = fields.join(" ");
        rec.bin("invalid-item/in-list");
        judge_expression(rec, &expr, rng, "invalid-item-in-valid-expression", false, 6);
    }));
    // call sequences: an accepted expression, then — as the very next parse on this thread — the expression with one
    // field boundary moved by a character (same characters, split differently) or with two fields swapped, then the
    // first again; each judged on its own (accept/reject and, when accepted, the denoted sets)
    wls.push(Workload::cases("boundary_shift_sequences", ctx.count(20_000, 600_000), |rec, _, rng| {
        let x = if rng.chance(1, 2) {
            // numeric fields of two digits make shifted boundaries meaningful
            let f = |rng: &mut Rng, lo: u32, hi: u32| rng.range_i64(lo as i64, hi as i64).to_string();
            format!("{} {} {} {} {}", f(rng, 0, 59), f(rng, 0, 23), f(rng, 1, 31), f(rng, 1, 12), if rng.chance(1, 2) { "*".to_string() } else { f(rng, 0, 7) })
        } else {
            gen_expression(rng)
        };
        rec.bin("sequence/boundary-shift");
        judge_expression(rec, &x, rng, "boundary-shift-sequence(first)", false, 6);
        let fields: Vec<&str> = x.split(' ').collect();
        if fields.len() == 5 {
            for _ in 0..2 {
                let k = rng.below(4) as usize;
                let (a, b) = (fields[k], fields[k + 1]);
                let mut v: Vec<String> = fields.iter().map(|s| s.to_string()).collect();
                match rng.below(3) {
                    0 if a.chars().count() > 1 => {
                        let mut ac: Vec<char> = a.chars().collect();
                        let c = ac.pop().unwrap();
                        v[k] = ac.into_iter().collect();
                        v[k + 1] = format!("{}{}", c, b);
                    }
                    1 if b.chars().count() > 1 => {
                        let mut bc: Vec<char> = b.chars().collect();
                        let c = bc.remove(0);
                        v[k] = format!("{}{}", a, c);
                        v[k + 1] = bc.into_iter().collect();
                    }
                    _ => v.swap(k, k + 1),
                }
                let y = v.join(" ");
                judge_expression(rec, &y, rng, "boundary-shift-sequence(next-parse)", true, 6);
                judge_expression(rec, &x, rng, "boundary-shift-sequence(first-again)", true, 12);
            }
        }
    }));
    wls.push(Workload::cases("window_iteration_day_lists", ctx.count(2_000, 100_000), |rec, idx, rng| {
        // day-of-month lists / steps / ranges with an unrestricted weekday: the shapes whose denoted set is
        // only visible when the iterator walks across short months
        const DOMS: [&str; 12] = ["1,15,30", "1,31", "*/5", "*/10", "*/3", "29-31", "2,30", "1,29,31", "31", "30", "*/7", "1-2,30-31"];
        let dom = DOMS[(idx % DOMS.len() as u64) as usize];
        let month = ["*", "*", "1-6", "feb,mar", "*/2"][rng.below(5) as usize];
        let expr = format!("{} {} {} {} *", [0, 30, 59][rng.below(3) as usize], [0, 12, 23][rng.below(3) as usize], dom, month);
        if let (Spec::Accept(sets), Ok(Ok(s))) = (cron_spec::parse(&expr), trap(|| CronSchedule::parse(&expr))) {
            rec.nontrivial(hash_str(&expr) ^ mix64(idx));
            window_iteration(rec, &expr, &s, &sets, rng);
        }
    }));
    let out = run_workloads(ctx, wls);
    let mut meta = PropMeta::default();
    meta.exhaustive = false;
    meta.rule = format!(
        "accept side: expressions generated from the documented grammar (per field a list of 1–4 items from *, */n with n up to the field size, a, a-b; month/weekday names in random case; 7 and ranges ending in 7 in the weekday field; extra/odd whitespace) and, per field, every value, every range start/end, every step and every name; reject side: ALL single-character edits (delete / replace / insert over {{0-9 * , - / + space a-z é}}) of {} base expressions. Verdicts: Ok ⇔ the reference grammar accepts, Err(InvalidFormat) otherwise, never a panic; shapes the documentation does not settle (leading zeros, a-b/n, steps above the field size, ? L W #) are skipped. For accepted expressions the denoted sets are read back behaviourally — clock pinned at t−1 min, fresh clone, next()==t ⇔ t is a member — with one query per value of each field (other fields held at members; day queries on days where the other day field cannot satisfy the OR) plus random minutes; and by window iteration — 24 successive results of one clone under a fixed clock compared with the model's enumeration (also on day-of-month lists/steps/ranges across short months). A further workload plants one invalid item (out-of-range value, zero step, reversed range, empty, junk, signed, trailing range part) inside an otherwise valid list, also directly after a `*`; thorough adds all double edits of four short bases. Every case non-trivial; distinct by hash of the expression. Edit alphabet incl. characters whose case mapping lands on ASCII letters (ſ ı K İ). Boundary-shift sequences: an accepted expression, then as the next parse the same characters split differently (a field boundary moved by one character, two fields swapped), then the first again.",
        bases.len()
    );
    meta.rule.push_str(" The first result / the window's results are pulled through next() and through the Iterator methods a type may override (nth, take, skip, step_by, for-loops over by_ref). Zero-padded numbers (05, 007, 0-07): whether they are accepted is unspecified, but an accepted expression must denote the sets of its numeric reading. EVERY Unicode scalar value in place of each of nine syntax positions of a base expression (hyphen, slash, comma, star, separator, digit, name letter), accept/reject against the reference grammar (exhaustive over the alphabet).");
    meta.required_bins = vec![
        "sequence/boundary-shift","parse/accept-accept", "parse/reject-reject", "parse/unspecified-shape-skipped", "sets/queried", "sets/window-iterated", "sweep/every-code-point", "pull/next", "pull/take", "pull/nth(0)", "pull/nth(k)-then-next", "pull/skip-take", "pull/step_by", "pull/for-loop", "parse/leading-zero-accepted:sets-judged", "invalid-item/in-list", "member/expected-yes", "member/expected-no"];
    meta.assumptions = vec!["the clock seen by CronSchedule::next is pinned through the cfg(astrolabe_verif) hook (thread-local)".into()];
    Ok((meta, out))
}
