//! C01 — day number ↔ proleptic Gregorian date is a validated bijection.

use super::util::*;
use super::PropResult;
use crate::core::*;
use crate::model::calendar as cal;
use astrolabe::errors::AstrolabeError;
use astrolabe::{Date, DateTime, DateUtilities};
use serde_json::json;

#[inline]
fn ts_of_day(n: i64) -> i64 {
    (n - cal::DAYS_TO_1970) * 86_400
}

/// Judges one day number: read-back, model agreement, re-construction.
#[inline]
fn judge_day(rec: &mut Rec, n: i64, prev: &mut Option<(i64, (i32, u32, u32))>, hashed: bool) {
    rec.eval();
    let exp = cal::ymd(n);
    let r = trap(|| {
        let d = Date::from_timestamp(ts_of_day(n));
        let ymd = d.as_ymd();
        let back_ts = d.timestamp();
        let re = Date::from_ymd(ymd.0, ymd.1, ymd.2).map(|x| x.timestamp());
        (ymd, back_ts, re)
    });
    let era = if n < 0 { "BC" } else { "AD" };
    let lc = leap_class(exp.0);
    match r {
        Err(p) => {
            rec.outcome("panic");
            rec.violation(format!("C01|days|Date::from_timestamp/as_ymd/from_ymd|panic|{},{}", p.class, p.site()), || {
                json!({"day": n, "expected_ymd": [exp.0, exp.1, exp.2], "panic": p.to_json()})
            });
            *prev = None;
            return;
        }
        Ok((ymd, back_ts, re)) => {
            rec.outcome("value");
            if back_ts != ts_of_day(n) {
                rec.violation(format!("C01|days|Date::timestamp|wrong-value|era={}", era), || {
                    json!({"day": n, "timestamp_in": ts_of_day(n), "timestamp_out": back_ts})
                });
            }
            let got = (ymd.0 as i64, ymd.1, ymd.2);
            if got != exp {
                let delta = if cal::valid_display(got.0, got.1, got.2) {
                    (cal::days_from_civil(cal::astro_year(got.0), got.1, got.2) - n).to_string()
                } else {
                    "invalid-date".to_string()
                };
                rec.violation(
                    format!("C01|days|as_ymd|wrong-value|era={},leap={},reads-as-day{:+}", era, lc, delta.parse::<i64>().unwrap_or(0)),
                    || json!({"day": n, "expected_ymd": [exp.0, exp.1, exp.2], "observed_ymd": [ymd.0, ymd.1, ymd.2], "delta_days": delta}),
                );
            }
            match re {
                Ok(ts) if ts == ts_of_day(n) => {}
                Ok(ts) => {
                    let dd = (ts - ts_of_day(n)) / 86_400;
                    rec.violation(format!("C01|days|from_ymd(as_ymd(n))|wrong-day|era={},leap={},delta={:+}", era, lc, dd), || {
                        json!({"day": n, "as_ymd": [ymd.0, ymd.1, ymd.2], "from_ymd_gives_day": n + dd})
                    });
                }
                Err(e) => {
                    rec.violation(format!("C01|days|from_ymd(as_ymd(n))|refused|era={},leap={}", era, lc), || {
                        json!({"day": n, "as_ymd": [ymd.0, ymd.1, ymd.2], "error": e.to_string()})
                    });
                }
            }
            // successor relation, independent of the model's day→date map
            if let Some((pn, pd)) = *prev {
                if pn + 1 == n {
                    let a = cal::astro_year(pd.0 as i64);
                    let succ = if pd.0 != 0 && (1..=12).contains(&pd.1) && pd.2 < cal::month_len(a, pd.1) {
                        (pd.0, pd.1, pd.2 + 1)
                    } else if pd.1 < 12 {
                        (pd.0, pd.1 + 1, 1)
                    } else if pd.0 == -1 {
                        (1, 1, 1)
                    } else {
                        (pd.0 + 1, 1, 1)
                    };
                    if succ != ymd {
                        rec.violation(format!("C01|days|successor|not-consecutive|era={},leap={}", era, lc), || {
                            json!({"day": pn, "reads": [pd.0, pd.1, pd.2], "next_day_reads": [ymd.0, ymd.1, ymd.2]})
                        });
                    }
                }
            }
            *prev = Some((n, ymd));
        }
    }
    // bins & non-trivial accounting
    let last = cal::month_len(cal::astro_year(exp.0), exp.1);
    let boundary = exp.2 == 1 || exp.2 == last || (exp.1 == 2 && exp.2 == 29);
    if boundary {
        if hashed {
            rec.nontrivial(mix64(n as u64));
        } else {
            rec.nontrivial_counted(1);
        }
        if exp.1 == 2 && exp.2 == 29 {
            rec.bin(match (era, lc) {
                ("BC", "div4") => "feb29/BC/div4",
                ("BC", "div400") => "feb29/BC/div400",
                ("AD", "div4") => "feb29/AD/div4",
                ("AD", "div400") => "feb29/AD/div400",
                _ => "feb29/other",
            });
        } else if exp.2 == 1 {
            rec.bin(if n < 0 { "month-first/BC" } else { "month-first/AD" });
        } else {
            rec.bin(if n < 0 { "month-last/BC" } else { "month-last/AD" });
        }
    }
    if exp.1 == 2 && exp.2 == 28 {
        rec.bin(match lc {
            "common" => "feb28/common",
            "div100" => "feb28/div100",
            _ => "feb28/leap",
        });
    }
    if n == cal::MIN_DAY {
        rec.bin("range-end/first-day");
    }
    if n == cal::MAX_DAY {
        rec.bin("range-end/last-day");
    }
    if n == -1 || n == 0 {
        rec.bin("era-boundary-day");
    }
}

fn sweep<'a>(name: &'static str, lo: i64, hi_incl: i64, stride: u64, hashed: bool) -> Workload<'a> {
    let count = ((hi_incl - lo) as u64) / stride + 1;
    Workload::chunks(name, count, 1 << 16, move |rec, r| {
        let mut prev = None;
        rec.api_n("Date::from_timestamp", r.end - r.start);
        rec.api_n("Date::as_ymd", r.end - r.start);
        rec.api_n("Date::from_ymd", r.end - r.start);
        rec.api_n("Date::timestamp", 2 * (r.end - r.start));
        // re-read the day before the chunk so that chunk seams are covered by the successor check
        if stride == 1 && r.start > 0 {
            let n = lo + r.start as i64 - 1;
            if let Ok(ymd) = trap(|| Date::from_timestamp(ts_of_day(n)).as_ymd()) {
                prev = Some((n, ymd));
            }
        }
        for k in r {
            let n = lo + (k * stride) as i64;
            judge_day(rec, n, &mut prev, hashed);
            if rec.want_sample() {
                let e = cal::ymd(n);
                rec.sample(|| json!({"day": n, "model_ymd": [e.0, e.1, e.2], "observed": trap(|| Date::from_timestamp(ts_of_day(n)).as_ymd()).ok().map(|y| vec![y.0 as i64, y.1 as i64, y.2 as i64])}));
            }
        }
    })
}

pub fn year_set(ctx: &Ctx) -> Vec<i64> {
    let mut ys: Vec<i64> = Vec::new();
    for y in -5_879_614..=-5_879_607 {
        ys.push(y);
    }
    for y in 5_879_607..=5_879_614 {
        ys.push(y);
    }
    for y in -401..=401 {
        ys.push(y);
    }
    for y in 1580..=2110 {
        ys.push(y);
    }
    for base in [1_000i64, 10_000, 100_000, 1_000_000, 5_000_000] {
        for sign in [1i64, -1] {
            let c = sign * base;
            let c400 = c.div_euclid(400) * 400;
            for k in -2..=2 {
                for r in [0i64, 1, 3, 4, 5, 99, 100, 101, 104, 199, 200, 299, 300, 396, 399, 400] {
                    ys.push(c400 + k * 400 + r);
                }
            }
        }
    }
    let extra = ctx.count(1_500, 200_000);
    let mut rng = Rng::new(ctx.seed ^ hash_str("C01-years"));
    for _ in 0..extra {
        ys.push(rng.range_i64(-5_879_612, 5_879_612));
    }
    ys.sort_unstable();
    ys.dedup();
    ys
}

/// Expected outcome of constructing (display year, month, day)
fn expect_triple(y: i64, m: u32, d: u32) -> Option<i64> {
    cal::day_of_display(y, m, d)
}

fn triple_class(y: i64, m: u32, d: u32) -> &'static str {
    if y == 0 {
        "triple/year0"
    } else if !(1..=12).contains(&m) {
        "triple/month-out"
    } else if d < 1 || d > cal::month_len(cal::astro_year(y), m) {
        "triple/day-not-in-month"
    } else {
        let n = cal::days_from_civil(cal::astro_year(y), m, d);
        if n < cal::MIN_DAY {
            "triple/below-range"
        } else if n > cal::MAX_DAY {
            "triple/above-range"
        } else if y == cal::MIN_DATE.0 || y == cal::MAX_DATE.0 {
            "triple/valid-partial-end-year"
        } else {
            "triple/valid"
        }
    }
}

fn judge_triple(rec: &mut Rec, y: i64, m: u32, d: u32, also_datetime: bool) {
    rec.eval();
    rec.api("Date::from_ymd");
    let exp = expect_triple(y, m, d);
    let cls = triple_class(y, m, d);
    rec.bin(cls);
    if cls != "triple/valid" || d >= 28 || d == 1 {
        rec.nontrivial(hash_i128s(&[y as i128, m as i128, d as i128]));
    }
    let yy = y as i32;
    let r = trap(|| Date::from_ymd(yy, m, d).map(|x| (x.timestamp(), x.as_ymd())));
    let era = if y < 0 { "BC" } else { "AD" };
    let lc = if y != 0 { leap_class(y) } else { "year0" };
    match (r, exp) {
        (Err(p), _) => {
            rec.outcome("panic");
            rec.violation(format!("C01|triples|Date::from_ymd|panic|{},{}", p.class, p.site()), || {
                json!({"ymd": [y, m, d], "panic": p.to_json()})
            });
        }
        (Ok(Ok((ts, ymd))), Some(n)) => {
            rec.outcome("value");
            if ts != ts_of_day(n) {
                let dd = (ts - ts_of_day(n)) / 86_400;
                rec.violation(format!("C01|triples|Date::from_ymd|wrong-day|era={},leap={},delta={:+}", era, lc, dd), || {
                    json!({"ymd": [y, m, d], "expected_day": n, "observed_day": n + dd, "reads_back_as": [ymd.0, ymd.1, ymd.2]})
                });
            } else if (ymd.0 as i64, ymd.1, ymd.2) != (y, m, d) {
                rec.violation(format!("C01|triples|Date::from_ymd→as_ymd|wrong-readback|era={},leap={}", era, lc), || {
                    json!({"ymd": [y, m, d], "reads_back_as": [ymd.0, ymd.1, ymd.2]})
                });
            }
        }
        (Ok(Ok((ts, ymd))), None) => {
            rec.outcome("value");
            rec.violation(format!("C01|triples|Date::from_ymd|accepted-invalid|{}", cls), || {
                json!({"ymd": [y, m, d], "class": cls, "observed_day": ts / 86_400 + cal::DAYS_TO_1970, "reads_back_as": [ymd.0, ymd.1, ymd.2]})
            });
        }
        (Ok(Err(e)), Some(n)) => {
            rec.outcome("refused");
            rec.violation(format!("C01|triples|Date::from_ymd|refused-valid|era={},leap={},{}", era, lc, cls), || {
                json!({"ymd": [y, m, d], "expected_day": n, "error": e.to_string()})
            });
        }
        (Ok(Err(e)), None) => {
            rec.outcome("refused");
            if !matches!(e, AstrolabeError::OutOfRange(_)) {
                rec.violation(format!("C01|triples|Date::from_ymd|wrong-error-kind|{}", cls), || {
                    json!({"ymd": [y, m, d], "error": format!("{:?}", e)})
                });
            }
        }
    }
    if also_datetime {
        rec.api("DateTime::from_ymd");
        rec.eval();
        let r = trap(|| DateTime::from_ymd(yy, m, d).map(|x| (x.timestamp(), x.as_ymd(), x.as_hms())));
        match (r, exp) {
            (Err(p), _) => rec.violation(format!("C01|triples|DateTime::from_ymd|panic|{},{}", p.class, p.site()), || {
                json!({"ymd": [y, m, d], "panic": p.to_json()})
            }),
            (Ok(Ok((ts, ymd, hms))), Some(n)) => {
                if ts != ts_of_day(n) || (ymd.0 as i64, ymd.1, ymd.2) != (y, m, d) || hms != (0, 0, 0) {
                    rec.violation(format!("C01|triples|DateTime::from_ymd|wrong-value|era={},leap={}", era, lc), || {
                        json!({"ymd": [y, m, d], "expected_ts": ts_of_day(n), "observed_ts": ts, "reads_back_as": [ymd.0, ymd.1, ymd.2], "hms": [hms.0, hms.1, hms.2]})
                    });
                }
            }
            (Ok(Ok((ts, _, _))), None) => rec.violation(format!("C01|triples|DateTime::from_ymd|accepted-invalid|{}", cls), || {
                json!({"ymd": [y, m, d], "observed_ts": ts})
            }),
            (Ok(Err(e)), Some(_)) => rec.violation(format!("C01|triples|DateTime::from_ymd|refused-valid|era={},leap={},{}", era, lc, cls), || {
                json!({"ymd": [y, m, d], "error": e.to_string()})
            }),
            (Ok(Err(e)), None) => {
                if !matches!(e, AstrolabeError::OutOfRange(_)) {
                    rec.violation(format!("C01|triples|DateTime::from_ymd|wrong-error-kind|{}", cls), || {
                        json!({"ymd": [y, m, d], "error": format!("{:?}", e)})
                    });
                }
            }
        }
    }
    if rec.want_sample() {
        rec.sample(|| json!({"from_ymd": [y, m, d], "class": cls, "model_day": exp, "observed": format!("{:?}", trap(|| Date::from_ymd(yy, m, d).map(|x| x.timestamp() / 86_400 + cal::DAYS_TO_1970)).ok())}));
    }
}

/// "Constructing from any triple" is not only from_ymd: a text with a year, a month and a day field is a triple too.
/// Every text constructor gets the triple written out — Date::from_str (yyyy-MM-dd), Date::parse / DateTime::parse with
/// numeric fields, parse_rfc3339 / DateTime::from_str (years 0000–9999) — and must land on the triple's day or refuse
/// (year 0 included: there is no year 0).  Which error kind a text route reports is not judged.
fn judge_triple_text(rec: &mut Rec, y: i64, m: u32, d: u32) {
    use std::str::FromStr;
    if !(0..=99).contains(&m) || !(0..=99).contains(&d) {
        return;
    }
    let exp = expect_triple(y, m, d);
    let cls = triple_class(y, m, d);
    rec.bin("triples/through-text-constructors");
    let ytxt = if y < 0 { format!("-{:04}", -y) } else { format!("{:04}", y) };
    let iso = format!("{}-{:02}-{:02}", ytxt, m, d);
    let mut routes: Vec<(&'static str, Result<Result<i64, String>, Panic>)> = vec![];
    let day_of = |ts: i64| ts.div_euclid(86_400) + cal::DAYS_TO_1970;
    routes.push(("Date::from_str(yyyy-MM-dd)", trap(|| Date::from_str(&iso).map(|x| day_of(x.timestamp())).map_err(|e| e.to_string()))));
    routes.push(("Date::parse(y-M-d)", trap(|| Date::parse(&format!("{}-{}-{}", y, m, d), "y-M-d").map(|x| day_of(x.timestamp())).map_err(|e| e.to_string()))));
    routes.push(("DateTime::parse(yyyy-MM-dd HH:mm)", trap(|| DateTime::parse(&format!("{} 00:00", iso), "yyyy-MM-dd HH:mm").map(|x| day_of(x.timestamp())).map_err(|e| e.to_string()))));
    if (0..=9999).contains(&y) {
        let rfc = format!("{:04}-{:02}-{:02}T00:00:00Z", y, m, d);
        routes.push(("DateTime::parse_rfc3339", trap(|| DateTime::parse_rfc3339(&rfc).map(|x| day_of(x.timestamp())).map_err(|e| e.to_string()))));
        let rfc2 = format!("{:04}-{:02}-{:02}T12:30:00+00:00", y, m, d);
        routes.push(("DateTime::from_str", trap(|| DateTime::from_str(&rfc2).map(|x| day_of(x.timestamp())).map_err(|e| e.to_string()))));
    }
    for (route, r) in routes {
        rec.eval();
        rec.api("text constructors (triple written out)");
        match (r, exp) {
            (Err(p), _) => rec.violation(format!("C01|triples-as-text|{}|panic|{},{}", route, p.class, p.site()), || json!({"ymd": [y, m, d], "text": iso, "panic": p.to_json()})),
            (Ok(Ok(n)), Some(e)) if n == e => {}
            (Ok(Ok(n)), Some(e)) => rec.violation(format!("C01|triples-as-text|{}|wrong-day", route), || json!({"ymd": [y, m, d], "text": iso, "expected_day": e, "observed_day": n})),
            (Ok(Ok(n)), None) => rec.violation(format!("C01|triples-as-text|{}|accepted-invalid|{}", route, cls), || json!({"ymd": [y, m, d], "text": iso, "class": cls, "observed_day": n, "reads_as": format!("{:?}", cal::ymd(n))})),
            // a valid date may be outside what the text form can carry (e.g. partly representable end years): not judged
            (Ok(Err(_)), _) => {}
        }
    }
}

/// One value, one date: however a DateTime came about, as_ymd(), (year(), month(), day()), format("y M d"), as_ymdhms
/// and Date::from(value) name the same day, and the time of day is inside the day.  Values built by parse from texts
/// in which several fields feed one component (fraction fields piling up past 23:59:59, 12-hour fields, day of year next
/// to month and day) are the construction route where a sum can overflow the day without anything being refused.
fn judge_one_date(rec: &mut Rec, rng: &mut Rng) {
    use astrolabe::TimeUtilities;
    rec.eval();
    rec.api("DateTime::parse → as_ymd/year/month/day/format/Date::from");
    let y = rng.range_i64(-3000, 3000);
    let y = if y == 0 { 1 } else { y };
    let (m, d) = (1 + rng.below(12) as u32, 1 + rng.below(28) as u32);
    let late = rng.chance(2, 3);
    let (h, mi, s) = if late { (23u32, 59u32, 59u32) } else { (rng.below(24) as u32, rng.below(60) as u32, rng.below(60) as u32) };
    let frac = |rng: &mut Rng, digits: u32| -> String {
        let max = 10u64.pow(digits) - 1;
        let v = match rng.below(3) { 0 => max, 1 => max - rng.below(3).min(max), _ => rng.below(max + 1) };
        format!("{:0w$}", v, w = digits as usize)
    };
    let widths: Vec<(usize, u32)> = vec![(1, 1), (2, 2), (3, 3), (4, 6), (5, 9)];
    let k = 1 + rng.below(5) as usize;
    let mut pat = String::from("y-M-d H:m:s");
    let mut text = format!("{}-{}-{} {}:{}:{}", y, m, d, h, mi, s);
    for _ in 0..k {
        let (w, digits) = *rng.pick(&widths);
        pat.push(' ');
        for _ in 0..w {
            pat.push('n');
        }
        text.push(' ');
        text.push_str(&frac(rng, digits));
    }
    rec.bin(if late { "one-date/parse-pile-up-late-in-the-day" } else { "one-date/parse-pile-up" });
    rec.nontrivial(hash_str(&text) ^ hash_str(&pat));
    let r = trap(|| DateTime::parse(&text, &pat).ok().map(|v| {
        let fd = v.format("y M d");
        let dd = Date::from(v).as_ymd();
        (v.as_ymd(), (v.year(), v.month(), v.day()), fd, dd, v.as_ymdhms(), (v.hour(), v.minute(), v.second()))
    }));
    match r {
        Err(p) => rec.violation(format!("C01|one-date|DateTime::parse|panic|{},{}", p.class, p.site()), || json!({"text": text, "pattern": pat, "panic": p.to_json()})),
        Ok(None) => rec.bin("one-date/refused"),
        Ok(Some((a, g, f, dd, ymdhms, hms))) => {
            rec.bin("one-date/accepted");
            let fg = format!("{} {} {}", g.0, g.1, g.2);
            let ok = a == g && f == fg && dd == g && (ymdhms.0, ymdhms.1, ymdhms.2) == a && ymdhms.3 < 24 && (ymdhms.3, ymdhms.4, ymdhms.5) == hms;
            if !ok {
                rec.violation("C01|one-date|DateTime::parse|one-value-reads-as-two-dates".to_string(), || json!({"text": text, "pattern": pat, "as_ymd": format!("{:?}", a), "year/month/day": format!("{:?}", g), "format(y M d)": f, "Date::from": format!("{:?}", dd), "as_ymdhms": format!("{:?}", ymdhms), "hour/minute/second": format!("{:?}", hms)}));
            }
        }
    }
}

pub fn run(ctx: &Ctx) -> PropResult {
    let years = year_set(ctx);
    let mut wls: Vec<Workload> = Vec::new();
    let cyc = 146_097i64;
    // the whole quantifier in every san run (quick included, ≈ 50 s on 16 cores) and in both builds of the thorough tier:
    // a defect confined to a handful of interior days (a fast path with a mis-set bound) is invisible to any sample
    let full = ctx.san() || !ctx.quick();
    if full {
        wls.push(sweep("days_all", cal::MIN_DAY, cal::MAX_DAY, 1, false));
    } else {
        wls.push(sweep("days_around_era_boundary", -3 * cyc, 3 * cyc, 1, true));
        wls.push(sweep("days_1500_2500", cal::days_from_civil(1500, 1, 1), cal::days_from_civil(2500, 12, 31), 1, true));
        wls.push(sweep("days_low_range_end", cal::MIN_DAY, cal::MIN_DAY + 2 * cyc, 1, true));
        wls.push(sweep("days_high_range_end", cal::MAX_DAY - 2 * cyc, cal::MAX_DAY, 1, true));
        // thorough/rel: 1/64 stratified guard against cfg(debug_assertions)-dependent code
        let stride = if ctx.quick() { 1021 } else { 61 };
        wls.push(sweep("days_strided_whole_range", cal::MIN_DAY, cal::MAX_DAY, stride, true));
    }
    let thin = if ctx.quick() { 8 } else { 1 };
    let ys = &years;
    let nyears = years.len() as u64;
    wls.push(Workload::cases("triples_year_grid", nyears, move |rec, idx, _rng| {
        let y = ys[idx as usize];
        let near_end = y.abs() >= 5_879_600 || y.abs() <= 401;
        if !near_end && thin > 1 && idx % thin != 0 {
            return;
        }
        for m in 0..=13u32 {
            for d in 0..=32u32 {
                judge_triple(rec, y, m, d, (idx + m as u64 + d as u64) % 16 == 0 || near_end);
            }
        }
    }));
    if full {
        // EXHAUSTIVE: every (year, month, day) of the property's quantifier — year −5 879 612..=5 879 612,
        // month 0..=13, day 0..=32 (5.4e9 triples). Lean loop; any disagreement is re-judged by the
        // full verdict function for reporting.
        let y0: i64 = -5_879_612;
        let ny: u64 = 2 * 5_879_612 + 1;
        wls.push(Workload::chunks("triples_ALL_years_x_months_x_days", ny, 512, move |rec, r| {
            let mut valid = 0u64;
            let mut invalid = 0u64;
            for k in r.clone() {
                let y = y0 + k as i64;
                for m in 0..=13u32 {
                    for d in 0..=32u32 {
                        let exp = expect_triple(y, m, d);
                        let got = trap(|| Date::from_ymd(y as i32, m, d).map(|x| x.timestamp()));
                        let ok = match (&got, exp) {
                            (Ok(Ok(ts)), Some(n)) => *ts == ts_of_day(n),
                            (Ok(Err(AstrolabeError::OutOfRange(_))), None) => true,
                            _ => false,
                        };
                        if ok {
                            if exp.is_some() {
                                valid += 1;
                            } else {
                                invalid += 1;
                            }
                        } else {
                            rec.cur_idx = k;
                            judge_triple(rec, y, m, d, true);
                        }
                    }
                }
            }
            rec.evals(valid + invalid);
            rec.api_n("Date::from_ymd", valid + invalid);
            rec.nontrivial_counted(invalid + (r.end - r.start) * 12 * 5); // invalid triples + day 1 and days >= 28 of each month
            *rec.bins.entry("exhaustive-triples/valid").or_insert(0) += valid;
            *rec.bins.entry("exhaustive-triples/refused").or_insert(0) += invalid;
        }));
    }
    wls.push(Workload::cases("triples_random", ctx.count(120_000, 1_000_000), move |rec, _idx, rng| {
        let y = if rng.chance(1, 4) { rng.range_i64(i32::MIN as i64, i32::MAX as i64) } else { rng.range_i64(-5_879_612, 5_879_612) };
        let m = if rng.chance(1, 16) { rng.next() as u32 } else { rng.below(14) as u32 };
        let d = if rng.chance(1, 16) { rng.next() as u32 } else { rng.below(33) as u32 };
        judge_triple(rec, y, m, d, rng.chance(1, 8));
    }));
    // the triple written out as text, through every text constructor: years −20…20 (year 0!), 1580…2110, 9990…10010 and
    // random years x month 0..=13 x day 0..=32
    wls.push(Workload::cases("triples_through_text_constructors", ctx.count(700, 20_000), move |rec, idx, rng| {
        let y = match idx % 4 {
            0 => (idx / 4 % 41) as i64 - 20,
            1 => rng.range_i64(1580, 2110),
            2 => *rng.pick(&[9_990i64, 9_999, 10_000, 10_010, -9_999, -10_000, 99_999, 100_000, 5_879_611, -5_879_611, 5_879_612]),
            _ => rng.range_i64(-5_879_612, 5_879_612),
        };
        for m in 0..=13u32 {
            for d in [0u32, 1, 15, 28, 29, 30, 31, 32] {
                judge_triple_text(rec, y, m, d);
            }
        }
    }));
    wls.push(Workload::cases("one_value_one_date(parse_pile_ups)", ctx.count(60_000, 1_500_000), move |rec, _idx, rng| judge_one_date(rec, rng)));
    // call sequences: a triple, then a neighbour that differs in one or two components (adjacent year, month
    // 0/13/±1, same day) — what a "last month"/"last year" memo keyed by year·12+month or by a year range confuses;
    // and a day followed by days a whole number of years / 400-year cycles / 2^j days away (then the first again)
    wls.push(Workload::cases("triple_neighbour_sequences", ctx.count(60_000, 1_500_000), move |rec, _idx, rng| {
        let y = match rng.below(4) {
            0 => rng.range_i64(-8, 8),
            1 => *rng.pick(&[1900i64, 2000, 2024, 2100, 2400, -1, 1, -4, -100, -400, 5_879_611, -5_879_611]),
            2 => rng.range_i64(1600, 2500),
            _ => rng.range_i64(-5_879_612, 5_879_612),
        };
        let m = *rng.pick(&[1u32, 1, 2, 2, 3, 6, 11, 12, 12, 12]);
        let d = *rng.pick(&[1u32, 10, 28, 29, 30, 31]);
        judge_triple(rec, y, m, d, false);
        for _ in 0..3 {
            let y2 = y + *rng.pick(&[0i64, 0, 1, -1, 1, -1, 400, -400]);
            let m2 = match rng.below(5) {
                0 => 0,
                1 => 13,
                2 => m,
                3 => (m as i64 + *rng.pick(&[1i64, -1, 12, -12])).clamp(0, 25) as u32,
                _ => rng.below(14) as u32,
            };
            let d2 = if rng.chance(1, 2) { d } else { rng.below(33) as u32 };
            rec.bin("triples/neighbour-sequence");
            judge_triple(rec, y2, m2, d2, rng.chance(1, 8));
        }
    }));
    wls.push(Workload::cases("day_neighbour_sequences", ctx.count(40_000, 1_000_000), move |rec, _idx, rng| {
        let a = match rng.below(3) {
            0 => *rng.pick(&[1900i64, 2000, 2100, 2200, 2300, 2400, 100, 400, -100, -400, -300, 1, 0, -1]),
            1 => rng.range_i64(-3000, 3000),
            _ => rng.range_i64(-5_879_000, 5_879_000),
        };
        let n0 = cal::days_from_civil(a, 1, 1) + *rng.pick(&[0i64, 14, 30, 31, 58, 59, 60, 364, 365]);
        let mut prev = None;
        judge_day(rec, n0, &mut prev, true);
        for _ in 0..4 {
            let n1 = match rng.below(5) {
                0 => cal::days_from_civil(a + 1, 1, 1) + rng.range_i64(-1, 1),
                1 => cal::days_from_civil(a, 12, 31) + rng.range_i64(-1, 1),
                2 => n0 + *rng.pick(&[1i64, -1]) * (rng.range_i64(1, 4) << rng.range_i64(8, 31)),
                3 => n0 + *rng.pick(&[365i64, 366, -365, -366, 146_097, -146_097, 1461, 36_524]),
                _ => n0 + rng.range_i64(-400, 400),
            };
            if (cal::MIN_DAY..=cal::MAX_DAY).contains(&n1) {
                rec.bin("days/neighbour-sequence");
                let mut p2 = None;
                judge_day(rec, n1, &mut p2, true);
            }
        }
        let mut p3 = None;
        judge_day(rec, n0, &mut p3, true);
    }));
    let out = run_workloads(ctx, wls);
    let mut meta = PropMeta::default();
    meta.exhaustive = full;
    meta.rule = format!(
        "{}days: {} ; each day n is reached through Date::from_timestamp, read with as_ymd/timestamp, rebuilt with from_ymd and compared with an independent i64 calendar model plus a direct successor check across chunk seams. triples: {} years x month 0..=13 x day 0..=32 (year grid thinned {}x away from the range ends / era boundary) + random triples over the whole i32 year domain, judged accept/refuse/error-kind against the model. Non-trivial = a day that is the first/last of its month or Feb 29; a triple that is invalid, out of range, or has day 1 or >= 28. Distinctness by hash of the concrete input (days_all: each day visited once, counted). Call sequences: a triple followed by neighbours differing in one or two components (adjacent year, month 0/13/±1/±12, same day), and a day followed by days one year / one 4-, 100-, 400-year cycle / 2^j days away and then the first day again (what a last-year / last-month memo would confuse). Day window 1500–2500 AD swept day by day (calendar-reform dates included).",
        if full { "triples: ALL 5.4e9 (year −5879612..=5879612) x (month 0..=13) x (day 0..=32) through Date::from_ymd (exhaustive over the property's quantifier). " } else { "" },
        if full { "ALL 2^32 day numbers".to_string() } else { "3 Gregorian cycles either side of day 0, 1600-2400 AD, 2 cycles at each range end, and a strided pass over the whole range".to_string() },
        nyears,
        thin
    );
    meta.required_bins = vec![
        "feb29/BC/div4", "feb29/BC/div400", "feb29/AD/div4", "feb29/AD/div400", "feb28/common", "feb28/div100",
        "month-first/BC", "month-last/AD", "range-end/first-day", "range-end/last-day", "era-boundary-day",
        "triple/valid", "triple/year0", "triple/month-out", "triple/day-not-in-month", "triple/below-range", "triple/above-range",
        "triple/valid-partial-end-year", "triples/through-text-constructors", "one-date/parse-pile-up-late-in-the-day", "one-date/accepted",
    ];
    meta.rule.push_str(" Triples written out as text through Date::from_str, Date::parse, DateTime::parse, parse_rfc3339 and DateTime::from_str (year 0 and years around 10^4 included): the triple's day or a refusal. One value, one date: DateTimes parsed from texts whose fraction fields pile up late in the day must read as the same date through as_ymd, year/month/day, format, as_ymdhms and Date::from, with a time of day inside the day.");
    if full {
        meta.required_bins.push("exhaustive-triples/valid");
        meta.required_bins.push("exhaustive-triples/refused");
    }
    meta.assumptions = vec![
        "the harness calendar model (Hinnant civil-from-days on astronomical years, self-checked at start-up against a definition-level day walk over 6 Gregorian cycles) is the reference".into(),
    ];
    Ok((meta, out))
}
