//! C10 — an offset changes how an instant is read, never which instant it is.

use super::c08::DN;
use super::PropResult;
use crate::core::*;
use crate::model::calendar as cal;
use crate::model::instant::*;
use super::diff::*;
use astrolabe::errors::AstrolabeError;
use astrolabe::{DateTime, DateUtilities, Offset, OffsetUtilities, Time, TimeUtilities};
use serde_json::{json, Value};
use std::cmp::Ordering;

fn fmt_offset_x5(o: i32) -> String {
    let a = o.unsigned_abs();
    let (h, m, s) = (a / 3600, a / 60 % 60, a % 60);
    let sign = if o < 0 { '-' } else { '+' };
    if s != 0 {
        format!("{}{:02}:{:02}:{:02}", sign, h, m, s)
    } else {
        format!("{}{:02}:{:02}", sign, h, m)
    }
}

fn fmt_local(local: i128, o: i32) -> String {
    let f = fields(local);
    format!(
        "{}{:04} {:02} {:02} {:02} {:02} {:02} {:09} {}",
        if f.year < 0 { "-" } else { "" },
        f.year.abs(),
        f.month,
        f.dom,
        f.hour,
        f.minute,
        f.second,
        f.subsec,
        fmt_offset_x5(o)
    )
}

const PATTERN: &str = "yyyy MM dd HH mm ss nnnnn xxxxx";

fn date_shift_class(i: i128, o: i32) -> &'static str {
    let l = i + o as i128 * NS;
    let (fu, fl) = (fields(i), fields(l));
    if (i < 0) != (l < 0) {
        "shift/across-0001-01-01"
    } else if fu.year != fl.year {
        "shift/across-year-end"
    } else if fu.month != fl.month {
        "shift/across-month-end"
    } else if fu.day != fl.day {
        "shift/across-midnight"
    } else {
        "shift/same-date"
    }
}

fn judge_dt(rec: &mut Rec, i: i128, o: i32) {
    rec.eval();
    let cls = date_shift_class(i, o);
    rec.bin(cls);
    rec.bin(if o % 60 != 0 { "offset/with-seconds" } else if o % 3600 != 0 { "offset/with-minutes" } else { "offset/whole-hours" });
    if cls != "shift/same-date" || o % 60 != 0 {
        rec.nontrivial(hash_i128s(&[i, o as i128]));
    }
    let local = i + o as i128 * NS;
    rec.api("DateTime::set_offset");
    rec.api("DateTime::as_offset");
    rec.api("DateTime::format");
    let wit = |obs: Value| json!({"instant_utc": show(i), "offset": o, "model_local": show(local), "class": cls, "observed": obs});
    // the offset-free value of the instant, and — independently built — the offset-free value of the
    // *shifted* instant, whose getters/format are what the property says the offset value must show
    let Some((base, _)) = sane_value(i, 0) else {
        rec.bin(SKIP_START);
        return;
    };
    let shifted = sane_value(local, 0).filter(|(_, so)| so.local.is_some());
    if shifted.is_none() {
        rec.bin("skipped/shifted-instant-not-constructible-or-not-trustworthy");
    }
    type G = (i32, u32, u32, u32, u8, u32, u32, u32, u32, u32, u32);
    let getters = |x: &DateTime| -> G { (x.year(), x.month(), x.day(), x.day_of_year(), x.weekday(), x.hour(), x.minute(), x.second(), x.milli(), x.micro(), x.nano()) };
    let cmp_sane = trap(|| base == base && base.cmp(&base) == Ordering::Equal && base.nanos_since(&base) == 0 && base.seconds_since(&base) == 0 && base.days_since(&base) == 0).unwrap_or(false);
    let r = trap(|| {
        let x = base.set_offset(Offset::Fixed(o));
        let same = (x == base, x.cmp(&base), base.cmp(&x), x.nanos_since(&base), x.seconds_since(&base), x.days_since(&base), x.duration_between(&base).as_nanos());
        let sh = shifted.as_ref().map(|(e, _)| (getters(&x), getters(e), format!("{} | {}", x.format(PATTERN), x), format!("{} {} | {}", e.format("yyyy MM dd HH mm ss nnnnn"), fmt_offset_x5(o), e)));
        // as_offset on the offset-free value: keeps the displayed fields, moves the instant by −o
        let y = base.as_offset(Offset::Fixed(o));
        let yg = (y.year(), y.month(), y.day(), y.hour(), y.minute(), y.second(), y.nano());
        let bg = (base.year(), base.month(), base.day(), base.hour(), base.minute(), base.second(), base.nano());
        let before = (read(&base), read_via_timestamp(&base), base.timestamp(), base.as_ymdhms());
        ((read(&x), read_via_timestamp(&x.set_offset(Offset::Fixed(0))), x.timestamp(), x.as_ymdhms()), before, x.get_offset(), same, sh, y, y.get_offset(), yg, bg)
    });
    match r {
        Err(p) => rec.violation(format!("C10|datetime|set_offset/getters/as_offset|panic|{},{}", p.class, p.site()), || wit(p.to_json())),
        Ok((inst, before, goff, same, sh, y, yoff, yg, bg)) => {
            if inst != before {
                rec.violation(format!("C10|datetime|set_offset|instant-changed|{}", cls), || wit(json!({"(nanos_since, timestamp+nano, timestamp, as_ymdhms) before": format!("{:?}", before), "after": format!("{:?}", inst)})));
            }
            if goff != Offset::Fixed(o) {
                rec.violation("C10|datetime|get_offset|not-what-was-set".to_string(), || wit(json!({"get_offset": format!("{:?}", goff)})));
            }
            if cmp_sane && same != (true, Ordering::Equal, Ordering::Equal, 0, 0, 0, 0) {
                rec.violation(format!("C10|datetime|set_offset|ordering-or-difference-changed|{}", cls), || wit(json!({"eq/cmp/cmp/nanos_since/seconds_since/days_since/duration": format!("{:?}", same)})));
            }
            if let Some((g, eg, fmt, want)) = sh {
                if g != eg {
                    rec.violation(format!("C10|datetime|getters|not-the-shifted-instant's-fields|{}", cls), || wit(json!({"getters(y,m,d,doy,wd,h,m,s,ms,us,ns)": format!("{:?}", g), "getters of the offset-free value of instant+offset": format!("{:?}", eg)})));
                }
                if fmt != want {
                    rec.violation(format!("C10|datetime|format|not-the-shifted-instant's-fields|{}", cls), || wit(json!({"pattern": PATTERN, "expected (format and to_string() of the offset-free value of instant+offset, then the offset)": want, "observed (format | to_string())": fmt})));
                }
            }
            match diff_with_expected(&y, i - o as i128 * NS, o) {
                Ok(Diff::Skip) => rec.bin(SKIP_EXPECTED),
                Ok(Diff::Same) => {}
                Ok(Diff::Differs(g, e)) => rec.violation(format!("C10|datetime|as_offset|instant-not-moved-by-minus-offset|{}", cls), || wit(json!({"result_reads": g.to_json(), "independently_built_expected_reads": e.to_json()}))),
                Err(p) => rec.violation(format!("C10|datetime|as_offset|result-unreadable|{},{}", p.class, p.site()), || wit(p.to_json())),
            }
            // "moves the instant by minus the offset" holds whatever offset the receiver already carries — in
            // particular the same one (an as_offset that returns early for an equal offset does not move it)
            for o1 in [o, ((o as i64 * 7 + 12_345).rem_euclid(172_799) - 86_399) as i32] {
                rec.api("DateTime::as_offset (receiver already carrying an offset)");
                let y1 = trap(|| base.set_offset(Offset::Fixed(o1)).as_offset(Offset::Fixed(o)));
                match y1 {
                    Err(p) => rec.violation(format!("C10|datetime|as_offset-on-offset-value|panic|{},{}", p.class, p.site()), || wit(json!({"receiver_offset": o1, "panic": p.to_json()}))),
                    Ok(y1) => match diff_with_expected(&y1, i - o as i128 * NS, o) {
                        Ok(Diff::Skip) => rec.bin(SKIP_EXPECTED),
                        Ok(Diff::Same) => {}
                        Ok(Diff::Differs(g, e)) => rec.violation(format!("C10|datetime|as_offset-on-offset-value|instant-not-moved-by-minus-offset|receiver-offset-{}", if o1 == o { "equal" } else { "different" }), || wit(json!({"receiver_offset": o1, "result_reads": g.to_json(), "independently_built_expected_reads": e.to_json()}))),
                        Err(p) => rec.violation(format!("C10|datetime|as_offset-on-offset-value|result-unreadable|{},{}", p.class, p.site()), || wit(p.to_json())),
                    },
                }
            }
            if yoff != Offset::Fixed(o) || yg != bg {
                rec.violation(format!("C10|datetime|as_offset|displayed-fields-changed|{}", cls), || wit(json!({"before": format!("{:?}", bg), "after": format!("{:?}", yg), "offset": format!("{:?}", yoff)})));
            }
        }
    }
    if rec.want_sample() {
        rec.sample(|| wit(json!({"model_format": fmt_local(local, o)})));
    }
}

/// "every … formatted field equals that of the instant shifted by the offset" — for every symbol in whatever company
/// (random small sets of symbols, any widths, any order), and for the RFC 3339 writer at every precision.  Differential:
/// the offset-carrying value and the independently built offset-free value of instant+offset get the *same* pattern.
fn judge_dt_company(rec: &mut Rec, rng: &mut Rng, i: i128, o: i32) {
    use crate::model::fmt_spec::Kind;
    rec.eval();
    let cls = date_shift_class(i, o);
    rec.bin(cls);
    rec.api("DateTime::format (fields in random company)");
    rec.api("DateTime::format_rfc3339");
    rec.nontrivial(hash_i128s(&[i, o as i128, 0xC0]));
    let local = i + o as i128 * NS;
    let Some((base, _)) = sane_value(i, 0) else {
        rec.bin(SKIP_START);
        return;
    };
    let Some((e, _)) = sane_value(local, 0).filter(|(_, so)| so.local.is_some()) else {
        rec.bin("skipped/shifted-instant-not-constructible-or-not-trustworthy");
        return;
    };
    let toks = super::fmtctx::company(rng, Kind::DateTime, &[], false);
    let sep = *rng.pick(&["|", " ", "/", "", "-", "T", "'at'"]);
    let mut p = String::new();
    for (k, (c, w)) in toks.iter().enumerate() {
        if k > 0 {
            p.push_str(sep);
        }
        for _ in 0..*w {
            p.push(*c);
        }
    }
    let syms: String = { let mut v: Vec<char> = toks.iter().map(|t| t.0).collect(); v.sort(); v.into_iter().collect() };
    rec.bin(if toks.len() == 1 { "company/one-symbol-alone" } else if !toks.iter().any(|t| "yqMwdDe".contains(t.0)) { "company/no-calendar-field" } else if !toks.iter().any(|t| "abhHKkmsn".contains(t.0)) { "company/no-clock-field" } else { "company/calendar-and-clock-fields" });
    let wit = |obs: Value| json!({"instant_utc": show(i), "offset": o, "model_local": show(local), "class": cls, "pattern": p, "observed": obs});
    let r = trap(|| {
        let x = base.set_offset(Offset::Fixed(o));
        let precs = [astrolabe::Precision::Seconds, astrolabe::Precision::Centis, astrolabe::Precision::Millis, astrolabe::Precision::Micros, astrolabe::Precision::Nanos];
        let rx: Vec<String> = precs.iter().map(|pr| x.format_rfc3339(pr.clone())).collect();
        let re: Vec<String> = precs.iter().map(|pr| e.format_rfc3339(pr.clone())).collect();
        (x.format(&p), e.format(&p), rx, re, x.format("XXX"))
    });
    match r {
        Err(pn) => rec.violation(format!("C10|datetime|format-in-company/format_rfc3339|panic|{},{}", pn.class, pn.site()), || wit(pn.to_json())),
        Ok((fx, fe, rx, re, zone)) => {
            if fx != fe {
                rec.violation(format!("C10|datetime|format|not-the-shifted-instant's-fields|symbols={}", syms), || wit(json!({"format of the value carrying the offset": fx, "format of the offset-free value of instant+offset": fe})));
            }
            // year 0001–9999 only (RFC 3339's domain; outside it the year field has another shape, C13 does not apply)
            let f = fields(local);
            if (1..=9999).contains(&f.year) {
                rec.bin("rfc3339/fields-compared");
                for k in 0..rx.len() {
                    // date-time part: everything before the zone designator
                    let cut = |s: &str| -> Option<(String, String)> {
                        let t = s.find('T')?;
                        let z = s[t..].find(|c| c == 'Z' || c == '+' || c == '-')? + t;
                        Some((s[..z].to_string(), s[z..].to_string()))
                    };
                    match (cut(&rx[k]), cut(&re[k])) {
                        (Some((dx, zx)), Some((de, _))) => {
                            if dx != de {
                                rec.violation(format!("C10|datetime|format_rfc3339|not-the-shifted-instant's-fields|offset-{}", if o % 60 != 0 { "with-seconds" } else { "whole-minutes" }), || wit(json!({"precision_index": k, "format_rfc3339 of the value carrying the offset": rx[k], "of the offset-free value of instant+offset": re[k]})));
                            } else if zx != zone {
                                rec.violation("C10|datetime|format_rfc3339|zone-designator-differs-from-XXX".to_string(), || wit(json!({"format_rfc3339": rx[k], "format(\"XXX\")": zone})));
                            }
                        }
                        _ => rec.violation("C10|datetime|format_rfc3339|no-date-time/zone-split".to_string(), || wit(json!({"format_rfc3339": rx[k], "reference": re[k]}))),
                    }
                }
            }
        }
    }
    if rec.want_sample() {
        rec.sample(|| wit(json!("(see verdict)")));
    }
}

/// "set_offset leaves the instant (timestamp, ordering, differences) unchanged" for TWO different instants: every
/// relation between a and b reads the same whether or not the two carry (different) offsets.  Relative — no model.
fn judge_dt_pair(rec: &mut Rec, i: i128, j: i128, o1: i32, o2: i32) {
    rec.eval();
    rec.api("DateTime relations under set_offset");
    rec.bin("pair/relations-unchanged-by-offsets");
    rec.nontrivial(hash_i128s(&[i, j, o1 as i128, o2 as i128, 0x1010]));
    let (Some((a, _)), Some((b, _))) = (sane_value(i, 0), sane_value(j, 0)) else {
        rec.bin(SKIP_START);
        return;
    };
    let rel = |x: &DateTime, y: &DateTime| format!("eq={} cmp={:?} ns={} us={} ms={} s={} min={} h={} d={} between={:?} ts=({},{})", x == y, x.cmp(y), x.nanos_since(y), x.micros_since(y), x.millis_since(y), x.seconds_since(y), x.minutes_since(y), x.hours_since(y), x.days_since(y), x.duration_between(y), x.timestamp(), y.timestamp());
    let r = trap(|| {
        let (ao, bo) = (a.set_offset(Offset::Fixed(o1)), b.set_offset(Offset::Fixed(o2)));
        (rel(&a, &b), rel(&ao, &bo), rel(&ao, &b), rel(&bo, &ao), rel(&b, &a))
    });
    let wit = |obs: Value| json!({"a_utc": show(i), "a_offset": o1, "b_utc": show(j), "b_offset": o2, "observed": obs});
    match r {
        Err(p) => rec.violation(format!("C10|datetime-pair|relations|panic|{},{}", p.class, p.site()), || wit(p.to_json())),
        Ok((plain, both, one, rev_off, rev_plain)) => {
            if plain != both || plain != one || rev_off != rev_plain {
                rec.violation("C10|datetime-pair|set_offset|ordering-or-difference-changed".to_string(), || wit(json!({"offset-free a vs b": plain, "a+o1 vs b+o2": both, "a+o1 vs b": one, "offset-free b vs a": rev_plain, "b+o2 vs a+o1": rev_off})));
            }
        }
    }
}

fn judge_time(rec: &mut Rec, n: u64, o: i32) {
    rec.eval();
    let raw = n as i128 + o as i128 * NS;
    let local = raw.rem_euclid(DN as i128) as u64;
    let cls: &'static str = if raw < 0 { "time/wraps-below-midnight" } else if raw >= DN as i128 { "time/wraps-past-midnight" } else { "time/no-wrap" };
    rec.bin(cls);
    if local == 0 && o != 0 {
        rec.bin("time/local-reading-exactly-midnight");
    }
    rec.nontrivial(hash_i128s(&[n as i128, o as i128, 1]));
    rec.api("Time::set_offset");
    rec.api("Time::as_offset");
    let wit = |obs: Value| json!({"time_as_nanos": n, "offset": o, "model_local_nanos": local, "class": cls, "observed": obs});
    let Some((base, _)) = sane_time(n, 0) else {
        rec.bin(SKIP_START);
        return;
    };
    let Some((shifted, _)) = sane_time(local, 0) else {
        rec.bin(SKIP_EXPECTED);
        return;
    };
    let cmp_sane = trap(|| base == base && base.cmp(&base) == Ordering::Equal && base.nanos_since(&base) == 0).unwrap_or(false);
    let tg = |x: &Time| (x.hour(), x.minute(), x.second(), x.milli(), x.micro(), x.nano());
    let r = trap(|| {
        let x = base.set_offset(Offset::Fixed(o));
        let y = base.as_offset(Offset::Fixed(o));
        let yg = (y.hour(), y.minute(), y.second(), y.nano());
        let bg = (base.hour(), base.minute(), base.second(), base.nano());
        (x.as_nanos(), x.get_offset(), tg(&x), tg(&shifted), x == base, x.cmp(&base), x.nanos_since(&base), x.format("HH mm ss nnnnn xxxxx"), format!("{} {}", shifted.format("HH mm ss nnnnn"), fmt_offset_x5(o)), y, y.get_offset(), yg, bg)
    });
    match r {
        Err(p) => rec.violation(format!("C10|time|set_offset/getters/as_offset|panic|{},{}", p.class, p.site()), || wit(p.to_json())),
        Ok((xn, xo, g, mg, eq, c, ns, fmt, want, y, yo, yg, bg)) => {
            if xn != n || (cmp_sane && (!eq || c != Ordering::Equal || ns != 0)) {
                rec.violation(format!("C10|time|set_offset|stored-time-changed|{}", cls), || wit(json!({"as_nanos": xn, "eq": eq, "nanos_since": ns})));
            }
            if xo != Offset::Fixed(o) {
                rec.violation("C10|time|get_offset|not-what-was-set".to_string(), || wit(json!({"get_offset": format!("{:?}", xo)})));
            }
            if g != mg {
                rec.violation(format!("C10|time|getters|not-the-shifted-time|{}", cls), || wit(json!({"getters": format!("{:?}", g), "getters of the offset-free shifted time": format!("{:?}", mg)})));
            }
            if fmt != want {
                rec.violation(format!("C10|time|format|not-the-shifted-time|{}", cls), || wit(json!({"expected": want, "observed": fmt})));
            }
            let en = (n as i128 - o as i128 * NS).rem_euclid(DN as i128) as u64;
            let moved = match diff_time(&y, en, o) {
                Ok(TDiff::Skip) => {
                    rec.bin(SKIP_EXPECTED);
                    None
                }
                Ok(TDiff::Same) => None,
                Ok(TDiff::Differs(g, e)) => Some(format!("result reads {:?}, independently built expected reads {:?}", g, e)),
                Err(p) => Some(format!("unreadable: {}", p.msg)),
            };
            for o1 in [o, ((o as i64 * 7 + 12_345).rem_euclid(172_799) - 86_399) as i32] {
                rec.api("Time::as_offset (receiver already carrying an offset)");
                match trap(|| base.set_offset(Offset::Fixed(o1)).as_offset(Offset::Fixed(o))) {
                    Err(p) => rec.violation(format!("C10|time|as_offset-on-offset-value|panic|{},{}", p.class, p.site()), || wit(json!({"receiver_offset": o1, "panic": p.to_json()}))),
                    Ok(y1) => match diff_time(&y1, en, o) {
                        Ok(TDiff::Differs(g, e)) => rec.violation(format!("C10|time|as_offset-on-offset-value|time-not-moved-by-minus-offset|receiver-offset-{}", if o1 == o { "equal" } else { "different" }), || wit(json!({"receiver_offset": o1, "result_reads": format!("{:?}", g), "independently_built_expected_reads": format!("{:?}", e)}))),
                        Err(p) => rec.violation(format!("C10|time|as_offset-on-offset-value|result-unreadable|{},{}", p.class, p.site()), || wit(p.to_json())),
                        _ => {}
                    },
                }
            }
            if moved.is_some() || yo != Offset::Fixed(o) || yg != bg {
                rec.violation(format!("C10|time|as_offset|wrong|{}", cls), || wit(json!({"expected_as_nanos": en, "problem": moved, "fields_before": format!("{:?}", bg), "fields_after": format!("{:?}", yg)})));
            }
        }
    }
    // relations of TWO times (==, cmp, every *_since, duration_between — both directions) read the same before and
    // after offsets are attached: the same offset on both, different offsets, an offset on one side only
    {
        let m = (n.wrapping_mul(2_654_435_761).wrapping_add(86_399_999_999_999)) % DN;
        let m = if (n ^ o as u64) % 3 == 0 { (n + (o.unsigned_abs() as u64 % 7_200) * NS as u64 + 1) % DN } else { m };
        let o2 = ((o as i64 * 7 + 12_345).rem_euclid(172_799) - 86_399) as i32;
        if let Some((other, _)) = sane_time(m, 0) {
            rec.api("Time relations under set_offset (pairs)");
            let rel = |x: &Time, y: &Time| format!("eq={} cmp={:?} ns={} us={} ms={} s={} min={} h={} between={:?}/{:?}", x == y, x.cmp(y), x.nanos_since(y), x.micros_since(y), x.millis_since(y), x.seconds_since(y), x.minutes_since(y), x.hours_since(y), x.duration_between(y), y.duration_between(x));
            match trap(|| rel(&base, &other)) {
                Err(_) => rec.bin(SKIP_START),
                Ok(plain) => {
                    for (oa, ob, kind) in [(o, o, "same-offset"), (o, o2, "different-offsets"), (o, 0, "one-side-only"), (0, o, "other-side-only")] {
                        match trap(|| rel(&base.set_offset(Offset::Fixed(oa)), &other.set_offset(Offset::Fixed(ob)))) {
                            Err(p) => rec.violation(format!("C10|time-pair|relations-under-set_offset|panic|{},{}", p.class, p.site()), || wit(json!({"other_as_nanos": m, "offsets": [oa, ob], "panic": p.to_json()}))),
                            Ok(with) => {
                                if with != plain {
                                    rec.violation(format!("C10|time-pair|relations-changed-by-set_offset|{}", kind), || wit(json!({"other_as_nanos": m, "offsets": [oa, ob], "without_offsets": plain, "with_offsets": with})));
                                }
                            }
                        }
                    }
                }
            }
        }
    }
    if rec.want_sample() {
        rec.sample(|| wit(json!("(see verdict)")));
    }
}

fn judge_offset_ctor(rec: &mut Rec, kind: u8, a: i64, b: u32, c: u32) {
    rec.eval();
    let (name, exp): (&'static str, Option<i32>) = match kind {
        0 => ("Offset::from_seconds", if a.abs() <= 86_399 { Some(a as i32) } else { None }),
        _ => ("Offset::from_hms", if (-23..=23).contains(&a) && b <= 59 && c <= 59 {
            let s = (a.abs() * 3600 + b as i64 * 60 + c as i64) as i32;
            Some(if a < 0 { -s } else { s })
        } else {
            None
        }),
    };
    rec.api(name);
    rec.bin(if exp.is_some() { "offset-ctor/accept" } else { "offset-ctor/reject" });
    rec.nontrivial(hash_i128s(&[kind as i128, a as i128, b as i128, c as i128, 5]));
    let r = trap(|| {
        let o = if kind == 0 { Offset::from_seconds(a as i32) } else { Offset::from_hms(a as i32, b, c) };
        o.map(|o| (o.resolve(), o.resolve_hms(), o))
    });
    let wit = |obs: Value| json!({"call": if kind == 0 { format!("{}({})", name, a) } else { format!("{}({}, {}, {})", name, a, b, c) }, "model_seconds": exp, "observed": obs});
    match (r, exp) {
        (Err(p), _) => rec.violation(format!("C10|offset|{}|panic|{},{}", name, p.class, p.site()), || wit(p.to_json())),
        (Ok(Ok((s, hms, o))), Some(e)) => {
            if s != e || o != Offset::Fixed(e) {
                rec.violation(format!("C10|offset|{}|resolve-differs", name), || wit(json!({"resolve": s, "value": format!("{:?}", o)})));
            }
            if kind == 1 && hms != (a as i32, b, c) {
                rec.violation(format!("C10|offset|{}|resolve_hms-differs", name), || wit(json!({"resolve_hms": format!("{:?}", hms)})));
            }
            if kind == 0 {
                // what was given, re-assembled: sign carried by the hour when it is non-zero
                let back = hms.0 as i64 * 3600 + if s < 0 { -1 } else { 1 } * (hms.1 as i64 * 60 + hms.2 as i64);
                if back != e as i64 || hms.1 > 59 || hms.2 > 59 {
                    rec.violation(format!("C10|offset|{}|resolve_hms-inconsistent", name), || wit(json!({"resolve_hms": format!("{:?}", hms)})));
                }
            }
        }
        (Ok(Ok((s, _, _))), None) => rec.violation(format!("C10|offset|{}|accepted-out-of-range", name), || wit(json!({"resolve": s}))),
        (Ok(Err(e)), Some(_)) => rec.violation(format!("C10|offset|{}|refused-in-range", name), || wit(json!({"error": e.to_string()}))),
        (Ok(Err(e)), None) => {
            if !matches!(e, AstrolabeError::OutOfRange(_)) {
                rec.violation(format!("C10|offset|{}|wrong-error-kind", name), || wit(json!({"error": format!("{:?}", e)})));
            }
        }
    }
}

fn strat_instants(seed: u64, n: usize) -> Vec<i128> {
    let mut rng = Rng::new(seed ^ hash_str("C10-instants"));
    let mut v: Vec<i128> = vec![
        0,
        -1,
        D - 1,
        cal::days_from_civil(2024, 2, 29) as i128 * D + 43_200 * NS + 123_456_789,
        cal::days_from_civil(2022, 12, 31) as i128 * D + 86_399 * NS + 999_999_999,
        cal::days_from_civil(2023, 1, 1) as i128 * D,
        cal::days_from_civil(1970, 1, 1) as i128 * D + 1,
        cal::days_from_civil(-4, 3, 1) as i128 * D + 3_600 * NS,
        MIN_INSTANT + D,
        MAX_INSTANT - D,
    ];
    while v.len() < n {
        v.push(super::c09::gen_c09_instant(&mut rng).clamp(MIN_INSTANT + D, MAX_INSTANT - D));
    }
    v.truncate(n);
    v
}

pub fn run(ctx: &Ctx) -> PropResult {
    let per = ctx.n(4, 64) as usize;
    let instants = strat_instants(ctx.seed, per);
    let ir = &instants;
    let mut wls = vec![];
    let n_off: u64 = 172_799;
    wls.push(Workload::cases("all_offsets_x_instants", n_off * per as u64, move |rec, idx, _| {
        let o = (idx % n_off) as i32 - 86_399;
        let i = ir[(idx / n_off) as usize];
        judge_dt(rec, i, o);
    }));
    wls.push(Workload::cases("random_instant_offset", ctx.count(150_000, 1_000_000), |rec, _, rng| {
        let i = match rng.below(3) {
            0 => super::c09::gen_c09_instant(rng).clamp(MIN_INSTANT + D, MAX_INSTANT - D),
            _ => gen_instant(rng, 1).0,
        };
        judge_dt(rec, i, super::c09::gen_c09_offset(rng, i));
    }));
    wls.push(Workload::cases("fields_in_random_company_and_rfc3339", ctx.count(250_000, 4_000_000), |rec, _, rng| {
        let i = match rng.below(4) {
            0 => super::c09::gen_c09_instant(rng).clamp(MIN_INSTANT + D, MAX_INSTANT - D),
            // within a day of 0001-01-01 / of a year end: where the offset carries the local reading across a field boundary
            1 => *rng.pick(&[0i128, cal::days_from_civil(2023, 1, 1) as i128 * D, cal::days_from_civil(-4, 1, 1) as i128 * D, cal::days_from_civil(2024, 3, 1) as i128 * D, cal::days_from_civil(10_000, 1, 1) as i128 * D, cal::days_from_civil(1, 1, 1) as i128 * D]) + rng.range_i128(-D, D),
            _ => gen_instant(rng, 1).0,
        };
        let o = super::c09::gen_c09_offset(rng, i);
        judge_dt_company(rec, rng, i, o);
    }));
    wls.push(Workload::cases("pairs_under_different_offsets", ctx.count(60_000, 1_000_000), |rec, _, rng| {
        let p = super::pairs::gen_pair(rng);
        let (lo, hi) = (MIN_INSTANT + 2 * D, MAX_INSTANT - 2 * D);
        // half of the pairs closer together than the two offsets differ: where a comparison made on local readings
        // instead of instants gets the order wrong
        let j = if rng.chance(1, 2) { (p.i + rng.range_i128(-172_800, 172_800) * NS + rng.range_i128(0, NS - 1)).clamp(lo, hi) } else { p.j };
        judge_dt_pair(rec, p.i.clamp(lo, hi), j, p.o1, p.o2);
    }));
    let tper = ctx.n(2, 16);
    wls.push(Workload::cases("time_all_offsets", n_off * tper, move |rec, idx, rng| {
        let o = (idx % n_off) as i32 - 86_399;
        let n = match (idx / n_off) % 4 {
            0 if idx % 2 == 0 => {
                // local reading exactly at midnight, or one nanosecond either side
                ((DN as i128 - o as i128 * NS + *rng.pick(&[-1i128, 0, 0, 1])).rem_euclid(DN as i128)) as u64
            }
            0 => *rng.pick(&[0u64, 1, DN - 1, DN / 2]),
            1 => rng.below(86_400) * 1_000_000_000 + *rng.pick(&[0u64, 999_999_999]),
            _ => rng.below(DN),
        };
        judge_time(rec, n, o);
    }));
    wls.push(Workload::cases("offset_constructors_all_seconds", 2 * 86_400 + 41, |rec, idx, _| {
        judge_offset_ctor(rec, 0, idx as i64 - 86_420, 0, 0);
    }));
    wls.push(Workload::cases("offset_constructors_grid", 1, |rec, _, _| {
        for s in [i32::MIN as i64, i32::MIN as i64 + 1, -(1i64 << 30), -172_800, -172_799, 172_799, 172_800, 1 << 30, i32::MAX as i64 - 1, i32::MAX as i64] {
            judge_offset_ctor(rec, 0, s, 0, 0);
        }
        let hs = [i32::MIN as i64, -(1i64 << 31) + 1, -25, -24, -23, -22, -1, 0, 1, 22, 23, 24, 25, 1_193_046, i32::MAX as i64];
        let ms = [0u32, 1, 30, 58, 59, 60, 61, 255, 71_582_788, 1 << 31, u32::MAX];
        for &h in hs.iter() {
            for &m in ms.iter() {
                for &s in ms.iter() {
                    judge_offset_ctor(rec, 1, h, m, s);
                }
            }
        }
        for h in -23..=23i64 {
            for m in [0u32, 1, 29, 30, 59] {
                for s in [0u32, 1, 30, 59] {
                    judge_offset_ctor(rec, 1, h, m, s);
                }
            }
        }
    }));
    wls.push(Workload::cases("api_walks", ctx.count(30_000, 1_500_000), |rec, _, rng| super::walk::walk(rec, rng, "C10", super::walk::Family::Offsets)));
    wls.push(Workload::cases("trait_dispatch_vs_method_syntax", ctx.count(8_000, 200_000), |rec, _, rng| super::ufcs::case(rec, rng, "C10")));
    let out = run_workloads(ctx, wls);
    let mut meta = PropMeta::default();
    meta.exhaustive = true;
    meta.rule = format!(
        "Fields in random company: the value carrying the offset and the independently built offset-free value of instant+offset are formatted with the same pattern of 1–7 distinct symbols (any widths, any order, several separators, each symbol also alone) and must print the same; format_rfc3339 at all five precisions must print the date-time of instant+offset (seconds of the offset included) and the zone designator that XXX prints (years 0001–9999). ALL 172 799 offsets x {} stratified instants (era boundary, leap day, year end, range ends ∓1 day, month ends, end-of-day times) + random (instant, offset) pairs incl. the offsets that carry the local date across midnight; per case: set_offset keeps instant/timestamp/==/cmp/*_since/duration, get_offset, all 11 getters and format(\"{}\") equal the model fields of instant+offset, as_offset keeps the displayed fields and moves the instant by −offset. Time: all offsets x {} times (wrap-around both ways). Time additionally at stored times whose local reading is exactly midnight ± 1 ns for each offset; random API walks with judged set_offset/as_offset steps. Offset::from_seconds over every integer in −86 420..=86 420 + extremes; from_hms grids; resolve/resolve_hms return what was given. Non-trivial = the local date differs from the UTC date or the offset has seconds (DateTime); every Time/constructor case. Distinct by input hash. (exhaustive over the offset domain, sampled over instants) as_offset is also applied to receivers that already carry an offset (the same one and a different one): the instant must move by minus the new offset whatever the receiver carried. to_string() is compared with the shifted value's as well; relations of TWO instants (==, cmp, all *_since, duration_between, timestamps) read the same before and after attaching different offsets, half of the pairs closer together than the offsets differ. Time pairs: ==, cmp, the six *_since and duration_between (both directions) of two times read the same with the same offset on both, different offsets, or an offset on one side only.",
        per, PATTERN, tper
    );
    meta.rule.push_str(" The property's trait methods are also called through the trait (generic code / UFCS) and must agree with method syntax on the same operands (a type may grow inherent twins of its trait methods).");
    meta.required_bins = vec!["trait-dispatch/compared", 
        "pair/relations-unchanged-by-offsets", "company/one-symbol-alone", "company/no-calendar-field", "company/no-clock-field", "company/calendar-and-clock-fields", "rfc3339/fields-compared",
        "shift/across-0001-01-01", "shift/across-year-end", "shift/across-month-end", "shift/across-midnight", "shift/same-date",
        "offset/with-seconds", "offset/with-minutes", "offset/whole-hours", "time/wraps-below-midnight", "time/wraps-past-midnight", "time/no-wrap",
        "offset-ctor/accept", "offset-ctor/reject", "walk/with-judged-steps", "time/local-reading-exactly-midnight",
    ];
    meta.assumptions = vec!["instants built/read as in C03".into()];
    let _ = DateTime::default();
    Ok((meta, out))
}
