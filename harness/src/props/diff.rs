//! Differential judgement helpers shared by the monitors: a result is compared with an
//! independently constructed value of the instant the model expects, through every read-out route,
//! and only when the inputs and that expected value are themselves "sane" (model::instant). A defect
//! in a constructor or read-out that another property owns therefore makes this property's cases
//! *skipped* (counted in a bin), not failed.

use crate::core::*;
use crate::model::calendar as cal;
use crate::model::instant::*;
use astrolabe::{Date, DateTime, DateUtilities};
use serde_json::{json, Value};

pub const SKIP_START: &str = "skipped/start-value-not-trustworthy(other-property)";
pub const SKIP_EXPECTED: &str = "skipped/expected-value-not-trustworthy(other-property)";

/// What the model demands of an operation.
#[allow(dead_code)]
pub enum Expect {
    /// must return a value equal, through every route, to the canonical value at (instant, offset)
    Value(i128, i32),
    /// must refuse (panic or Err)
    Refuse,
    /// either is acceptable (under-specified): only panics of class Arith/Index/Unwrap matter to C14, not here
    Any,
}

/// Outcome of running the operation.
#[allow(dead_code)]
pub enum Ran {
    Returned(DateTime),
    /// returned Err(..) — a refusal
    Refused,
}

/// Runs `op` on the sane start value and judges it. `sig` = "Cnn|monitor|API". Returns true if judged.
pub fn judge_dt<F, W>(rec: &mut Rec, sig: &str, start: (i128, i32), expect: Expect, op: F, wit: W) -> bool
where
    F: FnOnce(&DateTime) -> Ran,
    W: Fn(Value) -> Value,
{
    let Some((s, _)) = sane_value(start.0, start.1) else {
        rec.bin(SKIP_START);
        return false;
    };
    judge_dt_from(rec, sig, &s, expect, op, wit)
}

/// Same, with the start value already built and vetted by the caller.
pub fn judge_dt_from<F, W>(rec: &mut Rec, sig: &str, s: &DateTime, expect: Expect, op: F, wit: W) -> bool
where
    F: FnOnce(&DateTime) -> Ran,
    W: Fn(Value) -> Value,
{
    let r = trap(|| op(s));
    match (r, expect) {
        (_, Expect::Any) => {
            rec.outcome("unspecified");
            false
        }
        (Err(p), Expect::Refuse) => {
            rec.outcome(if p.class == "Arith" { "refused(panic-arith)" } else { "refused(panic)" });
            true
        }
        (Ok(Ran::Refused), Expect::Refuse) => {
            rec.outcome("refused(Err)");
            true
        }
        (Err(p), Expect::Value(..)) => {
            rec.outcome("panic");
            rec.violation(format!("{}|panic-when-representable|{},{}", sig, p.class, p.site()), || wit(p.to_json()));
            true
        }
        (Ok(Ran::Refused), Expect::Value(..)) => {
            rec.outcome("refused(Err)");
            rec.violation(format!("{}|refused-valid", sig), || wit(json!("Err")));
            true
        }
        (Ok(Ran::Returned(res)), Expect::Refuse) => {
            rec.outcome("value");
            let got = trap(|| read(&res)).map(show).unwrap_or_else(|_| "(unreadable)".into());
            rec.violation(format!("{}|returned-when-unrepresentable", sig), || wit(json!({"instant": got})));
            true
        }
        (Ok(Ran::Returned(res)), Expect::Value(t, o)) => {
            rec.outcome("value");
            match diff_with_expected(&res, t, o) {
                Ok(Diff::Skip) => {
                    rec.bin(SKIP_EXPECTED);
                    false
                }
                Ok(Diff::Same) => true,
                Ok(Diff::Differs(got, exp)) => {
                    let kind = got.first_difference(&exp);
                    rec.violation(format!("{}|{}", sig, kind), || wit(json!({"result_reads": got.to_json(), "independently_built_expected_reads": exp.to_json(), "off_by_ns": (got.ns_since - exp.ns_since).to_string()})));
                    true
                }
                Err(p) => {
                    rec.violation(format!("{}|result-unreadable|{},{}", sig, p.class, p.site()), || wit(p.to_json()));
                    true
                }
            }
        }
    }
}

// ---- values whose local reading lies beyond a range end ---------------------------------------------

/// A DateTime whose UTC instant is representable but whose *local* reading is not (within |offset| of a range end,
/// the offset pointing outwards).  `set_offset` refuses to build such a value; it arises when a value that already
/// carries the offset is moved there — here with add_/sub_seconds from three days inside (arithmetic is C04's: if the
/// value does not arrive with the right instant and offset, None).  Its getters and `format` cannot work, but
/// everything defined on the UTC instant (ordering, differences, further arithmetic, timestamp) must.
/// Returns (value, instant, offset, at_the_high_end).
pub fn outward_value(rng: &mut Rng) -> Option<(DateTime, i128, i32, bool)> {
    use astrolabe::{OffsetUtilities, TimeUtilities};
    let off = match rng.below(3) {
        0 => *rng.pick(&[3600i32, 7200, 86_399, 1, 43_200, 19_800]),
        _ => 1 + rng.below(86_399) as i32,
    };
    let high = rng.chance(1, 2);
    let off = if high { off } else { -off };
    let depth = rng.range_i128(0, off.unsigned_abs() as i128 * NS - 1);
    let i = if high { MAX_INSTANT - depth } else { MIN_INSTANT + depth };
    let back: i128 = 3 * 86_400;
    let i0 = if high { i - back * NS } else { i + back * NS };
    let (a0, _) = sane_value(i0, off)?;
    let a = trap(|| if high { a0.add_seconds(back as u32) } else { a0.sub_seconds(back as u32) }).ok()?;
    let ok = trap(|| read(&a) == i && a.get_offset() == astrolabe::Offset::Fixed(off)).unwrap_or(false);
    if ok {
        Some((a, i, off, high))
    } else {
        None
    }
}

/// What can be read of such a value without touching its local fields.
pub fn utc_reads(d: &DateTime) -> String {
    use astrolabe::OffsetUtilities;
    format!("nanos_since={} timestamp={} offset={:?} as_ymdhms={:?}", read(d), d.timestamp(), d.get_offset(), d.as_ymdhms())
}

// ---- Date -----------------------------------------------------------------------------------------

/// Date for the model day number, only if from_timestamp/timestamp/as_ymd agree with the model there.
pub fn sane_date(day: i64) -> Option<Date> {
    if !(cal::MIN_DAY..=cal::MAX_DAY).contains(&day) {
        return None;
    }
    let ts = (day - cal::DAYS_TO_1970) * 86_400;
    trap(|| {
        let d = Date::from_timestamp(ts);
        let (y, m, dd) = cal::ymd(day);
        if d.timestamp() == ts && d.as_ymd() == (y as i32, m, dd) {
            Some(d)
        } else {
            None
        }
    })
    .ok()
    .flatten()
}

pub enum DateDiff {
    Skip,
    Same,
    Differs(String, String),
}

pub fn date_reads(d: &Date) -> String {
    format!("timestamp={} as_ymd={:?}", d.timestamp(), d.as_ymd())
}

/// Compares a Date result with the independently built Date of the expected day.
pub fn diff_date(res: &Date, day: i64) -> Result<DateDiff, Panic> {
    let Some(e) = sane_date(day) else { return Ok(DateDiff::Skip) };
    trap(|| {
        if *res == e && res.timestamp() == e.timestamp() && res.as_ymd() == e.as_ymd() {
            DateDiff::Same
        } else {
            DateDiff::Differs(date_reads(res), date_reads(&e))
        }
    })
}

// ---- Time -----------------------------------------------------------------------------------------

/// What the API says about one Time value (one entry per read-out route).
#[derive(Clone, Debug, PartialEq)]
pub struct TObs {
    pub as_nanos: u64,
    pub off: Option<i32>,
    pub hms: (u32, u32, u32),
    /// local getters: hour minute second milli micro nano
    pub local: (u32, u32, u32, u32, u32, u32),
    /// routes masked (bit 0 as_hms, bits 1..=6 the six getters): see model::instant::Obs::masked
    pub masked: u8,
}

pub const TROUTE_NAMES: [&str; 7] = ["Time::as_hms", "Time::hour", "Time::minute", "Time::second", "Time::milli", "Time::micro", "Time::nano"];
pub static TROUTE_MASKED: [std::sync::atomic::AtomicU64; 7] = [const { std::sync::atomic::AtomicU64::new(0) }; 7];

pub fn tobserve(t: &astrolabe::Time) -> TObs {
    use astrolabe::TimeUtilities;
    TObs { as_nanos: t.as_nanos(), off: time_offset_secs(t), hms: t.as_hms(), local: (t.hour(), t.minute(), t.second(), t.milli(), t.micro(), t.nano()), masked: 0 }
}

pub fn model_tobserve(n: u64, off: i32) -> TObs {
    const DN: i128 = 86_400_000_000_000;
    let l = (n as i128 + off as i128 * NS).rem_euclid(DN) as u64;
    let s = (l / 1_000_000_000) as u32;
    let sub = (l % 1_000_000_000) as u32;
    let us = (n / 1_000_000_000) as u32;
    TObs { as_nanos: n, off: Some(off), hms: (us / 3600, us / 60 % 60, us % 60), local: (s / 3600, s / 60 % 60, s % 60, sub / 1_000_000, sub / 1_000, sub), masked: 0 }
}

impl TObs {
    fn arr(&self) -> [u32; 6] {
        [self.local.0, self.local.1, self.local.2, self.local.3, self.local.4, self.local.5]
    }
    fn mismatch_bits(&self, m: &TObs) -> u8 {
        let mut b = 0u8;
        if self.hms != m.hms {
            b |= 1;
        }
        let (a, c) = (self.arr(), m.arr());
        for k in 0..6 {
            if a[k] != c[k] {
                b |= 1 << (k + 1);
            }
        }
        b
    }
    fn neutralize(&mut self, masked: u8) {
        self.masked = masked;
        if masked & 1 != 0 {
            self.hms = (0, 0, 0);
        }
        let mut a = self.arr();
        for k in 0..6 {
            if masked & (1 << (k + 1)) != 0 {
                a[k] = 0;
            }
        }
        self.local = (a[0], a[1], a[2], a[3], a[4], a[5]);
    }
}

/// Time of day `n` ns (UTC) carrying `off`, if it is trustworthy there: the stored nanoseconds and the offset read
/// back (the structural routes); a getter or as_hms that disagrees with the model at this very value is masked.
pub fn sane_time(n: u64, off: i32) -> Option<(astrolabe::Time, TObs)> {
    use astrolabe::OffsetUtilities;
    trap(|| {
        let t = astrolabe::Time::from_nanos(n).ok()?.set_offset(astrolabe::Offset::Fixed(off));
        let mut o = tobserve(&t);
        let m = model_tobserve(n, off);
        if o.as_nanos != m.as_nanos || o.off != m.off {
            return None;
        }
        let bits = o.mismatch_bits(&m);
        if bits != 0 {
            for k in 0..7 {
                if bits & (1 << k) != 0 {
                    TROUTE_MASKED[k].fetch_add(1, std::sync::atomic::Ordering::Relaxed);
                }
            }
            o.neutralize(bits);
        }
        Some((t, o))
    })
    .ok()
    .flatten()
}

pub enum TDiff {
    Skip,
    Same,
    Differs(TObs, TObs),
}

pub fn diff_time(res: &astrolabe::Time, n: u64, off: i32) -> Result<TDiff, Panic> {
    let Some((_, e)) = sane_time(n, off) else { return Ok(TDiff::Skip) };
    let mut g = trap(|| tobserve(res))?;
    g.neutralize(e.masked);
    Ok(if g == e { TDiff::Same } else { TDiff::Differs(g, e) })
}

// ---- values returned by the code under test, read only if they are canonical --------------------------

/// The instant of a returned value, if the value reads exactly like an independently built value of
/// that instant and offset; None = the read-out cannot be trusted here (another property's defect).
pub fn read_checked(d: &DateTime) -> Option<i128> {
    let (i, off) = trap(|| (read(d), offset_secs(d))).ok()?;
    match diff_with_expected(d, i, off?) {
        Ok(Diff::Same) => Some(i),
        _ => None,
    }
}
