//! C14 — text-consuming APIs return a Result for every input and never panic.

use super::c11::gen_fmt_value;
use super::PropResult;
use crate::core::*;
use crate::model::calendar as cal;
use crate::model::fmt_spec::Kind;
use crate::model::instant::*;
use crate::model::pattern_gen::{self, ValueFacts};
use astrolabe::{CronSchedule, Date, DateTime, DateUtilities, Offset, OffsetUtilities, Time, TimeUtilities};
use serde_json::json;
use std::str::FromStr;

const ALPHABET: [&str; 12] = ["0", "1", "9", "-", "+", "a", "Z", ":", "é", "'", " ", "."];

fn kind_name(k: Kind) -> &'static str {
    match k {
        Kind::DateTime => "DateTime",
        Kind::Date => "Date",
        Kind::Time => "Time",
    }
}

/// Parses and, when a value comes back, pokes at it: every getter, timestamp, a format call.
fn parse_and_probe(kind: Kind, input: &str, pattern: &str) -> Result<bool, String> {
    match kind {
        Kind::DateTime => match DateTime::parse(input, pattern) {
            Ok(v) => {
                let _ = (v.year(), v.month(), v.day(), v.day_of_year(), v.weekday(), v.hour(), v.minute(), v.second(), v.nano(), v.timestamp());
                let _ = v.format("yyyy-MM-dd HH:mm:ss.nnnnn xxxxx e w");
                let _ = v.to_string();
                let t = Time::from(v);
                if t.as_nanos() >= 86_400_000_000_000 {
                    return Err("Ok value with out-of-day nanoseconds".into());
                }
                Ok(true)
            }
            Err(_) => Ok(false),
        },
        Kind::Date => match Date::parse(input, pattern) {
            Ok(v) => {
                let _ = (v.year(), v.month(), v.day(), v.day_of_year(), v.weekday(), v.timestamp());
                let _ = v.format("yyyy-MM-dd e w D");
                let (y, m, d) = v.as_ymd();
                if !cal::valid_display(y as i64, m, d) {
                    return Err(format!("Ok value that is not a calendar date: {:?}", (y, m, d)));
                }
                Ok(true)
            }
            Err(_) => Ok(false),
        },
        Kind::Time => match Time::parse(input, pattern) {
            Ok(v) => {
                let _ = (v.hour(), v.minute(), v.second(), v.nano());
                let _ = v.format("HH:mm:ss.nnnnn xxxxx");
                if v.as_nanos() >= 86_400_000_000_000 {
                    return Err(format!("Ok value with as_nanos() = {} >= 24 h", v.as_nanos()));
                }
                Ok(true)
            }
            Err(_) => Ok(false),
        },
    }
}

fn judge_parse(rec: &mut Rec, kind: Kind, input: &str, pattern: &str, tag: &'static str) {
    rec.eval();
    rec.api(match kind {
        Kind::DateTime => "DateTime::parse",
        Kind::Date => "Date::parse",
        Kind::Time => "Time::parse",
    });
    let r = trap(|| parse_and_probe(kind, input, pattern));
    match r {
        Ok(Ok(true)) => rec.outcome("ok"),
        Ok(Ok(false)) => rec.outcome("err"),
        Ok(Err(why)) => rec.violation(format!("C14|{}::parse|ok-but-invalid-value|{}", kind_name(kind), tag), || json!({"input": truncate(input, 200), "pattern": truncate(pattern, 200), "why": why})),
        Err(p) => {
            rec.outcome("panic");
            rec.violation(format!("C14|{}::parse|panic|{},{}", kind_name(kind), p.class, p.site()), || json!({"input": truncate(input, 200), "pattern": truncate(pattern, 200), "workload": tag, "panic": p.to_json()}));
        }
    }
}

fn sample_values() -> Vec<(i128, i32)> {
    vec![
        (0, 0),
        (-1, 0),
        (cal::days_from_civil(2022, 5, 2) as i128 * D + 45_121 * NS + 123_456_789, 3600),
        (cal::days_from_civil(-4, 2, 29) as i128 * D + 43_200 * NS, -86_399),
        (MIN_INSTANT + D, 0),
        (MAX_INSTANT - D, 86_399),
        (cal::days_from_civil(9999, 12, 31) as i128 * D + D - 1, -3600 - 1),
    ]
}

fn judge_format(rec: &mut Rec, pattern: &str, vi: usize, vals: &[(i128, i32)], tag: &'static str) {
    let (i, off) = vals[vi % vals.len()];
    for kind in [Kind::DateTime, Kind::Date, Kind::Time] {
        rec.eval();
        rec.api(match kind {
            Kind::DateTime => "DateTime::format",
            Kind::Date => "Date::format",
            Kind::Time => "Time::format",
        });
        let r = trap(|| super::c11::lib_format(kind, i, off, pattern).len());
        match r {
            Ok(_) => rec.outcome("string"),
            Err(p) => {
                rec.outcome("panic");
                rec.violation(format!("C14|{}::format|panic|{},{}", kind_name(kind), p.class, p.site()), || json!({"pattern": truncate(pattern, 200), "value_utc": show(i), "offset": off, "workload": tag, "panic": p.to_json()}));
            }
        }
    }
}

fn nth_string(mut idx: u64, alphabet: &[&str], max_len: u32) -> String {
    // enumerates all strings of length 0..=max_len over the alphabet
    let k = alphabet.len() as u64;
    let mut len = 0u32;
    let mut block = 1u64;
    while idx >= block {
        idx -= block;
        block *= k;
        len += 1;
        if len > max_len {
            return String::new();
        }
    }
    let mut s = String::new();
    for _ in 0..len {
        s.push_str(alphabet[(idx % k) as usize]);
        idx /= k;
    }
    s
}

fn count_strings(k: u64, max_len: u32) -> u64 {
    (0..=max_len).map(|l| k.pow(l)).sum()
}

const JUNK: [&str; 22] = ["é", "日", "\u{1F570}", "-", "+", ":", "Z", "T", ".", "99", "a", " ", "0", "'", "''", "/", ",", "\u{0}", "PM", "12", "*", "z"];

pub fn mutate(rng: &mut Rng, s: &str, n_max: u64) -> String {
    let mut cs: Vec<char> = s.chars().collect();
    let n = 1 + rng.below(n_max);
    for _ in 0..n {
        let pos = rng.below(cs.len() as u64 + 1) as usize;
        match rng.below(5) {
            0 if !cs.is_empty() => {
                cs.remove(pos.min(cs.len() - 1));
            }
            1 | 2 => {
                for (k, c) in rng.pick(&JUNK).chars().enumerate() {
                    cs.insert((pos + k).min(cs.len()), c);
                }
            }
            3 if !cs.is_empty() => {
                let p = pos.min(cs.len() - 1);
                cs[p] = rng.pick(&JUNK).chars().next().unwrap();
            }
            _ => cs.truncate(pos),
        }
    }
    cs.into_iter().collect()
}

fn judge_rfc(rec: &mut Rec, text: &str) {
    rec.eval();
    rec.api("DateTime::parse_rfc3339/from_str");
    let r = trap(|| {
        let a = DateTime::parse_rfc3339(text);
        let b = DateTime::from_str(text);
        if let Ok(v) = &a {
            let _ = (v.year(), v.hour(), v.timestamp(), v.to_string(), v.format("yyyy-MM-ddTHH:mm:ss.nnnnnXXX"));
        }
        (a.is_ok(), b.is_ok())
    });
    match r {
        Ok((a, b)) => {
            rec.outcome(if a { "ok" } else { "err" });
            let _ = b;
        }
        Err(p) => {
            rec.outcome("panic");
            rec.violation(format!("C14|DateTime::parse_rfc3339|panic|{},{}", p.class, p.site()), || json!({"text": truncate(text, 300), "panic": p.to_json()}));
        }
    }
}

fn judge_from_str(rec: &mut Rec, text: &str) {
    rec.eval();
    rec.api("Date::from_str/Time::from_str");
    let r = trap(|| (Date::from_str(text).is_ok(), Time::from_str(text).map(|t| t.as_nanos()).ok()));
    match r {
        Ok((_, t)) => {
            if let Some(n) = t {
                if n >= 86_400_000_000_000 {
                    rec.violation("C14|Time::from_str|ok-but-invalid-value".to_string(), || json!({"text": text, "as_nanos": n}));
                }
            }
        }
        Err(p) => rec.violation(format!("C14|Date/Time::from_str|panic|{},{}", p.class, p.site()), || json!({"text": truncate(text, 300), "panic": p.to_json()})),
    }
}

fn judge_cron(rec: &mut Rec, text: &str) {
    rec.eval();
    rec.api("CronSchedule::parse/from_str");
    let r = trap(|| (CronSchedule::parse(text).is_ok(), CronSchedule::from_str(text).is_ok()));
    match r {
        Ok((a, b)) => {
            rec.outcome(if a { "ok" } else { "err" });
            let _ = b;
        }
        Err(p) => {
            rec.outcome("panic");
            rec.violation(format!("C14|CronSchedule::parse|panic|{},{}", p.class, p.site()), || json!({"expression": truncate(text, 300), "panic": p.to_json()}));
        }
    }
}

const CRON_BASE: [&str; 12] = [
    "* * * * *", "*/5 * * * *", "0 10 * * Mon-Fri", "0,30 0-23/2 1,15 jan-dec sun", "59 23 31 12 7", "1-5 */3 */31 DEC 0-6", "0 0 29 feb *", "*/59 */23 1-31 1-12 0-7", "5 4 * * sun",
    "0 0 1 1 *", "15,45 8-18 * * 1-5", "0 */255 * * *",
];

pub fn run(ctx: &Ctx) -> PropResult {
    let strad: Vec<String> = { let mut v = straddlers(1_100); v.extend(straddlers(4_200).into_iter().take(2)); v.extend(straddlers(66_000).into_iter().take(2)); v };
    let sr = &strad;
    let vals = sample_values();
    let vr = &vals;
    // (2c) structural edits of well-formed default-form texts: EVERY deletion of 1..=7 consecutive characters and every
    // duplication of 1..=3 (a dropped seconds field, a doubled colon, a missing sign …) for RFC 3339, yyyy-MM-dd, HH:mm:ss
    let bases: [&str; 14] = [
        "2022-05-02T15:30:20Z", "2022-05-02T15:30:20+01:00", "2022-05-02T15:30:20-00:30", "2022-05-02T15:30:20.5Z", "2022-05-02T15:30:20.123456789+23:59",
        "0001-01-01T00:00:00Z", "9999-12-31T23:59:59.999999999-23:59", "2024-02-29T12:00:00.000+00:00", "2022-05-02T15:30:20.1234567891234567890123Z",
        "2022-05-02", "-0044-03-15", "10000-01-01", "15:30:20", "00:00:00",
    ];
    let mut edits: Vec<(usize, usize, usize, bool)> = vec![];
    for (bi, b) in bases.iter().enumerate() {
        let n = b.chars().count();
        for start in 0..n {
            for len in 1..=7usize {
                if start + len <= n {
                    edits.push((bi, start, len, false));
                }
            }
            for len in 1..=3usize {
                if start + len <= n {
                    edits.push((bi, start, len, true));
                }
            }
        }
    }
    let mut wls: Vec<Workload> = vec![];

    // (1) exhaustive: each symbol x width x every short input over a hostile alphabet
    let mut combos: Vec<(char, usize)> = vec![];
    for c in "GyqMwdDeabhHKkmsnXx".chars() {
        let maxw = if c == 'e' { 9 } else { 6 };
        for w in 1..=maxw {
            combos.push((c, w));
        }
    }
    let max_len = ctx.n(3, 5) as u32;
    let per = count_strings(12, max_len);
    let cr = combos.clone();
    wls.push(Workload::chunks("exhaustive_single_symbol_x_short_inputs", combos.len() as u64 * per, 4096, move |rec, r| {
        for idx in r {
            let (c, w) = cr[(idx / per) as usize];
            let input = nth_string(idx % per, &ALPHABET, max_len);
            let pattern: String = std::iter::repeat(c).take(w).collect();
            rec.cur_idx = idx;
            for kind in [Kind::DateTime, Kind::Date, Kind::Time] {
                judge_parse(rec, kind, &input, &pattern, "exhaustive-single-symbol");
            }
            if input.chars().count() as u32 == max_len && idx % 997 == 0 {
                rec.nontrivial(hash_str(&input) ^ hash_str(&pattern));
            }
        }
        rec.nontrivial_counted(0);
    }));
    // every (pattern, input) pair above is distinct by construction; count them
    // (2) quote shapes: every pattern of length <= 5 over {' y T é space} x every input of length <= 3
    let pat_alpha: [&str; 5] = ["'", "y", "T", "é", " "];
    let in_alpha: [&str; 6] = ["2", "-", "T", "é", "'", " "];
    let npat = count_strings(5, 5);
    let nin = count_strings(6, ctx.n(2, 3) as u32);
    let in_len = ctx.n(2, 3) as u32;
    wls.push(Workload::chunks("exhaustive_quote_shapes", npat * nin, 2048, move |rec, r| {
        for idx in r {
            let pattern = nth_string(idx / nin, &pat_alpha, 5);
            let input = nth_string(idx % nin, &in_alpha, in_len);
            rec.cur_idx = idx;
            for kind in [Kind::DateTime, Kind::Date, Kind::Time] {
                judge_parse(rec, kind, &input, &pattern, "exhaustive-quote-shapes");
            }
            if idx % nin == 0 {
                judge_format(rec, &pattern, (idx / nin) as usize, vr, "exhaustive-quote-shapes");
            }
        }
    }));
    // (2b) pile-ups: many fields for the SAME component in one pattern (every width of `n`, several hour/year/day
    // symbols …) with every digit at its maximum — each field is in range, their sum or product need not be
    wls.push(Workload::cases("same_component_pile_ups", ctx.count(30_000, 1_000_000), move |rec, idx, rng| {
        let groups: [&[(&str, &str)]; 7] = [
            &[("n", "9"), ("nn", "99"), ("nnn", "999"), ("nnnn", "999999"), ("nnnnn", "999999999"), ("nnnnnnn", "999"), ("nnnnnn", "999")],
            &[("H", "23"), ("HH", "23"), ("h", "12"), ("hh", "12"), ("K", "11"), ("k", "24"), ("kk", "24")],
            &[("y", "5879611"), ("yyyy", "9999"), ("yyyyy", "99999"), ("yyyyyyy", "5879611"), ("yy", "99"), ("y", "-5879611")],
            &[("D", "366"), ("DDD", "366"), ("d", "31"), ("dd", "31"), ("M", "12"), ("MM", "12"), ("DD", "99")],
            &[("s", "59"), ("ss", "59"), ("m", "59"), ("mm", "59"), ("s", "99"), ("mm", "99")],
            &[("xxx", "+23:59"), ("XXXXX", "-23:59:59"), ("x", "+23"), ("xxxx", "-2359"), ("X", "Z"), ("xxxxx", "+99:99:99")],
            &[("a", "PM"), ("b", "noon"), ("aaaa", "p.m."), ("bbbb", "midnight"), ("hh", "12"), ("HH", "00")],
        ];
        let g = groups[rng.below(groups.len() as u64) as usize];
        let all = rng.chance(1, 3);
        let mut pattern = String::new();
        let mut input = String::new();
        let k = if all { g.len() } else { 2 + rng.below(g.len() as u64 - 1) as usize };
        let mut order: Vec<usize> = (0..g.len()).collect();
        for i in (1..order.len()).rev() {
            order.swap(i, rng.below(i as u64 + 1) as usize);
        }
        for (n, gi) in order.into_iter().take(k).enumerate() {
            let sep = if n == 0 { "" } else { *rng.pick(&[" ", " ", "/", "|", "T"]) };
            pattern.push_str(sep);
            input.push_str(sep);
            pattern.push_str(g[gi].0);
            input.push_str(g[gi].1);
        }
        // sometimes a second group behind it
        if rng.chance(1, 3) {
            let g2 = groups[rng.below(groups.len() as u64) as usize];
            for _ in 0..1 + rng.below(3) {
                let (p2, i2) = *rng.pick(g2);
                pattern.push(' ');
                input.push(' ');
                pattern.push_str(p2);
                input.push_str(i2);
            }
        }
        rec.bin("pile-up/same-component-fields");
        rec.nontrivial(hash_str(&input) ^ hash_str(&pattern).rotate_left(9));
        for kind in [Kind::DateTime, Kind::Date, Kind::Time] {
            judge_parse(rec, kind, &input, &pattern, "same-component-pile-up");
        }
        if idx % 4 == 0 {
            judge_format(rec, &pattern, idx as usize, vr, "same-component-pile-up");
        }
    }));
    let er = &edits;
    wls.push(Workload::cases("all_short_deletions_and_duplications_of_default_forms", edits.len() as u64, move |rec, idx, _| {
        let (bi, start, len, dup) = er[idx as usize];
        let cs: Vec<char> = bases[bi].chars().collect();
        let text: String = if dup {
            cs[..start + len].iter().chain(cs[start..].iter()).collect()
        } else {
            cs[..start].iter().chain(cs[start + len..].iter()).collect()
        };
        rec.bin("structural-edit/default-forms");
        rec.nontrivial(hash_str(&text) ^ 0x1414);
        rec.eval();
        let r = trap(|| (DateTime::parse_rfc3339(&text).is_ok(), DateTime::from_str(&text).is_ok(), Date::from_str(&text).is_ok(), Time::from_str(&text).map(|t| t.as_nanos() < 86_400_000_000_000).unwrap_or(true)));
        match r {
            Err(p) => rec.violation(format!("C14|structural-edit|parse_rfc3339/from_str|panic|{},{}", p.class, p.site()), || json!({"text": text, "edit": if dup { "duplicated" } else { "deleted" }, "at": start, "len": len, "base": bases[bi], "panic": p.to_json()})),
            Ok((_, _, _, false)) => rec.violation("C14|structural-edit|Time::from_str|ok-with-invalid-value".to_string(), || json!({"text": text})),
            _ => {}
        }
    }));
    // (3) grammar-aware mutation of real round-trip material
    wls.push(Workload::cases("mutated_roundtrip_material", ctx.count(300_000, 12_000_000), move |rec, idx, rng| {
        let kind = [Kind::DateTime, Kind::Date, Kind::Time][(idx % 3) as usize];
        let (i, off) = gen_fmt_value(rng);
        let off = if kind == Kind::Date { 0 } else { off };
        let v = super::c11::val_of(kind, i, off);
        let info = pattern_gen::gen(rng, kind, &ValueFacts { year: cal::ymd(v.day).0, offset: off });
        let text = match trap(|| super::c11::lib_format(kind, i, off, &info.pattern)) {
            Ok(t) => t,
            Err(p) => {
                rec.violation(format!("C14|{}::format|panic|{},{}", kind_name(kind), p.class, p.site()), || json!({"pattern": info.pattern, "panic": p.to_json()}));
                return;
            }
        };
        let (input, pattern) = match rng.below(4) {
            0 => (mutate(rng, &text, 3), info.pattern.clone()),
            1 => (text.clone(), mutate(rng, &info.pattern, 2)),
            2 => (mutate(rng, &text, 2), mutate(rng, &info.pattern, 2)),
            _ => {
                // truncation at every prefix is the classic: pick one
                let n = text.chars().count();
                (text.chars().take(rng.below(n as u64 + 1) as usize).collect(), info.pattern.clone())
            }
        };
        rec.nontrivial(hash_str(&input) ^ hash_str(&pattern).rotate_left(17));
        judge_parse(rec, kind, &input, &pattern, "mutated-roundtrip");
        if idx % 4 == 0 {
            judge_format(rec, &pattern, idx as usize, vr, "mutated-pattern");
        }
        if rec.want_sample() {
            rec.sample(|| json!({"type": kind_name(kind), "input": input, "pattern": pattern}));
        }
    }));
    // (3b) the same text APIs under a hostile ambient state: the clock pinned at the ends of the range, the era boundary,
    // 2^k units from the epochs … and the system zone redirected to fixed offsets up to ±23:59:59 or a real zone.  A text
    // API that consults the clock (two-digit years) or the zone must still return Ok/Err — the answer may depend on the
    // clock, a panic may not.
    wls.push(Workload::cases("text_apis_under_a_hostile_clock_and_zone", ctx.count(60_000, 1_500_000), move |rec, idx, rng| {
        let z = super::localzone::gen_zone(rng);
        let (now, ctag) = super::localzone::gen_clock(rng);
        rec.bin(ctag);
        let kind = [Kind::DateTime, Kind::Date, Kind::Time][(idx % 3) as usize];
        let (i, off) = gen_fmt_value(rng);
        let off = if kind == Kind::Date { 0 } else { off };
        let v = super::c11::val_of(kind, i, off);
        // clock-dependent fields first: two-digit years in several companies; then the generator's patterns
        let pattern: String = if kind != Kind::Time && rng.chance(1, 2) {
            rng.pick(&["yy", "yy-MM-dd", "dd.MM.yy", "yyMMdd", "yy DDD", "M/d/yy", "yy-MM-dd HH:mm:ss", "dd.MM.yy HH:mm xxx", "yy G", "'yy' yy"]).to_string()
        } else {
            pattern_gen::gen(rng, kind, &ValueFacts { year: cal::ymd(v.day).0, offset: off }).pattern
        };
        let pattern = if kind == Kind::Date { pattern.replace(" HH:mm:ss", "").replace(" HH:mm xxx", "") } else { pattern };
        let Ok(text) = trap(|| super::c11::lib_format(kind, i, off, &pattern)) else { return };
        let input = match rng.below(3) { 0 => text.clone(), 1 => mutate(rng, &text, 2), _ => text.chars().take(rng.below(text.chars().count() as u64 + 1) as usize).collect() };
        rec.nontrivial(hash_str(&input) ^ hash_str(&pattern).rotate_left(17) ^ hash_i128s(&[now, 0x14A]));
        let rfc = if rng.chance(1, 2) { crate::model::rfc3339::gen_valid(rng).text() } else { let t = crate::model::rfc3339::gen_valid(rng).text(); mutate(rng, &t, 2) };
        let cron = { let b = *rng.pick(&CRON_BASE); mutate(rng, b, 2) };
        let ran = super::localzone::in_ambient(&z, now, || {
            judge_parse(rec, kind, &input, &pattern, "hostile-clock-and-zone");
            match idx % 4 {
                0 => judge_rfc(rec, &rfc),
                1 => judge_from_str(rec, &input),
                2 => judge_cron(rec, &cron),
                _ => {}
            }
        });
        if ran.is_none() {
            rec.bin(super::diff::SKIP_START);
        } else {
            rec.bin("ambient/judged");
        }
    }));
    // (4) RFC 3339, FromStr and cron strings under the same mutations; range-end values with offsets
    wls.push(Workload::cases("mutated_rfc3339_fromstr_cron", ctx.count(300_000, 10_000_000), |rec, idx, rng| match idx % 4 {
        0 | 1 => {
            let base = crate::model::rfc3339::gen_valid(rng).text();
            let text = if rng.chance(1, 8) { base } else { mutate(rng, &base, 3) };
            rec.nontrivial(hash_str(&text));
            judge_rfc(rec, &text);
        }
        2 => {
            let base = if rng.chance(1, 2) { format!("{:04}-{:02}-{:02}", rng.range_i64(-20_000, 20_000), rng.range_i64(0, 13), rng.range_i64(0, 32)) } else { format!("{:02}:{:02}:{:02}", rng.below(26), rng.below(62), rng.below(62)) };
            let text = mutate(rng, &base, 2);
            rec.nontrivial(hash_str(&text) ^ 2);
            judge_from_str(rec, &text);
        }
        _ => {
            let base = *rng.pick(&CRON_BASE);
            let text = mutate(rng, base, 3);
            rec.nontrivial(hash_str(&text) ^ 3);
            judge_cron(rec, &text);
        }
    }));
    wls.push(Workload::cases("range_end_values_with_offsets", ctx.count(40_000, 1_000_000), |rec, idx, rng| {
        // texts denoting local times at the very ends of the range, with offsets that push the UTC instant out
        let (y, m, d) = if idx % 2 == 0 { cal::MIN_DATE } else { cal::MAX_DATE };
        let dd = (d as i64 + rng.range_i64(-1, 1)) as u32;
        let (h, mi, s) = if rng.chance(1, 2) { (0, 0, 0) } else { (23, 59, 59) };
        let off = gen_offset(rng);
        let a = off.unsigned_abs();
        let sign = if off < 0 { '-' } else { '+' };
        let text = format!("{} {:02} {:02} {:02}:{:02}:{:02} {}{:02}:{:02}:{:02}", y, m, dd, h, mi, s, sign, a / 3600, a / 60 % 60, a % 60);
        rec.nontrivial(hash_str(&text));
        rec.bin("range-end-with-offset");
        judge_parse(rec, Kind::DateTime, &text, "y MM dd HH:mm:ss xxxxx", "range-end-with-offset");
        // the same local dates written with a day-of-year field (another construction route inside parse)
        let doy = cal::day_of_year(cal::days_from_civil(cal::astro_year(y), m, d)) as i64 + rng.range_i64(-1, 1);
        let text2 = format!("{} {} {:02}:{:02}:{:02} {}{:02}:{:02}:{:02}", y, doy, h, mi, s, sign, a / 3600, a / 60 % 60, a % 60);
        judge_parse(rec, Kind::DateTime, &text2, "y D HH:mm:ss xxxxx", "range-end-with-offset(day-of-year)");
        let text3 = format!("{} {}", y, doy);
        judge_parse(rec, Kind::Date, &text3, "y D", "range-end(day-of-year)");
        // and with a time of day inside one offset of midnight, the offset pulling the instant back in range
        let tod = rng.below(a as u64 + 2) as u32 % 86_400;
        let text4 = format!("{} {} {:02}:{:02}:{:02} {}{:02}:{:02}:{:02}", y, doy, tod / 3600, tod / 60 % 60, tod % 60, sign, a / 3600, a / 60 % 60, a % 60);
        judge_parse(rec, Kind::DateTime, &text4, "y D HH:mm:ss xxxxx", "range-end-with-offset(day-of-year)");
        let text5 = format!("{} {:02} {:02} {:02}:{:02}:{:02} {}{:02}:{:02}:{:02}", y, m, dd, tod / 3600, tod / 60 % 60, tod % 60, sign, a / 3600, a / 60 % 60, a % 60);
        judge_parse(rec, Kind::DateTime, &text5, "y MM dd HH:mm:ss xxxxx", "range-end-with-offset");
        let rfc = format!("{:04}-{:02}-{:02}T{:02}:{:02}:{:02}{}{:02}:{:02}", if idx % 2 == 0 { 1 } else { 9999 }, if idx % 2 == 0 { 1 } else { 12 }, if idx % 2 == 0 { 1 } else { 31 }, h, mi, s, sign, a / 3600, a / 60 % 60);
        judge_rfc(rec, &rfc);
    }));
    // (5) long inputs
    wls.push(Workload::cases("long_inputs", 64, move |rec, idx, _| {
        let n = 10_000usize;
        let (input, pattern): (String, String) = match idx % 8 {
            0 => ("9".repeat(n), "y".into()),
            1 => ("9".repeat(n), "yyyy-MM-dd".into()),
            2 => ("'".repeat(n), "'".repeat(n)),
            3 => ("2022".into(), "'".repeat(n | 1)),
            4 => ("é".repeat(n), "é".repeat(n)),
            5 => ("1".repeat(n), "n".repeat(n)),
            6 => (format!("2022-05-02T10:00:00.{}Z", "9".repeat(n)), "".into()),
            _ => ("* ".repeat(n), "".into()),
        };
        rec.nontrivial(mix64(idx));
        rec.bin("long-input");
        match idx % 8 {
            6 => judge_rfc(rec, &input),
            7 => judge_cron(rec, &input),
            _ => {
                for kind in [Kind::DateTime, Kind::Date, Kind::Time] {
                    judge_parse(rec, kind, &input, &pattern, "long-input");
                }
                judge_format(rec, &pattern, idx as usize, vr, "long-pattern");
            }
        }
    }));
    // (4b) EXHAUSTIVE: a valid RFC 3339 date-time part followed by every short string over a hostile
    // alphabet as the fraction/offset part (this is where byte-offset slicing happens)
    let rfc_alpha: [&str; 9] = ["+", "-", "0", "5", ":", "Z", "é", "日", "."];
    let rfc_len = ctx.n(5, 6) as u32;
    let n_rfc = count_strings(9, rfc_len);
    wls.push(Workload::chunks("exhaustive_rfc3339_tail", n_rfc * 2, 4096, move |rec, r| {
        for idx in r {
            let tail = nth_string(idx / 2, &rfc_alpha, rfc_len);
            let text = if idx % 2 == 0 { format!("2022-05-02T15:30:20{}", tail) } else { format!("2022-05-02T15:30:20.5{}", tail) };
            rec.cur_idx = idx;
            judge_rfc(rec, &text);
        }
    }));
    // (4c) cron fields holding long tokens of mixed character widths (error paths echo the token)
    wls.push(Workload::cases("cron_long_tokens", ctx.count(20_000, 600_000), |rec, _, rng| {
        let mut fields = ["*".to_string(), "*".to_string(), "*".to_string(), "*".to_string(), "*".to_string()];
        let f = rng.below(5) as usize;
        let len = 1 + rng.below(48);
        let mut tok = String::new();
        for _ in 0..len {
            tok.push_str(*rng.pick(&["x", "ä", "€", "日", "\u{1F570}", "1", "-", ",", "/", "*", "a", "m"]));
        }
        fields[f] = match rng.below(4) {
            0 => tok,
            1 => format!("1-{}", tok),
            2 => format!("*/{}", tok),
            _ => format!("mon,{}", tok),
        };
        let text = fields.join(" ");
        rec.nontrivial(hash_str(&text) ^ 0x4c);
        rec.bin("cron-long-token");
        judge_cron(rec, &text);
    }));
    // (5a) straddlers: for every cut position up to 1100 bytes (and around 4096, 65536) a multi-byte character lies across
    // it — in each cron field and item shape, as parse input and pattern, behind and in front of RFC 3339 / FromStr texts
    wls.push(Workload::cases("cut_position_straddlers", strad.len() as u64 * 40, move |rec, idx, _| {
        let t = &sr[(idx % sr.len() as u64) as usize];
        let k = idx / sr.len() as u64;
        rec.nontrivial(hash_str(t) ^ mix64(k));
        rec.bin("straddler");
        match k {
            0..=19 => {
                let f = (k % 5) as usize;
                let mut fields = ["*".to_string(), "*".to_string(), "*".to_string(), "*".to_string(), "*".to_string()];
                fields[f] = match k / 5 {
                    0 => t.clone(),
                    1 => format!("*/{}", t),
                    2 => format!("1-{}", t),
                    _ => format!("1,{}", t),
                };
                judge_cron(rec, &fields.join(" "));
            }
            20 => judge_cron(rec, t),
            21 => judge_cron(rec, &format!("* * * * * {}", t)),
            22..=24 => {
                let kind = [Kind::DateTime, Kind::Date, Kind::Time][(k - 22) as usize];
                judge_parse(rec, kind, t, "yyyy-MM-dd HH:mm:ss", "straddler");
                judge_parse(rec, kind, "2022-05-02 15:30:20", t, "straddler");
                judge_parse(rec, kind, &format!("2022{}", t), &format!("yyyy{}", t), "straddler");
                judge_parse(rec, kind, &format!("{}x", t), &format!("'{}'MM", t), "straddler");
            }
            25 => judge_rfc(rec, &format!("2022-05-02T15:30:20{}", t)),
            26 => judge_rfc(rec, &format!("2022-05-02T15:30:20.{}Z", t)),
            27 => judge_rfc(rec, &format!("{}2022-05-02T15:30:20Z", t)),
            28 => judge_rfc(rec, &format!("2022-05-02T15:30:20+{}", t)),
            29 => judge_from_str(rec, t),
            30 => judge_from_str(rec, &format!("2022-05-{}", t)),
            31 => judge_from_str(rec, &format!("15:30:{}", t)),
            32 => judge_format(rec, t, 0, vr, "straddler"),
            33 => judge_format(rec, &format!("'{}", t), 1, vr, "straddler"),
            _ => judge_from_str(rec, &format!("{}:30:20", t)),
        }
    }));
    // (5b) very long runs of one symbol: the run length becomes a padding width / repeat count
    wls.push(Workload::cases("very_long_symbol_runs", 19 * 6, move |rec, idx, _| {
        let c = "GyqMwdDeabhHKkmsnXx".chars().nth((idx % 19) as usize).unwrap();
        let len = [255usize, 256, 65_535, 65_536, 70_000, 300_000][(idx / 19) as usize];
        let pattern: String = std::iter::repeat(c).take(len).collect();
        rec.nontrivial(mix64(idx ^ 0x5b));
        rec.bin("very-long-symbol-run");
        judge_format(rec, &pattern, idx as usize, vr, "very-long-symbol-run");
        for kind in [Kind::DateTime, Kind::Date, Kind::Time] {
            judge_parse(rec, kind, "2022", &pattern, "very-long-symbol-run");
            judge_parse(rec, kind, &"0".repeat(len), &pattern, "very-long-symbol-run");
        }
    }));
    let n_exh = combos.len() as u64 * per * 3 + npat * nin * 3 + n_rfc * 2;
    let mut out = run_workloads(ctx, wls);
    // the exhaustive workloads enumerate pairwise distinct (pattern, input) cases by construction
    out.rec.nontrivial_counter += n_exh;
    let mut meta = PropMeta::default();
    meta.exhaustive = true;
    meta.rule = format!(
        "(1) EXHAUSTIVE: {} (symbol, width) runs x every input string of length ≤ {} over the alphabet {{0 1 9 - + a Z : é ' space .}} x 3 parse functions; (2) EXHAUSTIVE: every pattern of length ≤ 5 over {{' y T é space}} x every input of length ≤ {} over {{2 - T é ' space}} for parse (3 types) and the patterns for format on 7 values (BC, leap day, both range ends with offsets); (3) C12 round-trip material with delete/insert/replace/truncate mutations (multi-byte, NUL, quotes, signs, digits) of the input, the pattern, or both; (4) RFC 3339 / FromStr / cron strings under the same mutations, and range-end local times with offsets that push the UTC instant out of range; (4b) EXHAUSTIVE: a valid RFC 3339 date-time prefix followed by every string of length ≤ 5 (thorough 6) over {{+ - 0 5 : Z é 日 .}} as fraction/offset part; (4c) cron fields holding tokens of up to 48 characters of mixed byte widths; (5) 10 000-character inputs and patterns, and runs of 255 … 300 000 repetitions of each single symbol (the run length is used as a padding width). Oracle: outcome class — Ok (then every getter/format of the value must also return and the value be in range), Err, or panic; only a panic (any class, both builds) or an invalid Ok value is a violation. Non-trivial = every mutated/enumerated case; exhaustive cases distinct by construction (counted), others by hash. Pile-ups: several fields for the same component in one pattern (every width of n; several hour, year, day, minute/second, zone, period symbols) with every digit at its maximum, for parse on all three types and for format. EVERY deletion of 1..=7 and duplication of 1..=3 consecutive characters of 14 default-form texts (RFC 3339 with and without fraction/offset, yyyy-MM-dd incl. negative and 5-digit years, HH:mm:ss) through parse_rfc3339 and the three FromStr impls.",
        combos.len(), max_len, in_len
    );
    meta.rule.push_str(" (3b) the text APIs under a hostile ambient state: the clock pinned (hook) at the ends of the range, the era boundary, year 10000, 2^k units from the epochs, today, anywhere, and the system zone redirected (hook) to fixed offsets up to ±23:59:59 or real zones; patterns with two-digit years (clock dependent) in several companies and generated patterns; inputs exact, mutated, truncated; also parse_rfc3339, from_str and CronSchedule::parse there. (5a) cut-position straddlers: strings in which for every byte offset up to 1100 (and around 4096 / 65536) a 2-, 3- or 4-byte character lies across the offset, in every cron field and item shape, as parse input, pattern and quoted literal, around RFC 3339 / FromStr texts and as format patterns. Range-end texts also with a day-of-year field and with times of day inside one offset of midnight.");
    meta.required_bins = vec!["straddler", "ambient/judged", "clock/upper-range-end", "clock/lower-range-end", "clock/around-0001-01-01", "clock/2^k-units-from-an-epoch", "range-end-with-offset", "long-input", "very-long-symbol-run", "cron-long-token"];
    meta.assumptions = vec!["panics are observed through catch_unwind with a process-wide hook; a hang is caught by the per-case watchdog of the worker pool".into()];
    let _ = (Offset::Fixed(0), TimeUtilities::hour(&Time::default()), OffsetUtilities::get_offset(&Time::default()));
    Ok((meta, out))
}
