//! C12 — parsing with the pattern that produced a string recovers the value.

use super::c11::{gen_fmt_value, lib_format, val_of, LibVal};
use super::diff::*;
use super::PropResult;
use crate::core::*;
use crate::model::calendar as cal;
use crate::model::fmt_spec::Kind;
use crate::model::instant::*;
use crate::model::pattern_gen::{self, PatInfo, ValueFacts};
use astrolabe::{Date, DateTime, DateUtilities, Offset, Time, TimeUtilities};
use serde_json::{json, Value};

fn kind_name(k: Kind) -> &'static str {
    match k {
        Kind::DateTime => "DateTime",
        Kind::Date => "Date",
        Kind::Time => "Time",
    }
}

/// What the parsed value looks like, uniformly for the three types.
struct Parsed {
    /// the parsed library value itself
    lv: LibVal,
    reformatted: String,
    offset: Option<i32>,
    /// local fields: year, month, day, hour, minute, second, nano
    fields: (i64, u32, u32, u32, u32, u32, u32),
}

fn lib_parse(kind: Kind, s: &str, p: &str) -> Result<Parsed, String> {
    match kind {
        Kind::DateTime => DateTime::parse(s, p).map_err(|e| e.to_string()).map(|r| Parsed {
            lv: LibVal::Dt(r),
            reformatted: r.format(p),
            offset: offset_secs(&r),
            fields: (r.year() as i64, r.month(), r.day(), r.hour(), r.minute(), r.second(), r.nano()),
        }),
        Kind::Date => Date::parse(s, p).map_err(|e| e.to_string()).map(|r| Parsed {
            lv: LibVal::D(r),
            reformatted: r.format(p),
            offset: Some(0),
            fields: (r.year() as i64, r.month(), r.day(), 0, 0, 0, 0),
        }),
        Kind::Time => Time::parse(s, p).map_err(|e| e.to_string()).map(|r| Parsed {
            lv: LibVal::T(r),
            reformatted: r.format(p),
            offset: time_offset_secs(&r),
            fields: (1, 1, 1, r.hour(), r.minute(), r.second(), r.nano()),
        }),
    }
}

fn judge(rec: &mut Rec, kind: Kind, i: i128, off: i32, info: &PatInfo) {
    let p = &info.pattern;
    let v = val_of(kind, i, off);
    let (y, m, d) = cal::ymd(v.day);
    // dates that do not exist in the default year cannot be re-read without a year field
    if kind != Kind::Time && !info.has_year {
        let feb29 = m == 2 && d == 29;
        if (info.has_month && info.has_dom && feb29) || (info.has_doy && cal::day_of_year(v.day) == 366) {
            rec.bin("skipped/date-not-in-default-year");
            return;
        }
    }
    rec.eval();
    rec.api(match kind {
        Kind::DateTime => "DateTime::parse∘format",
        Kind::Date => "Date::parse∘format",
        Kind::Time => "Time::parse∘format",
    });
    for (c, w) in info.used.iter() {
        rec.bin_s(format!("sym/{}{}", c, (*w).min(6)));
    }
    if info.multibyte_literal {
        rec.bin("literal/multi-byte");
    }
    if info.quoted_literal {
        rec.bin("literal/quoted");
    }
    if info.other_type_literal {
        rec.bin("literal/other-type's-symbol-run");
    }
    let secs = v.tod / 1_000_000_000;
    let hour = (secs / 3600) as u32;
    let sub = (v.tod % 1_000_000_000) as u32;
    if info.used.iter().any(|(c, w)| *c == 'M' && *w == 1) && m >= 10 {
        rec.bin("value/month>=10-under-M");
    }
    if info.hour12 && (hour == 0 || hour == 12) {
        rec.bin("value/hour0or12-under-12h-clock");
    }
    if info.used.iter().any(|(c, _)| *c == 'k') && hour == 0 {
        rec.bin("value/hour0-under-k");
    }
    if info.used.iter().any(|(c, _)| *c == 'b') && (secs == 0 || secs == 43_200) {
        rec.bin("value/noon-or-midnight-under-b");
    }
    if info.has_doy && cal::day_of_year(v.day) >= 100 {
        rec.bin("value/doy>=100");
    }
    if info.has_year && y < 0 {
        rec.bin("value/negative-year");
    }
    if info.has_year && y.abs() >= 10_000 {
        rec.bin("value/5+digit-year");
    }
    if info.has_zone {
        rec.bin(if off % 60 != 0 { "value/zone-with-seconds" } else if off == 0 { "value/zone-zero" } else { "value/zone-hm" });
    }
    rec.nontrivial(hash_str(p) ^ hash_i128s(&[i, off as i128, kind as i128]));

    // which claims apply
    let date_full = info.full_year && ((info.has_month && info.has_dom) || info.has_doy);
    let time_full = (info.hour24 || (info.hour12 && info.has_period)) && info.has_minute && info.has_second && {
        let keep = 10u32.pow(9 - info.subsec_digits.min(9));
        sub % keep == 0
    };
    // the value to round-trip: only where its construction and read-outs are trustworthy
    let orig: LibVal = match kind {
        Kind::DateTime => match sane_value(i, off) {
            Some((x, _)) => LibVal::Dt(x),
            None => {
                rec.bin(SKIP_START);
                return;
            }
        },
        Kind::Date => match sane_date(v.day) {
            Some(x) => LibVal::D(x),
            None => {
                rec.bin(SKIP_START);
                return;
            }
        },
        Kind::Time => match sane_time(i.rem_euclid(D) as u64, off) {
            Some((x, _)) => LibVal::T(x),
            None => {
                rec.bin(SKIP_START);
                return;
            }
        },
    };
    let r = trap(|| {
        let s = orig.format(p);
        let parsed = lib_parse(kind, &s, p);
        (s, parsed)
    });
    let wit = |obs: Value| json!({"type": kind_name(kind), "value_utc": show(i), "offset": off, "pattern": p, "observed": obs});
    let tag = |info: &PatInfo| -> String {
        // the narrowest description of the pattern: its symbol runs
        let mut u: Vec<String> = info.used.iter().map(|(c, w)| format!("{}{}", c, (*w).min(6))).collect();
        u.sort();
        u.join("")
    };
    let _ = tag;
    match r {
        Err(pn) => rec.violation(format!("C12|{}|parse∘format|panic|{},{}", kind_name(kind), pn.class, pn.site()), || wit(pn.to_json())),
        Ok((s, Err(e))) => {
            // attribute to a symbol: re-try each single field in isolation is not meaningful (context matters);
            // use the error text's field name plus literal kind
            let what = if e.contains("too short") { "too-short" } else if e.contains("Failed parsing") { "field-misread" } else if e.contains("must be in the range") { "assembled-value-out-of-range" } else { "other" };
            let lit = if info.multibyte_literal { ",multi-byte-literal" } else { "" };
            let culprit = culprit_symbol(info, &v_summary(y, m, hour, off));
            rec.violation(format!("C12|{}|parse∘format|rejected|{}{}{}", kind_name(kind), what, lit, culprit), || wit(json!({"formatted": s, "error": e})));
        }
        Ok((_, Ok(pr))) if !canonical(&pr.lv) => {
            // the parsed value does not read like an independently built value of its own instant:
            // its getters/format cannot be used as evidence here (another property's defect)
            rec.bin(SKIP_EXPECTED);
        }
        Ok((s, Ok(pr))) => {
            if pr.reformatted != s {
                let culprit = culprit_symbol(info, &v_summary(y, m, hour, off));
                rec.violation(format!("C12|{}|parse∘format|reformat-differs{}", kind_name(kind), culprit), || wit(json!({"formatted": s, "reformatted": pr.reformatted})));
            } else {
                // instant / offset claims
                match kind {
                    Kind::DateTime => {
                        if date_full && time_full && info.has_zone {
                            rec.bin("claim/instant+offset");
                            if let LibVal::Dt(pv) = &pr.lv {
                                match diff_with_expected(pv, i, off) {
                                    Ok(Diff::Skip) => rec.bin(SKIP_EXPECTED),
                                    Ok(Diff::Same) => {}
                                    Ok(Diff::Differs(g, e)) => rec.violation("C12|DateTime|parse∘format|instant-or-offset-differs".to_string(), || wit(json!({"formatted": s, "parsed_value_reads": g.to_json(), "original_value_reads": e.to_json()}))),
                                    Err(pn) => rec.violation(format!("C12|DateTime|parse∘format|parsed-value-unreadable|{},{}", pn.class, pn.site()), || wit(pn.to_json())),
                                }
                            }
                        } else if date_full && time_full && !info.has_zone {
                            rec.bin("claim/local-fields-as-UTC");
                            if let LibVal::Dt(pv) = &pr.lv {
                                match diff_with_expected(pv, i + off as i128 * NS, 0) {
                                    Ok(Diff::Skip) => rec.bin(SKIP_EXPECTED),
                                    Ok(Diff::Same) => {}
                                    Ok(Diff::Differs(g, e)) => rec.violation("C12|DateTime|parse∘format|no-zone-field-but-not-UTC-of-the-shown-fields".to_string(), || wit(json!({"formatted": s, "parsed_value_reads": g.to_json(), "value_of_the_shown_fields_as_UTC_reads": e.to_json()}))),
                                    Err(pn) => rec.violation(format!("C12|DateTime|parse∘format|parsed-value-unreadable|{},{}", pn.class, pn.site()), || wit(pn.to_json())),
                                }
                            }
                        }
                    }
                    Kind::Date => {
                        if date_full {
                            rec.bin("claim/same-date");
                            if let LibVal::D(pv) = &pr.lv {
                                match diff_date(pv, v.day) {
                                    Ok(DateDiff::Skip) => rec.bin(SKIP_EXPECTED),
                                    Ok(DateDiff::Same) => {}
                                    Ok(DateDiff::Differs(g, e)) => rec.violation("C12|Date|parse∘format|date-differs".to_string(), || wit(json!({"formatted": s, "parsed_value_reads": g, "original_value_reads": e}))),
                                    Err(pn) => rec.violation(format!("C12|Date|parse∘format|parsed-value-unreadable|{},{}", pn.class, pn.site()), || wit(pn.to_json())),
                                }
                            }
                        }
                    }
                    Kind::Time => {
                        if time_full && info.has_zone {
                            rec.bin("claim/time+offset");
                            if let LibVal::T(pv) = &pr.lv {
                                match diff_time(pv, i.rem_euclid(D) as u64, off) {
                                    Ok(TDiff::Skip) => rec.bin(SKIP_EXPECTED),
                                    Ok(TDiff::Same) => {}
                                    Ok(TDiff::Differs(g, e)) => rec.violation("C12|Time|parse∘format|time-or-offset-differs".to_string(), || wit(json!({"formatted": s, "parsed_value_reads": format!("{:?}", g), "original_value_reads": format!("{:?}", e)}))),
                                    Err(pn) => rec.violation(format!("C12|Time|parse∘format|parsed-value-unreadable|{},{}", pn.class, pn.site()), || wit(pn.to_json())),
                                }
                            }
                        }
                    }
                }
                // defaults for absent fields
                let f = pr.fields;
                let mut wrong: Vec<&str> = vec![];
                if kind != Kind::Time {
                    if !info.has_year && f.0 != 1 {
                        wrong.push("year≠1");
                    }
                    if !info.has_month && !info.has_doy && f.1 != 1 {
                        wrong.push("month≠1");
                    }
                    if !info.has_dom && !info.has_doy && f.2 != 1 {
                        wrong.push("day≠1");
                    }
                }
                if kind != Kind::Date {
                    if !info.has_zone && pr.offset != Some(0) {
                        wrong.push("offset≠UTC");
                    }
                    // clock defaults are read in the parsed value's own offset
                    if !info.hour24 && !info.hour12 && f.3 != 0 {
                        wrong.push("hour≠0");
                    }
                    if !info.has_minute && f.4 != 0 {
                        wrong.push("minute≠0");
                    }
                    if !info.has_second && f.5 != 0 {
                        wrong.push("second≠0");
                    }
                    if info.subsec_digits == 0 && f.6 != 0 {
                        wrong.push("nano≠0");
                    }
                }
                if !wrong.is_empty() {
                    rec.violation(format!("C12|{}|parse∘format|absent-field-not-default|{}", kind_name(kind), wrong.join("+")), || wit(json!({"formatted": s, "parsed_fields": format!("{:?}", f), "parsed_offset": pr.offset})));
                } else {
                    rec.bin("claim/defaults");
                }
            }
        }
    }
    if rec.want_sample() {
        rec.sample(|| wit(json!({"formatted": trap(|| lib_format(kind, i, off, p)).ok()})));
    }
}

/// Does the parsed value read exactly like an independently built value of its own instant/day/time?
fn canonical(lv: &LibVal) -> bool {
    match lv {
        LibVal::Dt(x) => read_checked(x).is_some(),
        LibVal::D(x) => match trap(|| x.timestamp()) {
            Ok(ts) => matches!(diff_date(x, ts.div_euclid(86_400) + cal::DAYS_TO_1970), Ok(DateDiff::Same)),
            Err(_) => false,
        },
        LibVal::T(x) => match trap(|| (x.as_nanos(), time_offset_secs(x))) {
            Ok((n, Some(o))) if n < 86_400_000_000_000 => matches!(diff_time(x, n, o), Ok(TDiff::Same)),
            _ => false,
        },
    }
}

fn v_summary(y: i64, m: u32, hour: u32, off: i32) -> (i64, u32, u32, i32) {
    (y, m, hour, off)
}

/// A short, stable discriminator: the first "suspicious" symbol given the value (the ones where format
/// and parse have to agree on a value-dependent width or mapping).
fn culprit_symbol(info: &PatInfo, v: &(i64, u32, u32, i32)) -> String {
    let (y, m, hour, off) = *v;
    let mut c: Vec<String> = vec![];
    for (s, w) in info.used.iter() {
        let hit = match s {
            'M' => *w == 1 && m >= 10,
            'y' => y < 0 || y.abs() >= 10_000,
            'h' | 'K' | 'k' => hour == 0 || hour == 12,
            'X' | 'x' => off % 60 != 0 || *w == 1 || *w >= 4,
            _ => false,
        };
        if hit {
            c.push(format!("{}{}", s, (*w).min(6)));
        }
    }
    c.sort();
    c.dedup();
    c.truncate(1);
    // widths collapse: the symbol letter is the discriminator
    let c: Vec<String> = c.into_iter().map(|s| s.chars().take(1).collect()).collect();
    if c.is_empty() {
        String::new()
    } else {
        format!("|suspect={}", c.join("+"))
    }
}

pub fn run(ctx: &Ctx) -> PropResult {
    let mut wls = vec![];
    for (name, kind, q, t) in [("datetime_roundtrips", Kind::DateTime, 200_000u64, 8_000_000u64), ("date_roundtrips", Kind::Date, 60_000, 2_000_000), ("time_roundtrips", Kind::Time, 60_000, 2_000_000)] {
        wls.push(Workload::cases(name, ctx.count(q, t), move |rec, _, rng| {
            let (i, off) = gen_fmt_value(rng);
            let off = if kind == Kind::Date { 0 } else { off };
            let v = val_of(kind, i, off);
            let facts = ValueFacts { year: cal::ymd(v.day).0, offset: off };
            let info = pattern_gen::gen(rng, kind, &facts);
            judge(rec, kind, i, off, &info);
        }));
    }
    wls.push(Workload::cases("canonical_patterns", ctx.count(120_000, 3_000_000), |rec, idx, rng| {
        // the patterns people actually write, incl. Display / FromStr / RFC 3339 shapes and compact key forms
        let pats = &pattern_gen::COMMON_PATTERNS;
        let (p, kind, four_digit_year, unambiguous) = pats[(idx % pats.len() as u64) as usize];
        // yyyy directly followed by digits (yyyyMMdd…) is neither fixed-width nor delimiter-terminated in this
        // library (the year field reads every digit it finds): outside the statement's quantifier
        if !unambiguous || four_digit_year {
            return;
        }
        let (i, off) = gen_fmt_value(rng);
        let off = if kind == Kind::Date { 0 } else if p.to_ascii_lowercase().contains("xxx") && !p.to_ascii_lowercase().contains("xxxx") { off / 60 * 60 } else { off };
        let info = describe(p, kind);
        rec.bin("pattern/common-corpus");
        judge(rec, kind, i, off, &info);
    }));
    let out = run_workloads(ctx, wls);
    let mut meta = PropMeta::default();
    meta.rule = "values as in C11 (BC, 1–7 digit years, hours 0/11/12/13/23, noon/midnight ±1 s, year edges, offsets with minutes/seconds of both signs) x patterns from the unambiguous-field grammar (model/pattern_gen.rs: ≤ 1 field per component in random order; a non-digit literal or the end after every variable-width numeric field; fixed-width fields adjacent; yyyyy+ only when the year fits; zone symbol wide enough for the offset; derived fields G q w e only next to a full date; literals incl. multi-byte characters, quoted text and ''; over-long runs) + the unambiguous part of a corpus of 62 patterns people actually write (compact forms like yyyyMMdd are outside: the year field is not delimiter-terminated there). For a Date the time symbols and for a Time the date symbols are literal text: such runs (HH, mm, T HH:mm, yyyy, MM …) are used as delimiters too. Per case: parse(format(v,p),p) must be Ok, re-format to the same string; with a full date, time of day and zone the instant and offset must be v's (without a zone: the shown fields as UTC); absent fields must read 0001-01-01 / 00:00:00 / UTC. Skipped: a month/day or day-of-year without a year when that date does not exist in year 1. Every case non-trivial; distinct by hash of (value, pattern). Delimiters include two literal tokens of different kinds side by side (plain then quoted and vice versa), quoted text starting/ending in white space and quoted text that continues an English name ('day', 'tember', 'M').".into();
    meta.required_bins = vec![
        "sym/y1", "sym/y2", "sym/y4", "sym/y6", "sym/M1", "sym/M3", "sym/M4", "sym/d1", "sym/D1", "sym/D2", "sym/D3", "sym/h1", "sym/K2", "sym/k1", "sym/H1", "sym/a4", "sym/b5", "sym/b3",
        "sym/m1", "sym/s1", "sym/n1", "sym/n4", "sym/n5", "sym/X1", "sym/X4", "sym/X5", "sym/x1", "sym/x5", "sym/x6", "sym/G4", "sym/q4", "sym/w1", "sym/e4",
        "literal/multi-byte", "literal/quoted", "literal/other-type's-symbol-run", "pattern/common-corpus", "value/month>=10-under-M", "value/hour0or12-under-12h-clock", "value/hour0-under-k", "value/noon-or-midnight-under-b", "value/doy>=100",
        "value/negative-year", "value/5+digit-year", "value/zone-with-seconds", "value/zone-zero", "claim/instant+offset", "claim/local-fields-as-UTC", "claim/same-date", "claim/time+offset", "claim/defaults",
    ];
    meta.assumptions = vec!["`yy` takes part in string-level round trips only (it re-reads into the current millennium by design)".into()];
    Ok((meta, out))
}

/// PatInfo for a hand-written pattern (same bookkeeping as the generator).
pub fn describe(p: &str, kind: Kind) -> PatInfo {
    use crate::model::fmt_spec::{tokenize, Tok};
    let mut info = PatInfo { pattern: p.to_string(), ..Default::default() };
    for t in tokenize(p).unwrap_or_default() {
        match t {
            Tok::Lit(l) => {
                if l.chars().any(|c| c.len_utf8() > 1) {
                    info.multibyte_literal = true;
                }
            }
            Tok::Run(c, w) => {
                if !crate::model::fmt_spec::is_symbol(kind, c) {
                    // the other type's symbols are literal text for this type
                    info.other_type_literal = true;
                    continue;
                }
                match c {
                    'y' => {
                        info.has_year = true;
                        info.full_year = w != 2;
                    }
                    'M' => info.has_month = true,
                    'd' => info.has_dom = true,
                    'D' => info.has_doy = true,
                    'H' | 'k' => info.hour24 = true,
                    'h' | 'K' => info.hour12 = true,
                    'a' | 'b' => info.has_period = true,
                    'm' => info.has_minute = true,
                    's' => info.has_second = true,
                    'n' => info.subsec_digits = match w { 1 => 1, 2 => 2, 4 => 6, 5 => 9, _ => 3 },
                    'X' | 'x' => info.has_zone = true,
                    'G' | 'q' | 'w' | 'e' => {}
                    _ => continue,
                }
                info.used.push((c, w));
            }
        }
    }
    if p.contains('\'') {
        info.quoted_literal = true;
    }
    info
}

#[allow(dead_code)]
fn unused(_: Offset) {}
