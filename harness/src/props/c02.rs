//! C02 — weekday, day-of-year, ISO week, quarter for every day; set_day_of_year.

use super::c01::year_set;
use super::util::*;
use super::PropResult;
use crate::core::*;
use crate::model::calendar as cal;
use astrolabe::errors::AstrolabeError;
use astrolabe::{Date, DateTime, DateUtilities};
use serde_json::json;

const WD_BC: [&str; 7] = ["weekday/BC/0", "weekday/BC/1", "weekday/BC/2", "weekday/BC/3", "weekday/BC/4", "weekday/BC/5", "weekday/BC/6"];
const WD_AD: [&str; 7] = ["weekday/AD/0", "weekday/AD/1", "weekday/AD/2", "weekday/AD/3", "weekday/AD/4", "weekday/AD/5", "weekday/AD/6"];

fn year_edge_class(n: i64) -> Option<&'static str> {
    let (y, m, d) = cal::ymd(n);
    let _ = y;
    let bc = n < 0;
    if m == 1 && d <= 3 {
        let (_, w) = cal::iso_week(n);
        Some(match (bc, w) {
            (true, 1) => "yearstart/BC/week1",
            (true, 52) => "yearstart/BC/week52",
            (true, _) => "yearstart/BC/week53",
            (false, 1) => "yearstart/AD/week1",
            (false, 52) => "yearstart/AD/week52",
            (false, _) => "yearstart/AD/week53",
        })
    } else if m == 12 && d >= 29 {
        let (_, w) = cal::iso_week(n);
        Some(match (bc, w) {
            (true, 1) => "yearend/BC/week1",
            (true, 52) => "yearend/BC/week52",
            (true, _) => "yearend/BC/week53",
            (false, 1) => "yearend/AD/week1",
            (false, 52) => "yearend/AD/week52",
            (false, _) => "yearend/AD/week53",
        })
    } else {
        None
    }
}

fn judge_getters(rec: &mut Rec, n: i64, hashed: bool) {
    rec.eval();
    let exp_wd = cal::weekday_sun0(n);
    let exp_doy = cal::day_of_year(n);
    let r = trap(|| {
        let d = Date::from_timestamp(ts_of_day(n));
        (d.weekday(), d.day_of_year())
    });
    let era = era(n);
    match r {
        Err(p) => rec.violation(format!("C02|getters|Date::weekday/day_of_year|panic|{},{}", p.class, p.site()), || {
            json!({"day": n, "panic": p.to_json()})
        }),
        Ok((wd, doy)) => {
            if wd as u32 != exp_wd {
                rec.violation(format!("C02|getters|DateUtilities::weekday|wrong-value|era={},observed-model={}", era, (wd as i64 - exp_wd as i64).rem_euclid(7)), || {
                    let e = cal::ymd(n);
                    json!({"day": n, "date": [e.0, e.1, e.2], "expected_weekday": exp_wd, "observed": wd})
                });
            }
            if doy != exp_doy {
                rec.violation(format!("C02|getters|DateUtilities::day_of_year|wrong-value|era={},leap={}", era, leap_class(cal::ymd(n).0)), || {
                    let e = cal::ymd(n);
                    json!({"day": n, "date": [e.0, e.1, e.2], "expected_doy": exp_doy, "observed": doy})
                });
            }
        }
    }
    rec.bin(if n < 0 { WD_BC[exp_wd as usize] } else { WD_AD[exp_wd as usize] });
    if exp_doy == 366 {
        rec.bin(if n < 0 { "doy366/BC" } else { "doy366/AD" });
    }
    if let Some(c) = year_edge_class(n) {
        rec.bin(c);
        if hashed {
            rec.nontrivial(mix64(n as u64 ^ 0x22));
        } else {
            rec.nontrivial_counted(1);
        }
    } else if n < 0 && hashed && exp_wd == 0 {
        // Sundays before 0001-01-01: the sign-sensitive half of the weekday computation
        rec.nontrivial(mix64(n as u64 ^ 0x22));
    } else if n < 0 && !hashed && exp_wd == 0 {
        rec.nontrivial_counted(1);
    }
    if rec.want_sample() {
        let e = cal::ymd(n);
        rec.sample(|| json!({"day": n, "date": [e.0, e.1, e.2], "model": {"weekday": exp_wd, "doy": exp_doy}, "observed": format!("{:?}", trap(|| { let d = Date::from_timestamp(ts_of_day(n)); (d.weekday(), d.day_of_year()) }).ok())}));
    }
}

fn judge_format(rec: &mut Rec, n: i64, hashed: bool, also_dt: bool) {
    rec.eval();
    rec.api("Date::format(e|eeeeeee|w|q|D)");
    let (y, m, _d) = cal::ymd(n);
    let exp = format!(
        "{}|{}|{}|{}|{}",
        cal::weekday_sun0(n) + 1,
        cal::weekday_mon0(n) + 1,
        cal::iso_week(n).1,
        cal::quarter(m),
        cal::day_of_year(n)
    );
    let r = trap(|| Date::from_timestamp(ts_of_day(n)).format("e|eeeeeee|w|q|D"));
    let era = era(n);
    match r {
        Err(p) => rec.violation(format!("C02|format|Date::format|panic|{},{}", p.class, p.site()), || json!({"day": n, "panic": p.to_json()})),
        Ok(s) => {
            if s != exp {
                let got: Vec<&str> = s.split('|').collect();
                let want: Vec<&str> = exp.split('|').collect();
                let names = ["e", "eeeeeee", "w", "q", "D"];
                let mut wrong = Vec::new();
                for i in 0..5 {
                    if got.get(i) != want.get(i) {
                        wrong.push(names[i]);
                    }
                }
                rec.violation(format!("C02|format|Date::format|wrong-field|era={},fields={}", era, wrong.join("+")), || {
                    json!({"day": n, "date": [y, m, _d], "pattern": "e|eeeeeee|w|q|D", "expected": exp, "observed": s})
                });
            }
        }
    }
    if also_dt {
        rec.eval();
        rec.api("DateTime::format(e|eeeeeee|w|q|D)");
        let r = trap(|| {
            let dt = DateTime::from_timestamp(ts_of_day(n) + 86_399);
            (dt.format("e|eeeeeee|w|q|D"), dt.weekday(), dt.day_of_year())
        });
        match r {
            Err(p) => rec.violation(format!("C02|format|DateTime::format|panic|{},{}", p.class, p.site()), || json!({"day": n, "panic": p.to_json()})),
            Ok((s, wd, doy)) => {
                if s != exp || wd as u32 != cal::weekday_sun0(n) || doy != cal::day_of_year(n) {
                    rec.violation(format!("C02|format|DateTime::format/getters|wrong-field|era={}", era), || {
                        json!({"day": n, "date": [y, m, _d], "time": "23:59:59", "expected": exp, "observed": s, "weekday": wd, "doy": doy})
                    });
                }
            }
        }
    }
    if let Some(c) = year_edge_class(n) {
        rec.bin(leak_bin_fmt(c));
        if hashed {
            rec.nontrivial(mix64(n as u64 ^ 0x77));
        } else {
            rec.nontrivial_counted(1);
        }
    }
    if rec.want_sample() {
        rec.sample(|| json!({"day": n, "date": [y, m, _d], "pattern": "e|eeeeeee|w|q|D", "model": exp}));
    }
}

/// The property's four formatted fields (e, D, w, q) in random company: a Date or a DateTime (any time of day — the
/// first and the last hour of the local day in particular — under any offset) formatted with a pattern of the judged
/// symbol plus 0–6 other symbols of the type; every e / D / w / q token of the output (the judged symbol sometimes twice; fields separated by a plain character, a doubled apostrophe or a quoted character) is compared with the documented
/// rendering of the calendar model's value for the *local* day.
fn judge_company(rec: &mut Rec, rng: &mut Rng, n: i64, tod: u64, off: i32, on_dt: bool) {
    use super::diff::{sane_date, SKIP_START};
    use crate::model::instant::sane_value;
    use crate::model::fmt_spec::{render_run, Kind, Val};
    use crate::model::instant::{D, NS};
    use serde_json::Value;
    rec.eval();
    rec.api(if on_dt { "DateTime::format (e/D/w/q in random company)" } else { "Date::format (e/D/w/q in random company)" });
    let kind = if on_dt { Kind::DateTime } else { Kind::Date };
    let mut toks = super::fmtctx::company(rng, kind, &['e', 'D', 'w', 'q'], true);
    // sometimes the judged symbol occurs twice (the same field on both sides of a separator)
    if rng.chance(1, 3) {
        if let Some(t) = toks.iter().find(|t| "eDwq".contains(t.0)).cloned() {
            let at = rng.below(toks.len() as u64 + 1) as usize;
            toks.insert(at, (t.0, if rng.chance(1, 2) { t.1 } else { 1 + rng.below(4) as usize }));
        }
    }
    // the separator between fields: a plain character, a doubled apostrophe (prints one), a quoted character
    let (sep_pat, sep_out): (&str, char) = *rng.pick(&[("|", '|'), ("|", '|'), ("''", '\''), ("'|'", '|'), ("\u{a0}", '\u{a0}')]);
    let mut p = String::new();
    for (k, (c, w)) in toks.iter().enumerate() {
        if k > 0 {
            p.push_str(sep_pat);
        }
        for _ in 0..*w {
            p.push(*c);
        }
    }
    // local day of the value
    let i = n as i128 * D + tod as i128;
    let local = i + off as i128 * NS;
    let lday = local.div_euclid(D) as i64;
    if !(cal::MIN_DAY + 2..=cal::MAX_DAY - 2).contains(&lday) || !(cal::MIN_DAY + 2..=cal::MAX_DAY - 2).contains(&n) {
        return;
    }
    let ltod = local.rem_euclid(D) as u64;
    rec.bin(if !on_dt { "company/date" } else if ltod < 3_600 * NS as u64 { "company/datetime-first-hour-of-the-local-day" } else if ltod >= 23 * 3_600 * NS as u64 { "company/datetime-last-hour-of-the-local-day" } else { "company/datetime-other-hours" });
    rec.nontrivial(hash_i128s(&[i, off as i128, 0xC2]) ^ hash_str(&p));
    let model = Val::new(kind, lday, ltod, off);
    let got = if on_dt {
        let Some((x, _)) = sane_value(i, off) else {
            rec.bin(SKIP_START);
            return;
        };
        trap(|| x.format(&p))
    } else {
        let Some(d) = sane_date(n) else {
            rec.bin(SKIP_START);
            return;
        };
        trap(|| d.format(&p))
    };
    let wit = |obs: Value| json!({"type": if on_dt { "DateTime" } else { "Date" }, "utc_day": n, "time_of_day_ns": tod, "offset": off, "local_day": lday, "pattern": p, "observed": obs});
    match got {
        Err(pn) => rec.violation(format!("C02|format-in-company|{}::format|panic|{},{}", if on_dt { "DateTime" } else { "Date" }, pn.class, pn.site()), || wit(pn.to_json())),
        Ok(s) => {
            let parts: Vec<&str> = s.split(sep_out).collect();
            if parts.len() != toks.len() {
                // some other field printed the separator or nothing came out: not this property's business to say which
                rec.bin("company/output-does-not-split(other-property)");
                return;
            }
            for (k, (c, w)) in toks.iter().enumerate() {
                if !"eDwq".contains(*c) {
                    continue;
                }
                let Ok(want) = render_run(&model, *c, *w) else { continue };
                if parts[k] != want {
                    let others: String = { let mut v: Vec<char> = toks.iter().map(|t| t.0).filter(|x| x != c).collect(); v.sort(); v.dedup(); v.into_iter().collect() };
                    let company = if others.is_empty() { "alone".to_string() } else if others.chars().any(|x| "abhHKkmsnXx".contains(x)) { "with-clock-fields".to_string() } else { "with-calendar-fields".to_string() };
                    rec.violation(format!("C02|format-in-company|{}::format|wrong-field|{}|{}", if on_dt { "DateTime" } else { "Date" }, c, company), || wit(json!({"field": format!("{}x{}", c, w), "printed": parts[k], "calendar_model": want, "whole_output": s, "other_symbols": others})));
                }
            }
        }
    }
    if rec.want_sample() {
        rec.sample(|| wit(json!("(see verdict)")));
    }
}

fn leak_bin_fmt(c: &'static str) -> &'static str {
    // same classes, reported under a "fmt:" prefix; a handful of distinct values, interned once
    use std::collections::HashMap;
    use std::sync::Mutex;
    static M: Mutex<Option<HashMap<&'static str, &'static str>>> = Mutex::new(None);
    let mut g = M.lock().unwrap();
    let m = g.get_or_insert_with(HashMap::new);
    m.entry(c).or_insert_with(|| leak(format!("fmt:{}", c)))
}

fn judge_setter(rec: &mut Rec, start_day: i64, doy: u32, on_datetime: bool, tod_ns: u64) {
    rec.eval();
    let (a, _, _) = cal::civil_from_days(start_day);
    let target = cal::day_from_year_doy(a, doy).filter(|t| (cal::MIN_DAY..=cal::MAX_DAY).contains(t));
    let ylen = cal::year_len(a);
    let cls: &'static str = if doy == 0 {
        "setdoy/zero"
    } else if doy > ylen {
        if doy == 366 {
            "setdoy/366-in-common-year"
        } else {
            "setdoy/beyond-year"
        }
    } else if target.is_none() {
        "setdoy/beyond-range-end"
    } else if doy == 366 {
        "setdoy/366-in-leap-year"
    } else {
        "setdoy/in-year"
    };
    rec.bin(cls);
    rec.nontrivial(hash_i128s(&[start_day as i128, doy as i128, on_datetime as i128, tod_ns as i128]));
    let era = era(start_day);
    let api: &'static str = if on_datetime { "DateTime::set_day_of_year" } else { "Date::set_day_of_year" };
    rec.api(api);
    // (1 same / 0 differs / −1 no trustworthy expected value, description, day_of_year() read back)
    use super::diff::*;
    use crate::model::instant::{diff_with_expected, sane_value, Diff, D as DAY_NS};
    let tgt = target.unwrap_or(0);
    let r = if on_datetime {
        let Some((dt, _)) = sane_value(start_day as i128 * DAY_NS + tod_ns as i128, 0) else {
            rec.bin(SKIP_START);
            return;
        };
        trap(|| {
            dt.set_day_of_year(doy).map(|x| {
                let c = match diff_with_expected(&x, tgt as i128 * DAY_NS + tod_ns as i128, 0) {
                    Ok(Diff::Same) => (1i8, String::new()),
                    Ok(Diff::Skip) => (-1, String::new()),
                    Ok(Diff::Differs(g, e)) => (0, format!("result reads {} but the expected value reads {}", g.to_json(), e.to_json())),
                    Err(p) => (0, format!("unreadable: {}", p.msg)),
                };
                (c, x.day_of_year(), x.timestamp().div_euclid(86_400) + cal::DAYS_TO_1970)
            })
        })
    } else {
        let Some(d) = sane_date(start_day) else {
            rec.bin(SKIP_START);
            return;
        };
        trap(|| {
            d.set_day_of_year(doy).map(|x| {
                let c = match diff_date(&x, tgt) {
                    Ok(DateDiff::Same) => (1i8, String::new()),
                    Ok(DateDiff::Skip) => (-1, String::new()),
                    Ok(DateDiff::Differs(g, e)) => (0, format!("result reads {} but the expected value reads {}", g, e)),
                    Err(p) => (0, format!("unreadable: {}", p.msg)),
                };
                (c, x.day_of_year(), x.timestamp() / 86_400 + cal::DAYS_TO_1970)
            })
        })
    };
    let w = |extra: serde_json::Value| {
        let s = cal::ymd(start_day);
        json!({"start": [s.0, s.1, s.2], "start_day": start_day, "set_day_of_year": doy, "on": api, "time_of_day_ns": tod_ns, "model_target_day": target, "observed": extra})
    };
    match (r, target) {
        (Err(p), _) => rec.violation(format!("C02|setter|{}|panic|{},{}", api, p.class, p.site()), || w(p.to_json())),
        (Ok(Ok(((c, why, ), rdoy, day))), Some(t)) => {
            if c == -1 {
                rec.bin(SKIP_EXPECTED);
            } else if c == 0 {
                let kind = if day != t { format!("wrong-day|era={},leap={},delta={:+}", era, leap_class(cal::display_year(a)), (day - t).clamp(-400, 400)) } else { format!("time-changed|era={}", era) };
                rec.violation(format!("C02|setter|{}|{}", api, kind), || w(json!({"day": day, "detail": why})));
            } else if rdoy != doy {
                rec.violation(format!("C02|setter|{}|readback-mismatch|era={}", api, era), || w(json!({"day": day, "day_of_year()": rdoy})));
            }
        }
        (Ok(Ok((_, _, day))), None) => rec.violation(format!("C02|setter|{}|accepted-invalid|{}", api, cls), || w(json!({"day": day}))),
        (Ok(Err(e)), Some(_)) => rec.violation(format!("C02|setter|{}|refused-valid|era={},{}", api, era, cls), || w(json!({"error": e.to_string()}))),
        (Ok(Err(e)), None) => {
            if !matches!(e, AstrolabeError::OutOfRange(_)) {
                rec.violation(format!("C02|setter|{}|wrong-error-kind|{}", api, cls), || w(json!({"error": format!("{:?}", e)})));
            }
        }
    }
    if rec.want_sample() {
        rec.sample(|| w(json!("(see verdict)")));
    }
}

/// set_day_of_year on a DateTime carrying an offset: "the same year" is the year the value shows.
fn judge_setter_with_offset(rec: &mut Rec, i: i128, off: i32, doy: u32) {
    use crate::model::instant::*;
    rec.eval();
    rec.api("DateTime::set_day_of_year (with offset)");
    let local = i + off as i128 * NS;
    let same_year = fields(i).year == fields(local).year;
    rec.bin(if same_year { "setdoy-offset/local-year=utc-year" } else { "setdoy-offset/local-year≠utc-year" });
    rec.nontrivial(hash_i128s(&[i, off as i128, doy as i128, 0x02]));
    // the getters this property owns, on the value as it is read under its offset (absolute, any offset)
    if representable(local - D) && representable(local + D) && representable(i - D) && representable(i + D) {
        if let Some((v, _)) = sane_value(i, off) {
            let lday = local.div_euclid(D) as i64;
            match trap(|| (v.weekday() as u32, v.day_of_year())) {
                Ok(g) if g == (cal::weekday_sun0(lday), cal::day_of_year(lday)) => {}
                Ok(g) => rec.violation(format!("C02|getters-with-offset|DateTime::weekday/day_of_year|wrong-value|{}", if off.unsigned_abs() > 86_399 { "offset-of-a-day-or-more" } else { "offset-within-a-day" }), || json!({"utc": show(i), "offset": off, "local": show(local), "(weekday, day_of_year)": format!("{:?}", g), "model": format!("{:?}", (cal::weekday_sun0(lday), cal::day_of_year(lday)))})),
                Err(p) => rec.violation(format!("C02|getters-with-offset|DateTime::weekday/day_of_year|panic|{},{}", p.class, p.site()), || json!({"utc": show(i), "offset": off, "panic": p.to_json()})),
            }
        }
    }
    let exp = super::c09::model_set(local, 3, doy as i64);
    if let Ok(l) = exp {
        if !(representable(l + D) && representable(l - D) && representable(l - off as i128 * NS - D) && representable(l - off as i128 * NS + D)) {
            // within a day of a range end: the N-th day may exist in local time while its UTC instant does not.
            // Then only this much is demanded: a returned value is the N-th day of the same year (never a wrapped
            // or neighbouring one) — refusing is fine, returning something else or panicking is not.
            rec.bin("setdoy-offset/result-within-a-day-of-a-range-end");
            let Some((start, _)) = sane_value(i, off) else {
                rec.bin(super::diff::SKIP_START);
                return;
            };
            let eu = l - off as i128 * NS;
            let r = trap(|| start.set_day_of_year(doy).map(|x| (trap(|| read(&x)).ok(), trap(|| (x.year(), x.day_of_year())).ok())));
            let wit = |obs: serde_json::Value| json!({"start_utc": show(i), "offset": off, "start_local": show(local), "set_day_of_year": doy, "model_local_result": show(l), "model_utc_result_representable": representable(eu), "observed": obs});
            match r {
                Err(p) => rec.violation(format!("C02|setter-offset|DateTime::set_day_of_year|panic-at-range-end|{},{}", p.class, p.site()), || wit(p.to_json())),
                Ok(Err(_)) => {}
                Ok(Ok((got, yd))) => {
                    let right = representable(eu) && got == Some(eu) && (yd.is_none() || yd == Some((fields(l).year as i32, doy)));
                    if !right {
                        rec.violation("C02|setter-offset|DateTime::set_day_of_year|returned-another-day-at-range-end".to_string(), || wit(json!({"result_utc": got.map(show), "(year(), day_of_year())": format!("{:?}", yd)})));
                    }
                }
            }
            return;
        }
    }
    let Some((start, _)) = sane_value(i, off) else {
        rec.bin(super::diff::SKIP_START);
        return;
    };
    let want_i = exp.map(|l| l - off as i128 * NS).unwrap_or(0);
    let r = trap(|| {
        start.set_day_of_year(doy).map(|x| {
            let c: i8 = match diff_with_expected(&x, want_i, off) {
                Ok(Diff::Same) => 1,
                Ok(Diff::Skip) => -1,
                _ => 0,
            };
            (c, read(&x), x.year(), x.day_of_year())
        })
    });
    let wit = |obs: serde_json::Value| json!({"start_utc": show(i), "offset": off, "start_local": show(local), "set_day_of_year": doy, "model_local_result": exp.map(show).map_err(|_| "must be refused"), "observed": obs});
    match (r, exp) {
        (Err(p), _) => rec.violation(format!("C02|setter-offset|DateTime::set_day_of_year|panic|{},{}", p.class, p.site()), || wit(p.to_json())),
        (Ok(Ok((-1, _, _, _))), Ok(_)) => rec.bin(super::diff::SKIP_EXPECTED),
        (Ok(Ok((c, got, y, d))), Ok(_)) => {
            if c == 0 || d != doy {
                rec.violation(format!("C02|setter-offset|DateTime::set_day_of_year|wrong-day|{}", if same_year { "local-year=utc-year" } else { "local-year≠utc-year" }), || wit(json!({"result_local": show(got + off as i128 * NS), "year()": y, "day_of_year()": d})));
            }
        }
        (Ok(Ok((_, got, _, _))), Err(())) => rec.violation("C02|setter-offset|DateTime::set_day_of_year|accepted-invalid".to_string(), || wit(json!({"result_local": show(got + off as i128 * NS)}))),
        (Ok(Err(e)), Ok(_)) => rec.violation("C02|setter-offset|DateTime::set_day_of_year|refused-valid".to_string(), || wit(json!({"error": e.to_string()}))),
        (Ok(Err(_)), Err(())) => {}
    }
}

pub fn run(ctx: &Ctx) -> PropResult {
    let full = !ctx.quick() && ctx.san();
    let years = year_set(ctx);
    let mut wls = day_sweeps(ctx, "getters", full, 1021, 61, judge_getters);
    // format fields: ~1 µs per day; the full sweep is thorough/san only
    let fmt_judge = |rec: &mut Rec, n: i64, hashed: bool| judge_format(rec, n, hashed, n.rem_euclid(16) == 3);
    if full {
        wls.extend(day_sweeps(ctx, "format", true, 1, 1, fmt_judge));
    } else {
        // every 7th+1 day keeps all weekdays in rotation (7k+1 is coprime to 7 only for the stride; use 8)
        let cyc = 146_097i64;
        let mk = |name: &'static str, lo: i64, hi: i64, stride: u64| {
            let count = ((hi - lo) as u64) / stride + 1;
            Workload::chunks(name, count, 1 << 13, move |rec, r| {
                for k in r {
                    fmt_judge(rec, lo + (k * stride) as i64, true);
                }
            })
        };
        let s = if ctx.quick() { 8 } else { 1 };
        wls.push(mk("format_around_era_boundary", -3 * cyc, 3 * cyc, s));
        wls.push(mk("format_1500_2500", cal::days_from_civil(1500, 1, 1), cal::days_from_civil(2500, 12, 31), s));
        wls.push(mk("format_low_range_end", cal::MIN_DAY, cal::MIN_DAY + cyc, s));
        wls.push(mk("format_high_range_end", cal::MAX_DAY - cyc, cal::MAX_DAY, s));
        wls.push(mk("format_strided_whole_range", cal::MIN_DAY, cal::MAX_DAY, if ctx.quick() { 8_191 } else { 61 }));
        // year edges of every year in a window: where week 52/53/1 is decided
        wls.push(Workload::cases("format_year_edges", ctx.count(40_000, 400_000), move |rec, idx, rng| {
            let a = if idx % 2 == 0 { rng.range_i64(-4000, 4000) } else { rng.range_i64(-5_879_000, 5_879_000) };
            let jan1 = cal::days_from_civil(a, 1, 1);
            for off in -4..=3 {
                fmt_judge(rec, jan1 + off, true);
            }
        }));
    }
    // consecutive calls whose day numbers differ by a power-of-two number of days or weeks: what a memo with a
    // truncated or shifted key (week index << 6, day >> k, …) confuses, and independent random days never do
    wls.push(Workload::cases("formatted_fields_in_random_company", ctx.count(250_000, 5_000_000), move |rec, idx, rng| {
        let n = match rng.below(4) {
            0 => cal::days_from_civil(rng.range_i64(-3000, 3000), 1, 1) + rng.range_i64(-8, 8),
            1 => rng.range_i64(cal::days_from_civil(1990, 1, 1), cal::days_from_civil(2040, 1, 1)),
            2 => rng.range_i64(-800, 800),
            _ => rng.range_i64(cal::MIN_DAY + 400, cal::MAX_DAY - 400),
        };
        let on_dt = idx % 3 != 0;
        let tod = match rng.below(4) {
            0 => rng.below(3_600_000_000_000),
            1 => 23 * 3_600_000_000_000 + rng.below(3_600_000_000_000),
            2 => *rng.pick(&[0u64, 1, 86_399_999_999_999, 43_200_000_000_000]),
            _ => rng.below(86_400_000_000_000),
        };
        let off = if on_dt && rng.chance(1, 2) { crate::model::instant::gen_offset(rng) } else { 0 };
        judge_company(rec, rng, n, if on_dt { tod } else { 0 }, off, on_dt);
    }));
    wls.push(Workload::cases("format_power_of_two_stride_pairs", ctx.count(20_000, 600_000), move |rec, _, rng| {
        let d0 = match rng.below(3) {
            0 => rng.range_i64(-800_000, 800_000),
            1 => cal::days_from_civil(rng.range_i64(1900, 2100), 1, 1) + rng.range_i64(-5, 370),
            _ => rng.range_i64(cal::MIN_DAY, cal::MAX_DAY),
        };
        fmt_judge(rec, d0, true);
        let unit: i64 = *rng.pick(&[1i64, 7, 7, 146_097]);
        for _ in 0..3 {
            let j = rng.range_i64(8, 31);
            let k = rng.range_i64(1, 4);
            let d1 = d0 + *rng.pick(&[1i64, -1]) * unit.saturating_mul(k << j.min(40));
            if (cal::MIN_DAY..=cal::MAX_DAY).contains(&d1) {
                rec.bin("format/stride-pair(2^j days or weeks apart, consecutive calls)");
                fmt_judge(rec, d1, true);
                fmt_judge(rec, d0, true);
            }
        }
    }));
    let ys = &years;
    let thin: u64 = if ctx.quick() { 6 } else { 1 };
    wls.push(Workload::cases("set_day_of_year_year_grid", years.len() as u64, move |rec, idx, rng| {
        let y = ys[idx as usize];
        if y == 0 || y < cal::MIN_DATE.0 || y > cal::MAX_DATE.0 {
            return;
        }
        let near = y.abs() >= 5_879_600 || y.abs() <= 401;
        if !near && idx % thin != 0 {
            return;
        }
        let a = cal::astro_year(y);
        // a representable start date inside the year
        let mut starts = vec![cal::days_from_civil(a, 1, 1), cal::days_from_civil(a, 3, 1), cal::days_from_civil(a, 12, 31), cal::days_from_civil(a, 7, 1)];
        starts.retain(|d| (cal::MIN_DAY..=cal::MAX_DAY).contains(d));
        if starts.is_empty() {
            return;
        }
        let start = *rng.pick(&starts);
        let on_dt = idx % 8 == 1 || near;
        for doy in 0..=367u32 {
            judge_setter(rec, start, doy, false, 0);
            if on_dt && (doy % 5 == 0 || doy >= 364 || doy <= 1) {
                judge_setter(rec, start, doy, true, rng.below(86_400_000_000_000));
            }
        }
        judge_setter(rec, start, u32::MAX, false, 0);
        judge_setter(rec, start, 1 << 31, on_dt, 0);
    }));
    wls.push(Workload::cases("set_day_of_year_datetime_with_offset", ctx.count(60_000, 2_000_000), |rec, _, rng| {
        use crate::model::instant::{D, NS};
        // instants within a day of a New Year (both sides), offsets that do / do not move the local year
        if rng.chance(1, 6) {
            // the two partly representable years: receivers anywhere in their representable part, N around the
            // last / first representable day (193 = 12 July 5879611, 174 = 23 June -5879611), offsets of both signs
            use crate::model::instant::{gen_offset, MAX_INSTANT, MIN_INSTANT};
            let hi = rng.chance(1, 2);
            let span = if hi { 192i128 } else { 191 };
            let i = if hi { MAX_INSTANT - 2 * D - rng.range_i128(0, (span - 3) * D) } else { MIN_INSTANT + 2 * D + rng.range_i128(0, (span - 3) * D) };
            let off = if rng.chance(1, 3) { 0 } else { gen_offset(rng) };
            let edge = if hi { 193i64 } else { 174 };
            let doy = match rng.below(3) {
                0 => (edge + rng.range_i64(-2, 2)) as u32,
                1 => *rng.pick(&[1u32, 2, 365, 366, 100, 200]),
                _ => 1 + rng.below(366) as u32,
            };
            judge_setter_with_offset(rec, i, off, doy);
            return;
        }
        let a = match rng.below(3) {
            0 => rng.range_i64(-3000, 3000),
            1 => *rng.pick(&[-4i64, -3, 0, 1, 1900, 2000, 2023, 2024, 2025, 2100]),
            _ => rng.range_i64(1970, 2100),
        };
        let ny = cal::days_from_civil(a, 1, 1) as i128 * D;
        let i = match rng.below(3) {
            0 => ny + rng.range_i128(-86_399, 86_399) * NS,
            1 => ny + rng.range_i128(-3 * 86_400, 3 * 86_400) * NS + rng.range_i128(0, NS - 1),
            _ => super::c09::gen_c09_instant(rng),
        };
        // (one case in ten with an Offset::Fixed of a day or more: the statement is about the value's own day and
        // year, whatever offset defines it)
        let off = if rng.chance(1, 10) { crate::model::instant::gen_offset_any(rng) } else { super::c09::gen_c09_offset(rng, i) };
        let doy = match rng.below(4) {
            0 => *rng.pick(&[0u32, 1, 59, 60, 61, 365, 366, 367]),
            _ => 1 + rng.below(366) as u32,
        };
        judge_setter_with_offset(rec, i, off, doy);
    }));
    if full {
        // EXHAUSTIVE: every representable year x day-of-year 0..=367 on Date (4.3e9 setter calls).
        let y0: i64 = -5_879_611;
        let ny: u64 = 2 * 5_879_611 + 1;
        wls.push(Workload::chunks("set_day_of_year_ALL_years_x_doy", ny, 256, move |rec, r| {
            let mut n_ok = 0u64;
            let mut n_refused = 0u64;
            for k in r.clone() {
                let y = y0 + k as i64;
                if y == 0 {
                    continue;
                }
                let a = cal::astro_year(y);
                // a representable day inside the year
                let jan1 = cal::days_from_civil(a, 1, 1);
                let start = jan1.max(cal::MIN_DAY).min(cal::MAX_DAY);
                if cal::civil_from_days(start).0 != a {
                    continue;
                }
                let d = match trap(|| Date::from_timestamp(ts_of_day(start))) {
                    Ok(d) => d,
                    Err(_) => continue,
                };
                for doy in 0..=367u32 {
                    let target = cal::day_from_year_doy(a, doy).filter(|t| (cal::MIN_DAY..=cal::MAX_DAY).contains(t));
                    let got = trap(|| d.set_day_of_year(doy).map(|x| x.timestamp()));
                    let fine = match (&got, target) {
                        (Ok(Ok(ts)), Some(t)) => *ts == ts_of_day(t),
                        (Ok(Err(AstrolabeError::OutOfRange(_))), None) => true,
                        _ => false,
                    };
                    if fine {
                        if target.is_some() {
                            n_ok += 1;
                        } else {
                            n_refused += 1;
                        }
                    } else {
                        rec.cur_idx = k;
                        judge_setter(rec, start, doy, false, 0);
                    }
                }
            }
            rec.evals(n_ok + n_refused);
            rec.api_n("Date::set_day_of_year", n_ok + n_refused);
            rec.nontrivial_counted(n_ok + n_refused);
            *rec.bins.entry("exhaustive-setdoy/landed").or_insert(0) += n_ok;
            *rec.bins.entry("exhaustive-setdoy/refused").or_insert(0) += n_refused;
        }));
    }
    let out = run_workloads(ctx, wls);
    let mut meta = PropMeta::default();
    meta.exhaustive = full;
    meta.rule = format!(
        "getters: weekday()/day_of_year() of {} compared with the calendar model ((n+1) mod 7 with day 0 = Monday; doy by definition). format: one Date::format(\"e|eeeeeee|w|q|D\") call per day ({}), fields compared with model weekday, Monday-based weekday, ISO week (week of the Thursday), quarter and day of year; every 16th day also through DateTime at 23:59:59. setter: {} years x day-of-year 0..=367 (+2^31, u32::MAX) on Date, a subset on DateTime with a random time of day, and on DateTimes within a day of New Year carrying offsets that do / do not move the local year. Non-trivial = a day in Jan 1-3 / Dec 29-31 (week 52/53/1 decisions) or a Sunday before 0001-01-01; every setter case. Distinct by input hash (full sweeps: counted, each day once). Consecutive format calls on days a power-of-two number of days or weeks (or 400-year cycles) apart, and back. set_day_of_year on DateTimes in the two partly representable years with N around the last/first representable day and offsets of both signs: there a returned value must be the N-th day of that year (refusing is fine, another day or a panic is not). weekday()/day_of_year() of DateTimes under any offset — one case in ten with an Offset::Fixed of a day or more — against the model's local day.",
        if full { "ALL 2^32 day numbers" } else { "the C01 day windows + strided whole range" },
        if full { "ALL 2^32 days" } else { "windows at stride 8 (quick) / 1 (thorough-rel), strided whole range, random year edges" },
        years.len()
    );
    meta.required_bins = vec![
        "company/date", "company/datetime-first-hour-of-the-local-day", "company/datetime-last-hour-of-the-local-day", "company/datetime-other-hours",
        "weekday/BC/0", "weekday/BC/6", "weekday/AD/0", "weekday/AD/3", "doy366/BC", "doy366/AD",
        "yearstart/BC/week53", "yearstart/AD/week52", "yearstart/AD/week1", "yearend/AD/week1", "yearend/BC/week1", "yearend/AD/week53",
        "fmt:yearstart/BC/week53", "fmt:yearend/AD/week53", "fmt:yearend/BC/week1",
        "setdoy-offset/local-year=utc-year", "setdoy-offset/local-year≠utc-year", "setdoy/in-year", "setdoy/zero", "setdoy/366-in-common-year", "setdoy/366-in-leap-year", "setdoy/beyond-year", "setdoy/beyond-range-end",
    ];
    if full {
        meta.required_bins.push("exhaustive-setdoy/landed");
        meta.required_bins.push("exhaustive-setdoy/refused");
        meta.rule.push_str(" Thorough additionally: set_day_of_year for ALL representable years x day-of-year 0..=367 on Date (exhaustive over the setter's quantifier).");
    }
    meta.assumptions = vec!["calendar model as in C01; ISO week = week containing the Thursday, computed on astronomical years".into()];
    Ok((meta, out))
}
