//! C03 — Unix timestamps and ordering are a faithful linear time line.

use super::pairs::*;
use super::PropResult;
use crate::core::*;
use crate::model::calendar as cal;
use crate::model::instant::*;
use super::diff::*;
use astrolabe::{Date, DateTime, DateUtilities, TimeUtilities};
use serde_json::json;
use std::cmp::Ordering;

fn ts_class(ts: i64) -> &'static str {
    if ts < MIN_TS {
        "ts/out-low"
    } else if ts > MAX_TS {
        "ts/out-high"
    } else if ts <= MIN_TS + 2 * 86_400 || ts >= MAX_TS - 2 * 86_400 {
        "ts/in-range-edge"
    } else if ts < 0 && ts.rem_euclid(86_400) != 0 {
        "ts/neg-non-aligned"
    } else if ts < 0 {
        "ts/neg-day-aligned"
    } else {
        "ts/pos"
    }
}

fn judge_ts(rec: &mut Rec, ts: i64) {
    rec.eval();
    let cls = ts_class(ts);
    rec.bin(cls);
    if cls != "ts/pos" {
        rec.nontrivial(mix64(ts as u64));
    }
    let in_range = (MIN_TS..=MAX_TS).contains(&ts);
    // DateTime
    rec.api("DateTime::from_timestamp");
    let r = trap(|| {
        let dt = DateTime::from_timestamp(ts);
        (dt.timestamp(), dt.as_ymdhms(), dt.nano(), read(&dt), dt)
    });
    match (r, in_range) {
        (Ok((back, f, ns, inst, dt)), true) => {
            rec.outcome("value");
            let model_i = (ts as i128 + cal::DAYS_TO_1970 as i128 * 86_400) * NS;
            let mf = fields(model_i);
            if back != ts {
                rec.violation(format!("C03|ts|DateTime::from_timestamp→timestamp|roundtrip-mismatch|{}", cls), || json!({"timestamp": ts, "back": back}));
            }
            // the time line is linear: the order of the values is the order of their timestamps
            for other in [ts.saturating_sub(1), ts.saturating_add(1), ts.saturating_sub(86_400), ts.saturating_add(86_400), 0, ts.div_euclid(86_400) * 86_400] {
                if !(MIN_TS..=MAX_TS).contains(&other) {
                    continue;
                }
                let exp = ts.cmp(&other);
                match trap(|| {
                    let o = DateTime::from_timestamp(other);
                    (dt.cmp(&o), dt == o)
                }) {
                    Ok((c, eq)) => {
                        if c != exp || eq != (exp == Ordering::Equal) {
                            rec.violation(format!("C03|ts|DateTime::from_timestamp|order-of-values-is-not-order-of-timestamps|{}", cls), || {
                                json!({"timestamp_a": ts, "timestamp_b": other, "model_cmp": ord_name(exp), "observed_cmp": ord_name(c), "observed_eq": eq})
                            });
                            break;
                        }
                    }
                    Err(_) => {} // judged when `other` is itself the case
                }
            }
            // not this property's claim (calendar fields: C01; differences: C06) — recorded only
            if (f.0 as i64, f.1, f.2, f.3, f.4, f.5) != (mf.year, mf.month, mf.dom, mf.hour, mf.minute, mf.second) || ns != 0 {
                rec.bin("note/as_ymdhms-differs-from-model(other-property)");
            }
            if inst != model_i {
                rec.bin("note/nanos_since-differs-from-model(other-property)");
            }
        }
        (Ok((back, f, _, _, _)), false) => {
            rec.outcome("value");
            rec.violation(format!("C03|ts|DateTime::from_timestamp|returned-out-of-range|{}", cls), || {
                json!({"timestamp": ts, "valid_range": [MIN_TS, MAX_TS], "returned_timestamp": back, "ymdhms": [f.0 as i64, f.1 as i64, f.2 as i64, f.3 as i64, f.4 as i64, f.5 as i64]})
            });
        }
        (Err(p), true) => {
            rec.outcome("panic");
            rec.violation(format!("C03|ts|DateTime::from_timestamp|panic-in-range|{},{}", p.class, p.site()), || json!({"timestamp": ts, "panic": p.to_json()}));
        }
        (Err(_), false) => rec.outcome("refused(panic)"),
    }
    // Date
    rec.api("Date::from_timestamp");
    let r = trap(|| {
        let d = Date::from_timestamp(ts);
        (d.timestamp(), d.as_ymd())
    });
    match (r, in_range) {
        (Ok((back, ymd)), true) => {
            let exp = ts.div_euclid(86_400) * 86_400;
            let e = cal::ymd(ts.div_euclid(86_400) + cal::DAYS_TO_1970);
            if back != exp {
                rec.violation(format!("C03|ts|Date::from_timestamp→timestamp|not-floored-to-day|{}", cls), || json!({"timestamp": ts, "expected": exp, "observed": back}));
            }
            if (ymd.0 as i64, ymd.1, ymd.2) != e {
                rec.bin("note/as_ymd-differs-from-model(other-property)");
            }
            // Date order is day order
            for other in [ts.saturating_sub(86_400), ts.saturating_add(86_400), 0, ts.div_euclid(86_400) * 86_400, ts.div_euclid(86_400) * 86_400 - 1] {
                if !(MIN_TS..=MAX_TS).contains(&other) {
                    continue;
                }
                let expo = ts.div_euclid(86_400).cmp(&other.div_euclid(86_400));
                if let Ok((c, eq)) = trap(|| {
                    let (a, b) = (Date::from_timestamp(ts), Date::from_timestamp(other));
                    (a.cmp(&b), a == b)
                }) {
                    if c != expo || eq != (expo == Ordering::Equal) {
                        rec.violation(format!("C03|ts|Date::from_timestamp|order-of-values-is-not-day-order-of-timestamps|{}", cls), || json!({"timestamp_a": ts, "timestamp_b": other, "model_cmp": ord_name(expo), "observed_cmp": ord_name(c), "observed_eq": eq}));
                        break;
                    }
                }
            }
        }
        (Ok((back, _)), false) => rec.violation(format!("C03|ts|Date::from_timestamp|returned-out-of-range|{}", cls), || json!({"timestamp": ts, "returned_timestamp": back})),
        (Err(p), true) => rec.violation(format!("C03|ts|Date::from_timestamp|panic-in-range|{},{}", p.class, p.site()), || json!({"timestamp": ts, "panic": p.to_json()})),
        (Err(_), false) => {}
    }
    if rec.want_sample() {
        rec.sample(|| json!({"timestamp": ts, "class": cls, "in_range": in_range}));
    }
}

fn boundary_timestamps() -> Vec<i64> {
    let mut v = vec![];
    for base in [MIN_TS, MAX_TS, 0, -cal::DAYS_TO_1970 * 86_400] {
        for d in -3..=3i64 {
            for e in [-2i64, -1, 0, 1, 2, 86_399, 86_400, 86_401, -86_399, -86_400, -86_401, 43_200] {
                if let Some(x) = base.checked_add(d * 86_400).and_then(|x| x.checked_add(e)) {
                    v.push(x);
                }
            }
        }
    }
    for e in 0..=3i64 {
        v.push(i64::MIN + e);
        v.push(i64::MAX - e);
    }
    for sh in [32, 40, 48, 56, 62] {
        v.push(1i64 << sh);
        v.push(-(1i64 << sh));
        v.push((1i64 << sh) - 1);
    }
    v.sort_unstable();
    v.dedup();
    v
}

fn ord_name(o: Ordering) -> &'static str {
    match o {
        Ordering::Less => "Less",
        Ordering::Equal => "Equal",
        Ordering::Greater => "Greater",
    }
}

fn sign_ok(ord: Ordering, v: i128) -> bool {
    match ord {
        Ordering::Less => v <= 0,
        Ordering::Equal => v == 0,
        Ordering::Greater => v >= 0,
    }
}

fn judge_pair(rec: &mut Rec, p: &Pair) {
    rec.eval();
    rec.bin(p.class);
    if p.class != "pair/far" || p.o1 != p.o2 {
        rec.nontrivial(hash_i128s(&[p.i, p.j, p.o1 as i128, p.o2 as i128]));
    }
    if p.o1 != p.o2 {
        rec.bin("pair/different-offsets");
    }
    let exp = p.i.cmp(&p.j);
    let (Some((a, _)), Some((b, _))) = (sane_value(p.i, p.o1), sane_value(p.j, p.o2)) else {
        rec.bin(SKIP_START);
        return;
    };
    // each *_since in its own trap: a panic there gives no sign to compare (the totality of the
    // differences is C06/C07's claim), a panic in ==/cmp is this property's
    type SinceFn = fn(&DateTime, &DateTime) -> i128;
    let fns: [(&'static str, SinceFn); 9] = [
        ("nanos_since", |a, b| a.nanos_since(b)),
        ("micros_since", |a, b| a.micros_since(b)),
        ("millis_since", |a, b| a.millis_since(b)),
        ("seconds_since", |a, b| a.seconds_since(b) as i128),
        ("minutes_since", |a, b| a.minutes_since(b) as i128),
        ("hours_since", |a, b| a.hours_since(b) as i128),
        ("days_since", |a, b| a.days_since(b) as i128),
        ("months_since", |a, b| a.months_since(b) as i128),
        ("years_since", |a, b| a.years_since(b) as i128),
    ];
    let mut sinces: Vec<(&'static str, i128)> = vec![];
    for (name, f) in fns.iter() {
        match trap(|| f(&a, &b)) {
            Ok(v) => sinces.push((name, v)),
            Err(_) => rec.bin("note/a-since-panicked(other-property)"),
        }
    }
    // every way the order can be read: ==, !=, cmp, partial_cmp, <, >, <=, >=, max, min, clamp
    let extra = trap(|| {
        let lo_hi_ok = a <= b;
        let later = if exp == Ordering::Less { b } else { a };
        let earlier = if exp == Ordering::Greater { b } else { a };
        (a <= b, a >= b, a != b, a.max(b) == later && read(&a.max(b)) == read(&later), a.min(b) == earlier && read(&a.min(b)) == read(&earlier), std::cmp::max(a, b) == later, if lo_hi_ok { a.clamp(a, b) == a } else { b.clamp(b, a) == b })
    });
    match extra {
        Err(pn) => rec.violation(format!("C03|pairs|DateTime <=/>=/max/min|panic|{},{}", pn.class, pn.site()), || json!({"a": {"instant": show(p.i), "offset": p.o1}, "b": {"instant": show(p.j), "offset": p.o2}, "panic": pn.to_json()})),
        Ok((le, ge, ne, maxok, minok, stdmax, clampok)) => {
            if le != (exp != Ordering::Greater) || ge != (exp != Ordering::Less) || ne != (exp != Ordering::Equal) || !maxok || !minok || !stdmax || !clampok {
                rec.violation(format!("C03|pairs|DateTime <=/>=/!=/max/min/clamp|disagrees-with-instants|{},model={}", p.class, ord_name(exp)), || {
                    json!({"a": {"instant": show(p.i), "offset": p.o1}, "b": {"instant": show(p.j), "offset": p.o2}, "le": le, "ge": ge, "ne": ne, "max_is_the_later_instant": maxok, "min_is_the_earlier_instant": minok, "std::cmp::max": stdmax, "clamp": clampok})
                });
            }
        }
    }
    let r = trap(|| (a == b, a.cmp(&b), a.partial_cmp(&b), a < b, a > b, b.cmp(&a), sinces.clone()));
    rec.api("DateTime::cmp/eq");
    let wit = |obs: serde_json::Value| json!({"a": {"instant": show(p.i), "offset": p.o1}, "b": {"instant": show(p.j), "offset": p.o2}, "class": p.class, "model_cmp": ord_name(exp), "observed": obs});
    match r {
        Err(pn) => rec.violation(format!("C03|pairs|DateTime ==/cmp|panic|{},{}", pn.class, pn.site()), || wit(pn.to_json())),
        Ok((eq, c, pc, lt, gt, rc, sinces)) => {
            let consistent = eq == (exp == Ordering::Equal) && c == exp && pc == Some(exp) && lt == (exp == Ordering::Less) && gt == (exp == Ordering::Greater) && rc == exp.reverse();
            if !consistent {
                rec.violation(format!("C03|pairs|DateTime ==/cmp|disagrees-with-instants|{},model={}", p.class, ord_name(exp)), || {
                    wit(json!({"eq": eq, "cmp": ord_name(c), "lt": lt, "gt": gt, "reverse_cmp": ord_name(rc)}))
                });
            }
            for (name, v) in sinces.iter() {
                rec.api(name);
                if !sign_ok(exp, *v) {
                    rec.violation(format!("C03|pairs|DateTime::{}|sign-contradicts-order|{},model={}", name, p.class, ord_name(exp)), || wit(json!({"since": name, "value": v.to_string()})));
                }
            }
        }
    }
    if rec.want_sample() {
        rec.sample(|| wit(json!("(see verdict)")));
    }
}

/// Values whose UTC instant is representable but whose *local* reading is not (within |offset| of a range end, the
/// offset pointing outwards).  They cannot be built with set_offset (it refuses); they arise when a value that
/// already carries the offset is moved there.  Ordering and equality are defined on the UTC instant, so they must
/// work on such values like on any other.
fn judge_outward_pair(rec: &mut Rec, rng: &mut Rng) {
    rec.eval();
    let off = match rng.below(3) {
        0 => *rng.pick(&[3600i32, 7200, 86_399, 1, 43_200]),
        _ => 1 + rng.below(86_399) as i32,
    };
    let high = rng.chance(1, 2);
    let off = if high { off } else { -off };
    // target instant: inside the band whose local reading is out of range
    let depth = rng.range_i128(0, off.unsigned_abs() as i128 * NS - 1);
    let i = if high { MAX_INSTANT - depth } else { MIN_INSTANT + depth };
    let back: i128 = 3 * 86_400;
    let i0 = if high { i - back * NS } else { i + back * NS };
    rec.bin("outward/local-reading-beyond-the-range-end");
    rec.nontrivial(hash_i128s(&[i, off as i128, 0x0303]));
    let Some((a0, _)) = sane_value(i0, off) else {
        rec.bin(SKIP_START);
        return;
    };
    // move it there (arithmetic is C04's; if the value does not arrive, this case says nothing)
    let a = match trap(|| if high { a0.add_seconds(back as u32) } else { a0.sub_seconds(back as u32) }) {
        Ok(a) => a,
        Err(_) => {
            rec.bin("outward/could-not-move-the-value-there(other-property)");
            return;
        }
    };
    if trap(|| read(&a)).ok() != Some(i) {
        rec.bin("outward/could-not-move-the-value-there(other-property)");
        return;
    }
    let j = match rng.below(4) {
        0 => i,
        1 => i.div_euclid(NS) * NS + rng.range_i128(0, NS - 1),
        2 => (i + rng.range_i128(-5 * NS, 5 * NS)).clamp(MIN_INSTANT, MAX_INSTANT),
        _ => (i + if high { -rng.range_i128(0, 2 * D) } else { rng.range_i128(0, 2 * D) }).clamp(MIN_INSTANT, MAX_INSTANT),
    };
    let Some((b, _)) = sane_value(j, 0) else {
        rec.bin(SKIP_START);
        return;
    };
    let exp = i.cmp(&j);
    rec.api("DateTime::cmp/eq");
    let wit = |obs: serde_json::Value| json!({"a": {"instant": show(i), "offset": off, "note": "local reading lies beyond the range end; built by attaching the offset 3 days inside and moving with add_/sub_seconds"}, "b": {"instant": show(j), "offset": 0}, "model_cmp": ord_name(exp), "observed": obs});
    match trap(|| (a == b, b == a, a.cmp(&b), b.cmp(&a), a.partial_cmp(&b), a < b, a > b, a <= b, a.max(b) == if exp == Ordering::Less { b } else { a }, a.timestamp())) {
        Err(pn) => rec.violation(format!("C03|outward-offset-pairs|DateTime ==/cmp|panic|{},{}", pn.class, pn.site()), || wit(pn.to_json())),
        Ok((eq, eq2, c, rc, pc, lt, gt, le, maxok, ts)) => {
            let ok = eq == (exp == Ordering::Equal) && eq2 == eq && c == exp && rc == exp.reverse() && pc == Some(exp) && lt == (exp == Ordering::Less) && gt == (exp == Ordering::Greater) && le == (exp != Ordering::Greater) && maxok;
            if !ok {
                rec.violation(format!("C03|outward-offset-pairs|DateTime ==/cmp|disagrees-with-instants|model={}", ord_name(exp)), || wit(json!({"eq": eq, "cmp": ord_name(c), "reverse_cmp": ord_name(rc), "lt": lt, "gt": gt, "le": le, "max_is_the_later": maxok})));
            }
            let want_ts = (i.div_euclid(NS) - cal::DAYS_TO_1970 as i128 * 86_400) as i64;
            if ts != want_ts {
                rec.violation("C03|outward-offset-pairs|DateTime::timestamp|wrong-value".to_string(), || wit(json!({"timestamp": ts, "model": want_ts})));
            }
        }
    }
}

fn judge_date_pair(rec: &mut Rec, d1: i64, d2: i64) {
    rec.eval();
    rec.api("Date::cmp/eq");
    let exp = d1.cmp(&d2);
    rec.bin(if d1 == d2 { "datepair/equal" } else if (d1 < 0) != (d2 < 0) { "datepair/straddles-era" } else { "datepair/other" });
    rec.nontrivial(hash_i128s(&[d1 as i128, d2 as i128, 77]));
    let (Some(a), Some(b)) = (sane_date(d1), sane_date(d2)) else {
        rec.bin(SKIP_START);
        return;
    };
    let since = |f: &dyn Fn() -> i128| trap(f).ok();
    let (ds, ms, ys) = (since(&|| a.days_since(&b) as i128), since(&|| a.months_since(&b) as i128), since(&|| a.years_since(&b) as i128));
    if ds.is_none() || ms.is_none() || ys.is_none() {
        rec.bin("note/a-since-panicked(other-property)");
    }
    let r = trap(|| (a == b, a.cmp(&b), a < b));
    let wit = |obs: serde_json::Value| {
        let (x, y) = (cal::ymd(d1), cal::ymd(d2));
        json!({"a": [x.0, x.1, x.2], "b": [y.0, y.1, y.2], "days": [d1, d2], "model_cmp": ord_name(exp), "observed": obs})
    };
    match r {
        Err(p) => rec.violation(format!("C03|datepairs|Date ==/cmp|panic|{},{}", p.class, p.site()), || wit(p.to_json())),
        Ok((eq, c, lt)) => {
            if eq != (exp == Ordering::Equal) || c != exp || lt != (exp == Ordering::Less) {
                rec.violation(format!("C03|datepairs|Date ==/cmp|disagrees-with-day-order|model={}", ord_name(exp)), || wit(json!({"eq": eq, "cmp": ord_name(c), "lt": lt})));
            }
            for (name, v) in [("days_since", ds), ("months_since", ms), ("years_since", ys)] {
                let Some(v) = v else { continue };
                if !sign_ok(exp, v) {
                    rec.violation(format!("C03|datepairs|Date::{}|sign-contradicts-order|model={}", name, ord_name(exp)), || wit(json!({"since": name, "value": v.to_string()})));
                }
            }
        }
    }
}

fn judge_time_pair(rec: &mut Rec, n1: u64, n2: u64, o1: i32, o2: i32) {
    rec.eval();
    rec.api("Time::cmp/eq");
    let exp = n1.cmp(&n2);
    rec.bin(if n1 == n2 { "timepair/equal" } else { "timepair/other" });
    rec.nontrivial(hash_i128s(&[n1 as i128, n2 as i128, o1 as i128, o2 as i128, 99]));
    let (Some((a, _)), Some((b, _))) = (sane_time(n1, o1), sane_time(n2, o2)) else {
        rec.bin(SKIP_START);
        return;
    };
    let r = trap(|| {
        let s: [(&'static str, i128); 6] = [
            ("nanos_since", a.nanos_since(&b) as i128),
            ("micros_since", a.micros_since(&b) as i128),
            ("millis_since", a.millis_since(&b) as i128),
            ("seconds_since", a.seconds_since(&b) as i128),
            ("minutes_since", a.minutes_since(&b) as i128),
            ("hours_since", a.hours_since(&b) as i128),
        ];
        (a == b, a.cmp(&b), a < b, s)
    });
    let wit = |obs: serde_json::Value| json!({"a_nanos": n1, "a_offset": o1, "b_nanos": n2, "b_offset": o2, "model_cmp": ord_name(exp), "observed": obs});
    match r {
        Err(p) => rec.violation(format!("C03|timepairs|Time cmp/since|panic|{},{}", p.class, p.site()), || wit(p.to_json())),
        Ok((eq, c, lt, s)) => {
            if eq != (exp == Ordering::Equal) || c != exp || lt != (exp == Ordering::Less) {
                rec.violation(format!("C03|timepairs|Time ==/cmp|disagrees-with-as_nanos-order|model={}", ord_name(exp)), || wit(json!({"eq": eq, "cmp": ord_name(c)})));
            }
            for (name, v) in s.iter() {
                if !sign_ok(exp, *v) {
                    rec.violation(format!("C03|timepairs|Time::{}|sign-contradicts-order|model={}", name, ord_name(exp)), || wit(json!({"since": name, "value": v.to_string()})));
                }
            }
        }
    }
}

pub fn run(ctx: &Ctx) -> PropResult {
    let bts = boundary_timestamps();
    let b = &bts;
    let mut wls = vec![];
    wls.push(Workload::cases("ts_boundaries", bts.len() as u64, move |rec, idx, _| judge_ts(rec, b[idx as usize])));
    wls.push(Workload::cases("ts_epoch_anchor", 1, |rec, _, _| {
        rec.eval();
        let r = trap(|| {
            let dt = DateTime::from_timestamp(0);
            let d = Date::from_timestamp(0);
            (dt.as_ymdhms(), dt.nano(), d.as_ymd(), DateTime::from_ymdhms(1970, 1, 1, 0, 0, 0).map(|x| x.timestamp()), Date::from_ymd(1970, 1, 1).map(|x| x.timestamp()))
        });
        rec.bin("anchor/1970-01-01=0");
        match r {
            Ok((f, 0, (1970, 1, 1), Ok(0), Ok(0))) if f == (1970, 1, 1, 0, 0, 0) => {}
            other => rec.violation("C03|anchor|from_timestamp(0)|not-1970-01-01T00:00:00".to_string(), || json!({"observed": format!("{:?}", other)})),
        }
    }));
    wls.push(Workload::cases("ts_random", ctx.count(400_000, 20_000_000), |rec, _, rng| {
        let ts = match rng.below(8) {
            0 => rng.next() as i64,
            1 => rng.range_i64(MIN_TS - 1_000_000, MIN_TS + 1_000_000),
            2 => rng.range_i64(MAX_TS - 1_000_000, MAX_TS + 1_000_000),
            3 => rng.range_i64(-cal::DAYS_TO_1970 * 86_400 - 400_000, -cal::DAYS_TO_1970 * 86_400 + 400_000),
            4 => rng.range_i64(-4_000_000_000, 4_000_000_000),
            5 => rng.range_i64(-100_000, 100_000) * 86_400 + *rng.pick(&[-1i64, 0, 1]),
            _ => rng.range_i64(MIN_TS, MAX_TS),
        };
        judge_ts(rec, ts);
    }));
    wls.push(Workload::cases("datetime_pairs", ctx.count(300_000, 10_000_000), |rec, _, rng| {
        let p = gen_pair(rng);
        judge_pair(rec, &p);
    }));
    wls.push(Workload::cases("date_pairs", ctx.count(100_000, 3_000_000), |rec, _, rng| {
        let d1 = match rng.below(4) {
            0 => rng.range_i64(-800, 800),
            1 => rng.range_i64(cal::MIN_DAY, cal::MIN_DAY + 800),
            2 => rng.range_i64(cal::MAX_DAY - 800, cal::MAX_DAY),
            _ => rng.range_i64(cal::MIN_DAY, cal::MAX_DAY),
        };
        let d2 = match rng.below(4) {
            0 => d1,
            1 => (d1 + rng.range_i64(-800, 800)).clamp(cal::MIN_DAY, cal::MAX_DAY),
            2 => (d1 + *rng.pick(&[-1i64, 1, 365, -365, 366, -366, 31, -31])).clamp(cal::MIN_DAY, cal::MAX_DAY),
            _ => rng.range_i64(cal::MIN_DAY, cal::MAX_DAY),
        };
        judge_date_pair(rec, d1, d2);
    }));
    wls.push(Workload::cases("time_pairs", ctx.count(100_000, 3_000_000), |rec, _, rng| {
        let dn = 86_400_000_000_000u64;
        let n1 = match rng.below(3) {
            0 => rng.below(86_400) * 1_000_000_000 + *rng.pick(&[0u64, 1, 999_999_999]),
            1 => *rng.pick(&[0u64, 1, dn - 1, dn / 2, dn / 2 - 1]),
            _ => rng.below(dn),
        };
        let n2 = match rng.below(4) {
            0 => n1,
            1 => (n1 as i128 + *rng.pick(&[-1i128, 1, 1_000, -1_000, 999_999_999, -1_000_000_000, 3_600_000_000_000, -3_599_999_999_999])).clamp(0, dn as i128 - 1) as u64,
            _ => rng.below(dn),
        };
        let (n1, n2) = if rng.chance(1, 6) {
            let (a, b, tag) = crate::model::magic::alias_time_pair(rng, n1);
            rec.bin(tag);
            (a, b)
        } else {
            (n1, n2)
        };
        judge_time_pair(rec, n1, n2, gen_offset(rng), gen_offset(rng));
    }));
    // call sequences: a timestamp, then timestamps a power-of-two number of seconds / days away, its negative, the
    // same second of another day, and the first again
    wls.push(Workload::cases("ts_sibling_sequences", ctx.count(30_000, 1_000_000), |rec, _, rng| {
        let ts = match rng.below(3) {
            0 => rng.range_i64(-4_000_000_000, 8_000_000_000),
            1 => rng.range_i64(MIN_TS + 10, MAX_TS - 10),
            _ => rng.range_i64(-62_140_000_000, -62_130_000_000),
        };
        rec.bin("sequence/sibling-calls");
        judge_ts(rec, ts);
        for _ in 0..3 {
            let t2 = match rng.below(5) {
                0 => ts + *rng.pick(&[1i64, -1]) * (rng.range_i64(1, 3) << rng.range_i64(4, 44)),
                1 => ts + *rng.pick(&[86_400i64, -86_400, 604_800, 31_536_000, -31_622_400]) * rng.range_i64(1, 400),
                2 => -ts,
                3 => ts.div_euclid(86_400) * 86_400 + rng.range_i64(0, 86_399),
                _ => ts + rng.range_i64(-100_000, 100_000),
            }
            .clamp(MIN_TS, MAX_TS);
            judge_ts(rec, t2);
        }
        judge_ts(rec, ts);
    }));
    wls.push(Workload::cases("range_end_values_with_an_outward_offset", ctx.count(10_000, 400_000), |rec, _, rng| judge_outward_pair(rec, rng)));
    wls.push(Workload::cases("offset_local_twins", ctx.count(3_000, 40_000), |rec, _, rng| super::localzone::twin_pair_case(rec, rng, "C03")));
    wls.push(Workload::cases("trait_dispatch_vs_method_syntax", ctx.count(8_000, 200_000), |rec, _, rng| super::ufcs::case(rec, rng, "C03")));
    let out = run_workloads(ctx, wls);
    let mut meta = PropMeta::default();
    meta.rule = "timestamps: boundary list (range edges ±3 d ±{0,1,2,86399..86401}, 0, 0001-01-01, i64::MIN/MAX, powers of two) + stratified random i64; in range ⇒ DateTime round trip, Date floor-to-day, and the order (cmp, ==) of the value against the values of ts±1, ts±86400, 0 and the day start is the order of the timestamps (as_ymdhms / nanos_since deviations from the model are only noted: other properties own them); out of range ⇒ must panic. pairs: instants (8 strata) x delta (0, ±1 ns, sub-second, k units ± few ns, days, 2^62 ns, uniform) x two independent offsets from the whole ±86399 s range; ==, cmp, partial_cmp, <, >, reverse cmp and the sign of all nine *_since compared with the i128 model instants (inputs are used only where every read-out route agrees with the model, so that a constructor/read-out defect owned by another property skips the case instead of failing it); Date pairs (day order) and Time pairs (as_nanos order) likewise. Non-trivial = any timestamp not in the plain positive class; any pair that is not both far apart and same-offset. Distinct by input hash. Values whose local reading lies beyond a range end (offset attached 3 days inside, then moved there with add_/sub_seconds) compared with partners in the same second / few seconds / two days: ==, cmp, partial_cmp, <, <=, max and timestamp() must work on the UTC instant. Offset::Local twins (pairs): with the system zone hooked to resolve to o, two values carrying Offset::Local relate (==, cmp, <) exactly like their Offset::Fixed(o) twins. The order is read through ==, !=, cmp, partial_cmp, <, >, <=, >=, max, min, clamp and std::cmp::max. Offsets: one pair in ten carries an Offset::Fixed of a day or more. Timestamp call sequences (siblings 2^j seconds / days away, the negative, the same second of another day, then the first again).".into();
    meta.rule.push_str(" The property's trait methods are also called through the trait (generic code / UFCS) and must agree with method syntax on the same operands (a type may grow inherent twins of its trait methods).");
    meta.required_bins = vec!["trait-dispatch/compared", 
        "sequence/sibling-calls",
        "outward/local-reading-beyond-the-range-end",
        "local-twin/judged", "local-twin/synthetic-fixed-zone", "local-twin/real-zone-with-transitions",
        "ts/out-low", "ts/out-high", "ts/in-range-edge", "ts/neg-non-aligned", "ts/neg-day-aligned", "ts/pos", "anchor/1970-01-01=0",
        "alias/radix-fold", "alias/xor-fold", "alias/bitwise-unit-relative", "alias/wrapped-residue",
        "pair/equal-instant", "pair/straddles-0001-01-01", "pair/sub-second", "pair/same-day", "pair/straddles-midnight-within-24h", "pair/far", "pair/different-offsets",
        "datepair/equal", "datepair/straddles-era", "timepair/equal", "timepair/other",
    ];
    meta.assumptions = vec!["instants are built with from_timestamp + add_nanos and read with nanos_since(DateTime::default()); both routes are themselves cross-checked here against as_ymdhms()/nano() and the calendar model".into()];
    Ok((meta, out))
}
