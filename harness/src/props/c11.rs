//! C11 — `format` renders every documented symbol exactly as the documented table says.

use super::c09::{gen_c09_instant, gen_c09_offset};
use super::PropResult;
use crate::core::*;
use crate::model::calendar as cal;
use crate::model::fmt_spec::*;
use crate::model::instant::*;
use astrolabe::{Date, DateUtilities, Offset, OffsetUtilities, Time};
use serde_json::{json, Value};

/// (kind, UTC instant, offset) → what the formatter should see
pub fn val_of(kind: Kind, i: i128, off: i32) -> Val {
    match kind {
        Kind::DateTime => {
            let l = i + off as i128 * NS;
            Val::new(kind, l.div_euclid(D) as i64, l.rem_euclid(D) as u64, off)
        }
        Kind::Date => Val::new(kind, i.div_euclid(D) as i64, 0, 0),
        Kind::Time => Val::new(kind, 0, (i.rem_euclid(D) + off as i128 * NS).rem_euclid(D) as u64, off),
    }
}

/// The library value of (kind, instant, offset).
pub enum LibVal {
    Dt(astrolabe::DateTime),
    D(Date),
    T(Time),
}

pub fn lib_value(kind: Kind, i: i128, off: i32) -> LibVal {
    match kind {
        Kind::DateTime => LibVal::Dt(mk_off(i, off)),
        Kind::Date => LibVal::D(Date::from_timestamp((i.div_euclid(D) as i64 - cal::DAYS_TO_1970) * 86_400)),
        Kind::Time => LibVal::T(Time::from_nanos(i.rem_euclid(D) as u64).unwrap().set_offset(Offset::Fixed(off))),
    }
}

impl LibVal {
    pub fn format(&self, pattern: &str) -> String {
        match self {
            LibVal::Dt(x) => x.format(pattern),
            LibVal::D(x) => x.format(pattern),
            LibVal::T(x) => x.format(pattern),
        }
    }

    /// What the formatter should see **according to the value's own getters** (the property's
    /// words: "numeric fields are the getter values"). The week number has no getter: the value the
    /// library prints for a bare `w` is taken as the field value, so that this property judges how
    /// fields are rendered and C02 judges which week/weekday/day-of-year a date has.
    /// None = the getters do not describe a value at all (another property's defect): case skipped.
    pub fn getter_val(&self, kind: Kind) -> Option<Val> {
        use astrolabe::TimeUtilities;
        let off_of = |o: Offset| match o {
            Offset::Fixed(s) => Some(s),
            Offset::Local => None,
        };
        let tod_of = |h: u32, mi: u32, s: u32, n: u32| -> Option<u64> {
            if h > 23 || mi > 59 || s > 59 || n > 999_999_999 {
                return None;
            }
            Some((h as u64 * 3600 + mi as u64 * 60 + s as u64) * 1_000_000_000 + n as u64)
        };
        let date_part = |y: i32, m: u32, d: u32, doy: u32, wd: u8, week_text: String| -> Option<(i64, u32, u32, u32)> {
            if !cal::valid_display(y as i64, m, d) || doy == 0 || doy > 366 || wd > 6 {
                return None;
            }
            let week: u32 = week_text.parse().ok()?;
            Some((cal::days_from_civil(cal::astro_year(y as i64), m, d), week, doy, wd as u32))
        };
        match self {
            LibVal::Dt(x) => {
                let (day, week, doy, wd) = date_part(x.year(), x.month(), x.day(), x.day_of_year(), x.weekday(), x.format("w"))?;
                let mut v = Val::new(kind, day, tod_of(x.hour(), x.minute(), x.second(), x.nano())?, off_of(x.get_offset())?);
                v.week = Some(week);
                v.doy = Some(doy);
                v.wday_sun0 = Some(wd);
                Some(v)
            }
            LibVal::D(x) => {
                let (day, week, doy, wd) = date_part(x.year(), x.month(), x.day(), x.day_of_year(), x.weekday(), x.format("w"))?;
                let mut v = Val::new(kind, day, 0, 0);
                v.week = Some(week);
                v.doy = Some(doy);
                v.wday_sun0 = Some(wd);
                Some(v)
            }
            LibVal::T(x) => Some(Val::new(kind, 0, tod_of(x.hour(), x.minute(), x.second(), x.nano())?, off_of(x.get_offset())?)),
        }
    }
}

pub fn lib_format(kind: Kind, i: i128, off: i32, pattern: &str) -> String {
    match kind {
        Kind::DateTime => mk_off(i, off).format(pattern),
        Kind::Date => Date::from_timestamp((i.div_euclid(D) as i64 - cal::DAYS_TO_1970) * 86_400).format(pattern),
        Kind::Time => Time::from_nanos(i.rem_euclid(D) as u64).unwrap().set_offset(Offset::Fixed(off)).format(pattern),
    }
}

pub fn gen_fmt_value(rng: &mut Rng) -> (i128, i32) {
    let i = match rng.below(9) {
        8 => {
            // where the year gains a digit: the first / last days of years ±10^k and ±(10^k − 1) (10000-01-01 is the
            // first date whose year does not fit yyyy), a year either side
            let k = rng.range_i64(1, 6) as u32;
            let a = *rng.pick(&[1i64, -1]) * (10i64.pow(k) - rng.range_i64(0, 1));
            (cal::days_from_civil(a, 1, 1) + rng.range_i64(-400, 400)) as i128 * D + rng.range_i128(0, D - 1)
        }
        0 => {
            // 5–7 digit years, both eras
            let a = *rng.pick(&[1i64, -1]) * rng.range_i64(10_000, 5_800_000);
            cal::days_from_civil(a, rng.below(12) as u32 + 1, rng.below(28) as u32 + 1) as i128 * D + rng.range_i128(0, D - 1)
        }
        1 => {
            // noon / midnight ± 1 s, hours 0/11/12/13/23
            let day = gen_c09_instant(rng).div_euclid(D);
            let secs: i128 = *rng.pick(&[0i128, 1, 86_399, 43_199, 43_200, 43_201, 11 * 3600, 12 * 3600 + 59 * 60, 13 * 3600, 23 * 3600, 3_599, 3_600]);
            day * D + secs * NS + if rng.chance(1, 3) { crate::model::magic::subsec_near_power_of_ten(rng) as i128 } else { *rng.pick(&[0i128, 0, 1, 999_999_999, 500_000_000]) }
        }
        2 => {
            // around year ends (week 52/53/1)
            let a = rng.range_i64(-3000, 3000);
            (cal::days_from_civil(a, 1, 1) + rng.range_i64(-4, 3)) as i128 * D + rng.range_i128(0, D - 1)
        }
        3 => {
            // small years (1–3 digits) and the era boundary
            let a = rng.range_i64(-1200, 1200);
            (cal::days_from_civil(a, 1, 1) + rng.below(366) as i64) as i128 * D + rng.range_i128(0, D - 1)
        }
        // (kept 800 days inside the range: in the two partly representable years a pattern without a day or month field
        // re-reads into an unrepresentable default date, which parse rightly refuses)
        4 => crate::model::magic::gen_instant_at(rng, MIN_INSTANT + 800 * D, MAX_INSTANT - 800 * D) - if rng.chance(1, 2) { rng.range_i128(0, D) } else { 0 },
        _ => gen_c09_instant(rng),
    }
    .clamp(MIN_INSTANT + 2 * D, MAX_INSTANT - 2 * D);
    let off = match rng.below(5) {
        4 => *rng.pick(&[86_399i32, -86_399, 86_340, -86_340, 85_680, 82_800, -82_800, 1439 * 60]),
        0 => *rng.pick(&[0, 0, 30, -30, 59, -59, 60, -60, 3600, -3600, 5 * 3600 + 1800, -(7 * 3600 + 52 * 60 + 58), 86_399, -86_399, 12 * 3600]),
        _ => gen_c09_offset(rng, i),
    };
    (i, off)
}

const LITERAL_CHARS: [char; 62] = [
    ' ', '/', '-', ':', '.', ',', '_', '(', ')', '[', '#', '+', '*', 'T', 'Z', 'z', 'A', 'B', 'c', 'u', 'j', 'l', 'o', 'p', 'r', 't', 'v', 'E', 'F', 'Y', 'W', 'é', 'ü', '日', '🕰',
    '0', '1', '7', '9', '"',
    // white space and control characters, Unicode numerics that are not ASCII digits, combining and zero-width marks
    '\n', '\r', '\t', '\u{a0}', '½', '②', 'Ⅳ', '٣', '\u{301}', '\u{200b}', '\u{7f}', '\\',
    // code points an implementation might reserve as an internal placeholder: noncharacters, private use, BOM,
    // replacement character, the last code point, a C0 control
    '\u{fdd0}', '\u{fdef}', '\u{fffe}', '\u{ffff}', '\u{e000}', '\u{f8ff}', '\u{feff}', '\u{fffd}', '\u{10ffff}', '\u{1f}',
];

/// A character whose code point equals `c` in its low 8 (or 16) bits: what `ch as u8 == b` / `ch as u16` comparisons
/// mistake for the ASCII character `c` (ō U+014D for M, ħ U+0127 for the apostrophe, …).
fn truncation_lookalike(rng: &mut Rng, c: char) -> char {
    let k = *rng.pick(&[0x100u32, 0x200, 0x300, 0x400, 0x1000, 0x1_0000, 0x2_0000]);
    char::from_u32(k + c as u32).unwrap_or('ō')
}

fn kinds() -> [Kind; 3] {
    [Kind::DateTime, Kind::Date, Kind::Time]
}

fn kind_name(k: Kind) -> &'static str {
    match k {
        Kind::DateTime => "DateTime",
        Kind::Date => "Date",
        Kind::Time => "Time",
    }
}

fn symbols_of(k: Kind) -> Vec<char> {
    match k {
        Kind::Date => DATE_SYMBOLS.chars().collect(),
        Kind::Time => TIME_SYMBOLS.chars().collect(),
        Kind::DateTime => DATE_SYMBOLS.chars().chain(TIME_SYMBOLS.chars()).collect(),
    }
}

/// Random pattern of 1–8 tokens with literals and quoted segments (always inside the oracle's domain).
pub fn gen_pattern(rng: &mut Rng, kind: Kind) -> String {
    let syms = symbols_of(kind);
    let all: Vec<char> = symbols_of(Kind::DateTime);
    let n = 1 + rng.below(8);
    let mut p = String::new();
    for _ in 0..n {
        match rng.below(10) {
            0..=5 => {
                // a symbol of this type (occasionally of the other type: must be copied literally)
                let c = if rng.chance(1, 12) { *rng.pick(&all) } else { *rng.pick(&syms) };
                let w = match rng.below(6) {
                    0 => 1 + rng.below(10),
                    1 => 1,
                    2 => 2,
                    _ => 1 + rng.below(5),
                } as usize;
                // a run merges with an adjacent run of the same character: keep them apart
                if p.ends_with(c) {
                    p.push(' ');
                }
                for _ in 0..w {
                    p.push(c);
                }
            }
            6 | 7 => {
                let prev = p.chars().last();
                let c = match prev {
                    // right after a symbol run or an apostrophe: sometimes its truncation look-alike
                    Some(pc) if pc.is_ascii() && rng.chance(1, 8) => truncation_lookalike(rng, pc),
                    _ => *rng.pick(&LITERAL_CHARS),
                };
                // mostly short; sometimes a long run of one literal character (separator lines): around 255/256 and
                // 65 535/65 536, where a run length kept in a u8 / u16 saturates or wraps
                let w = if rng.chance(1, 40) { *rng.pick(&[200u64, 254, 255, 256, 257, 300, 511, 512, 1_000, 65_535, 65_536, 65_537, 70_000]) } else { 1 + rng.below(3) };
                if p.ends_with(c) {
                    p.push('|');
                }
                for _ in 0..w {
                    p.push(c);
                }
                if w >= 200 {
                    p.push('|');
                }
            }
            8 => {
                // quoted segment, may contain symbols, doubled apostrophes and multi-byte characters
                p.push('\'');
                let len = 1 + rng.below(6);
                for _ in 0..len {
                    match rng.below(6) {
                        0 => p.push_str("''"),
                        1 => p.push(*rng.pick(&all)),
                        _ => p.push(*rng.pick(&LITERAL_CHARS)),
                    }
                }
                p.push('\'');
            }
            _ => p.push_str("''"),
        }
    }
    p
}

fn judge(rec: &mut Rec, kind: Kind, i: i128, off: i32, pattern: &str, single: Option<(char, usize)>) {
    let Ok(lv) = trap(|| lib_value(kind, i, off)) else {
        rec.bin(super::diff::SKIP_START);
        return;
    };
    let v = match trap(|| lv.getter_val(kind)) {
        Ok(Some(v)) => v,
        _ => {
            rec.bin("skipped/getters-do-not-describe-a-value(other-property)");
            return;
        }
    };
    let exp = match render(&v, pattern) {
        Some(e) => e,
        None => {
            rec.bin("skipped/not-defined-by-the-documentation");
            return;
        }
    };
    rec.eval();
    rec.api(match kind {
        Kind::DateTime => "DateTime::format",
        Kind::Date => "Date::format",
        Kind::Time => "Time::format",
    });
    if let Some((c, w)) = single {
        rec.bin_s(format!("{}:{}{}/{}", kind_name(kind), c, w, value_class(&v, c)));
    }
    rec.nontrivial(hash_str(pattern) ^ hash_i128s(&[i, off as i128, kind as i128]));
    let r = trap(|| lv.format(pattern));
    let wit = |obs: Value| json!({"type": kind_name(kind), "value_utc": show(i), "offset": off, "pattern": pattern, "documented_rendering_of_the_getter_values": exp, "getter_values(local day number, ns of day, offset, week, doy, weekday)": format!("{:?}", (v.day, v.tod, v.off, v.week, v.doy, v.wday_sun0)), "observed": obs});
    match r {
        Err(p) => rec.violation(format!("C11|{}|format|panic|{},{}", kind_name(kind), p.class, p.site()), || wit(p.to_json())),
        Ok(got) => {
            if got != exp {
                // localise: which symbol runs render wrongly on their own?
                let mut culprits: Vec<String> = vec![];
                if let Some(toks) = tokenize(pattern) {
                    for t in toks {
                        if let Tok::Run(c, w) = t {
                            if !is_symbol(kind, c) {
                                continue;
                            }
                            let p1: String = std::iter::repeat(c).take(w).collect();
                            if let (Ok(e1), Ok(g1)) = (render_run(&v, c, w), trap(|| lv.format(&p1))) {
                                if e1 != g1 {
                                    let tag = format!("{}[{}]", c, value_class(&v, c));
                                    if !culprits.contains(&tag) {
                                        culprits.push(tag);
                                    }
                                }
                            }
                        }
                    }
                }
                culprits.sort();
                culprits.truncate(1);
                let what = if culprits.is_empty() { "tokenisation/quoting/literals".to_string() } else { culprits.join("+") };
                rec.violation(format!("C11|{}|format|wrong-rendering|{}", kind_name(kind), what), || wit(json!(got)));
            }
        }
    }
    if rec.want_sample() {
        rec.sample(|| wit(json!("(see verdict)")));
    }
}

pub fn run(ctx: &Ctx) -> PropResult {
    let mut combos: Vec<(Kind, char, usize)> = vec![];
    for k in kinds() {
        for c in symbols_of(k) {
            for w in 1..=10 {
                combos.push((k, c, w));
            }
        }
    }
    let cr = &combos;
    let per = ctx.count(300, 12_000);
    let mut wls = vec![];
    wls.push(Workload::cases("single_symbol_x_width", combos.len() as u64 * per, move |rec, idx, rng| {
        let (k, c, w) = cr[(idx / per) as usize];
        let (i, off) = gen_fmt_value(rng);
        let p: String = std::iter::repeat(c).take(w).collect();
        judge(rec, k, i, off, &p, Some((c, w)));
    }));
    wls.push(Workload::cases("compositions", ctx.count(300_000, 10_000_000), |rec, idx, rng| {
        let k = kinds()[(idx % 3) as usize];
        let (i, off) = gen_fmt_value(rng);
        let p = gen_pattern(rng, k);
        let toks = tokenize(&p);
        if let Some(t) = &toks {
            if t.iter().any(|t| matches!(t, Tok::Lit(l) if l.contains('\''))) {
                rec.bin("shape/doubled-apostrophe");
            }
            if p.matches('\'').count() >= 2 {
                rec.bin("shape/quoted-segment");
            }
            if t.iter().any(|t| matches!(t, Tok::Run(_, w) if *w > 5)) {
                rec.bin("shape/over-long-run");
            }
            if p.chars().any(|c| c.len_utf8() > 1) {
                rec.bin("shape/multi-byte-literal");
            }
            if t.iter().any(|t| matches!(t, Tok::Run(c, _) if !is_symbol(k, *c) && is_symbol(Kind::DateTime, *c))) {
                rec.bin("shape/other-type's-symbol");
            }
        }
        judge(rec, k, i, off, &p, None);
    }));
    wls.push(Workload::cases("documented_examples_and_defaults", 1, |rec, _, _| {
        // Display / format_rfc3339-style fixed patterns on the documentation's own example value
        let i = (cal::days_from_civil(2022, 5, 2) as i128) * D + (12 * 3600 + 32 * 60 + 1) as i128 * NS;
        for p in ["yyyy/MM/dd HH:mm:ss", "yyyy-MM-ddTHH:mm:ssXXX", "yyyy/'MM/dd' HH:mm:ss", "yyyy/''MM/dd'' HH:mm:ss", "yyyy-MM-dd HH:mm:ss eeee", "HH:'mm:ss'", "HH:''mm:ss''"] {
            for k in kinds() {
                judge(rec, k, i, 0, p, None);
            }
        }
    }));
    // the patterns people actually write, each for every type, against every value stratum: a special case keyed on
    // one exact pattern string is only ever reached by that string
    wls.push(Workload::cases("common_pattern_corpus", ctx.count(150_000, 4_000_000), |rec, idx, rng| {
        let pats = &crate::model::pattern_gen::COMMON_PATTERNS;
        let (p, _, _, _) = pats[(idx % pats.len() as u64) as usize];
        let k = kinds()[((idx / pats.len() as u64) % 3) as usize];
        let (i, off) = gen_fmt_value(rng);
        rec.bin("shape/common-pattern");
        judge(rec, k, i, off, p, None);
    }));
    // EVERY Unicode scalar value except NUL, the apostrophe and the ASCII letters as a one-character literal between two
    // fields (and once more right after an apostrophe-quoted segment): a literal is copied, whatever it looks like
    let n_cp: u64 = 0x11_0000;
    wls.push(Workload::chunks("every_code_point_as_a_literal", n_cp, 1 << 12, |rec, r| {
        let i = (cal::days_from_civil(2022, 5, 2) as i128) * D + (15 * 3600 + 4 * 60 + 5) as i128 * NS + 6_007_008;
        let vals: Vec<(Kind, LibVal, Val)> = kinds().iter().filter_map(|k| {
            let lv = trap(|| lib_value(*k, i, 3_600)).ok()?;
            let v = trap(|| lv.getter_val(*k)).ok()??;
            Some((*k, lv, v))
        }).collect();
        if vals.len() != 3 {
            rec.bin(super::diff::SKIP_START);
            return;
        }
        let mut n = 0u64;
        for cp in r {
            let Some(c) = char::from_u32(cp as u32) else { continue };
            if c == '\0' || c == '\'' || c.is_ascii_alphabetic() {
                continue;
            }
            for (k, lv, v) in vals.iter() {
                let (f1, f2) = if *k == Kind::Time { ("HH", "mm") } else { ("dd", "MM") };
                for shape in 0..2 {
                    let p = if shape == 0 { format!("{}{}{}", f1, c, f2) } else { format!("'{}'{}{}{}", f1, c, c, f2) };
                    let exp = render(v, &p);
                    let got = trap(|| lv.format(&p));
                    n += 1;
                    let ok = matches!((&exp, &got), (Some(e), Ok(g)) if e == g);
                    if !ok {
                        rec.cur_idx = cp;
                        let block = cp >> 8;
                        rec.violation(format!("C11|{}|format|literal-code-point-not-copied|U+{:04X}xx", kind_name(*k), block), || json!({"type": kind_name(*k), "pattern": p, "code_point": format!("U+{:04X}", cp), "documented": exp, "observed": got.as_ref().map_err(|e| e.to_json())}));
                    }
                }
            }
        }
        rec.evals(n);
        rec.api_n("format", n);
        rec.nontrivial_counted(n);
        *rec.bins.entry("literal/every-code-point").or_insert(0) += n;
    }));
    // call sequences on one thread: the same instant under changing offsets with one pattern, and one value under
    // changing patterns (then the first again) — what a "last result" memo with too small a key gets wrong
    wls.push(Workload::cases("same_value_sequences", ctx.count(30_000, 1_000_000), |rec, idx, rng| {
        let k = kinds()[(idx % 3) as usize];
        let (i, o1) = gen_fmt_value(rng);
        let p1 = gen_pattern(rng, k);
        let p2 = gen_pattern(rng, k);
        let o2 = if rng.chance(1, 3) { 0 } else { gen_fmt_value(rng).1 };
        rec.bin("shape/same-value-call-sequence");
        for (o, p) in [(o1, &p1), (o2, &p1), (o1, &p1), (o1, &p2), (o2, &p2), (o1, &p1)] {
            judge(rec, k, i, o, p, None);
        }
    }));
    wls.push(Workload::cases("offset_local_under_a_changing_zone", ctx.count(3_000, 30_000), |rec, _, rng| super::localzone::zone_switch_case(rec, rng, "C11")));
    let out = run_workloads(ctx, wls);
    let mut meta = PropMeta::default();
    meta.rule = format!(
        "every (type, symbol, width 1..=10) — {} combinations — against {} values each (strata: BC and 5–7 digit years, 1–3 digit years, hours 0/11/12/13/23, noon/midnight ±1 s, week 52/53/1 year edges, month ends, offsets with minutes and seconds of both signs and offsets that move the local date); random compositions of 1–8 tokens with ASCII punctuation, non-symbol letters, digits, multi-byte literals, quoted segments with doubled apostrophes and the other type's symbols. Oracle: fmt_spec, a renderer written from the documentation tables (self-checked on the documentation's examples), fed with the value's own getter values (year, month, day, day_of_year, weekday, hour … nano, get_offset; the week number, which has no getter, is what a bare `w` prints) — which date/week/weekday an instant has is C01/C02/C10's claim, how the fields are rendered is this one's. Not judged: `yy` on negative years, NUL, unterminated quotes. Every judged case is non-trivial; distinct by hash of (value, pattern). Literal alphabet incl. line ends, tab, NBSP, backslash, DEL, zero-width and combining marks and Unicode numerics that are not ASCII digits; literal runs of 200…70 000 identical characters (around 255/256 and 65 535/65 536). Call sequences: one instant under changing offsets with one pattern, one value under changing patterns, then the first call again. Offset::Local under a changing system zone: the same format/to_string call on one value carrying Offset::Local with only the hooked zone changing in between must follow the zone (compared with the Offset::Fixed twin). Right after a symbol run or an apostrophe the literal is sometimes the character's truncation look-alike (U+0100·k + c); literals include code points an implementation might reserve (noncharacters, private use, BOM, U+FFFD, U+10FFFF); sub-second values next to powers of ten. EVERY Unicode scalar value (except NUL, the apostrophe and the ASCII letters) as a one-character literal between two fields and after a quoted segment, for all three types (exhaustive over the literal alphabet). A corpus of 62 patterns people actually write (ISO, compact key forms like yyyyMMdd, regional, mail/log forms, week dates), each for every type against every value stratum.",
        combos.len(),
        per
    );
    meta.required_bins = vec![
        "local-twin/zone-switch-judged", "shape/common-pattern", "literal/every-code-point",
        "shape/doubled-apostrophe", "shape/quoted-segment", "shape/over-long-run", "shape/same-value-call-sequence", "shape/multi-byte-literal", "shape/other-type's-symbol",
        "DateTime:h1/hour0", "DateTime:h2/hour12", "DateTime:k2/hour0", "DateTime:K1/hour12", "DateTime:b3/noon", "DateTime:b5/midnight", "DateTime:b1/noon±1s",
        "DateTime:y1/negative", "DateTime:y4/5+digits", "DateTime:y7/<4digits", "DateTime:w1/week53", "DateTime:w2/week1", "DateTime:G4/BC", "DateTime:e7/BC",
        "DateTime:X1/zero", "DateTime:X5/neg-with-seconds", "DateTime:x4/pos-with-seconds", "DateTime:X1/pos-with-minutes", "DateTime:n5/nonzero", "DateTime:D1/doy366",
        "Date:M5/month>=10", "Date:e9/AD", "Time:a6/PM", "Time:x10/neg-with-minutes", "Time:n4/nonzero",
    ];
    meta.assumptions = vec!["fmt_spec reads the documentation tables; where the tables are silent (era names for negative years, Z only for an exactly-zero offset) it follows CLDR English".into()];
    Ok((meta, out))
}
