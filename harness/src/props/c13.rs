//! C13 — RFC 3339 timestamps are read and written exactly.

use super::PropResult;
use crate::core::*;
use crate::model::calendar as cal;
use crate::model::instant::*;
use super::diff::*;
use crate::model::rfc3339::*;
use astrolabe::errors::AstrolabeError;
use astrolabe::{DateTime, Precision};
use serde_json::{json, Value};
use std::str::FromStr;

const PRECISIONS: [(&str, u32); 5] = [("Seconds", 0), ("Centis", 2), ("Millis", 3), ("Micros", 6), ("Nanos", 9)];

fn precision(k: usize) -> Precision {
    match k {
        0 => Precision::Seconds,
        1 => Precision::Centis,
        2 => Precision::Millis,
        3 => Precision::Micros,
        _ => Precision::Nanos,
    }
}

fn judge_write(rec: &mut Rec, i: i128, off: i32, k: usize) {
    rec.eval();
    rec.api("DateTime::format_rfc3339");
    let (pname, digits) = PRECISIONS[k];
    rec.bin(match k { 0 => "write/Seconds", 1 => "write/Centis", 2 => "write/Millis", 3 => "write/Micros", _ => "write/Nanos" });
    rec.bin(if off == 0 { "write/offset-zero" } else if off < 0 { "write/offset-negative" } else { "write/offset-positive" });
    rec.nontrivial(hash_i128s(&[i, off as i128, k as i128]));
    let Some((val, _)) = sane_value(i, off) else {
        rec.bin(SKIP_START);
        return;
    };
    let r = trap(|| val.format_rfc3339(precision(k)));
    let wit = |obs: Value| json!({"value_utc": show(i), "offset": off, "precision": pname, "observed": obs});
    match r {
        Err(p) => rec.violation(format!("C13|write|format_rfc3339|panic|{},{}", p.class, p.site()), || wit(p.to_json())),
        Ok(s) => match recognise(&s) {
            None => rec.violation(format!("C13|write|format_rfc3339|not-in-grammar|{}", pname), || wit(json!(s))),
            Some(st) => {
                let keep = 10i128.pow(9 - digits);
                let want = i.div_euclid(keep) * keep;
                if st.frac.len() as u32 != digits {
                    rec.violation(format!("C13|write|format_rfc3339|wrong-fraction-length|{}", pname), || wit(json!(s)));
                } else if !st.fields_valid() {
                    rec.violation(format!("C13|write|format_rfc3339|field-out-of-range|{}", pname), || wit(json!(s)));
                } else if st.instant() != want {
                    rec.violation(format!("C13|write|format_rfc3339|denotes-another-instant|{}", pname), || wit(json!({"text": s, "denotes": show(st.instant()), "expected": show(want)})));
                } else if st.offset_secs() != off {
                    rec.violation(format!("C13|write|format_rfc3339|denotes-another-offset|{}", pname), || wit(json!({"text": s, "denotes_offset": st.offset_secs()})));
                } else if (off == 0) != st.offset.is_none() {
                    rec.bin("write/zero-offset-not-as-Z");
                }
            }
        },
    }
    if rec.want_sample() {
        rec.sample(|| wit(json!(trap(|| mk_off(i, off).format_rfc3339(precision(k))).ok())));
    }
}

fn frac_bin(len: usize) -> &'static str {
    match len {
        0 => "read/no-fraction",
        1..=8 => "read/fraction-1..8",
        9 => "read/fraction-9",
        10..=19 => "read/fraction-10..19",
        _ => "read/fraction-20..40",
    }
}

fn judge_read(rec: &mut Rec, st: &Stamp, via_from_str: bool) {
    rec.eval();
    let api: &'static str = if via_from_str { "DateTime::from_str" } else { "DateTime::parse_rfc3339" };
    rec.api(api);
    rec.bin(frac_bin(st.frac.len()));
    rec.bin(match st.offset {
        None => "read/Z",
        Some(('-', 0, 0)) => "read/-00:00",
        Some(('-', _, _)) => "read/negative-offset",
        _ => "read/positive-offset",
    });
    let text = st.text();
    rec.nontrivial(hash_str(&text));
    let want_i = st.instant();
    if want_i.rem_euclid(D) == 0 && st.offset_secs() != 0 {
        rec.bin(if st.offset_secs() < 0 { "read/utc-midnight-negative-offset" } else { "read/utc-midnight-positive-offset" });
    }
    let want_off = st.offset_secs();
    let r = trap(|| {
        let x = if via_from_str { DateTime::from_str(&text) } else { DateTime::parse_rfc3339(&text) };
        x
    });
    let wit = |obs: Value| json!({"text": text, "api": api, "model": {"instant": show(want_i), "offset": want_off, "nanos": st.nanos()}, "observed": obs});
    match r {
        Err(p) => rec.violation(format!("C13|read|{}|panic|{},{}|{}", api, p.class, p.site(), frac_bin(st.frac.len())), || wit(p.to_json())),
        Ok(Err(e)) => rec.violation(format!("C13|read|{}|rejected-grammatical|{}", api, frac_bin(st.frac.len())), || wit(json!({"error": e.to_string()}))),
        Ok(Ok(dt)) => match diff_with_expected(&dt, want_i, want_off) {
            Ok(Diff::Skip) => rec.bin(SKIP_EXPECTED),
            Ok(Diff::Same) => {}
            Ok(Diff::Differs(g, e)) => {
                if g.ns_since != e.ns_since {
                    let only_frac = g.ns_since.div_euclid(NS) == want_i.div_euclid(NS);
                    rec.violation(format!("C13|read|{}|wrong-instant|{},{}", api, if only_frac { "fraction" } else { "fields" }, frac_bin(st.frac.len())), || wit(json!({"parsed_value_reads": g.to_json(), "independently_built_expected_reads": e.to_json()})));
                } else if g.off != e.off {
                    rec.violation(format!("C13|read|{}|wrong-offset", api), || wit(json!({"offset": g.off})));
                } else {
                    rec.violation(format!("C13|read|{}|{}", api, g.first_difference(&e)), || wit(json!({"parsed_value_reads": g.to_json(), "independently_built_expected_reads": e.to_json()})));
                }
            }
            Err(p) => rec.violation(format!("C13|read|{}|parsed-value-unreadable|{},{}", api, p.class, p.site()), || wit(p.to_json())),
        },
    }
    if rec.want_sample() {
        rec.sample(|| wit(json!("(see verdict)")));
    }
}

fn judge_reject(rec: &mut Rec, st: &Stamp, what: &'static str) {
    rec.eval();
    rec.api("DateTime::parse_rfc3339");
    rec.bin_s(format!("reject/{}", what));
    let text = st.text();
    rec.nontrivial(hash_str(&text));
    debug_assert!(!st.fields_valid());
    let r = trap(|| DateTime::parse_rfc3339(&text).map(|dt| trap(|| read(&dt)).unwrap_or(0)));
    let wit = |obs: Value| json!({"text": text, "out_of_range_field": what, "observed": obs});
    match r {
        Err(p) => rec.violation(format!("C13|reject|parse_rfc3339|panic|{},{}", p.class, p.site()), || wit(p.to_json())),
        Ok(Ok(i)) => rec.violation(format!("C13|reject|parse_rfc3339|accepted-out-of-range|{}", what), || wit(json!({"instant": show(i)}))),
        Ok(Err(e)) => {
            if !matches!(e, AstrolabeError::InvalidFormat(_) | AstrolabeError::OutOfRange(_)) {
                rec.violation("C13|reject|parse_rfc3339|odd-error".to_string(), || wit(json!(format!("{:?}", e))));
            }
        }
    }
    if rec.want_sample() {
        rec.sample(|| wit(json!("(see verdict)")));
    }
}

pub fn run(ctx: &Ctx) -> PropResult {
    let lo = 0i128; // 0001-01-01T00:00:00Z
    let hi = cal::days_from_civil(9999, 12, 31) as i128 * D + D - 1;
    let mut wls = vec![];
    wls.push(Workload::cases("write_side", ctx.count(200_000, 10_000_000), move |rec, idx, rng| {
        // local year must stay within 0001..=9999
        let off = match rng.below(4) {
            0 => 0,
            1 => *rng.pick(&[60, -60, 1439 * 60, -1439 * 60, 3600, -3600, 5 * 3600 + 1800, -(9 * 3600 + 1800), 12 * 3600 + 45 * 60, 1438 * 60, 1430 * 60, -1430 * 60, 1400 * 60]),
            _ => rng.range_i64(-1439, 1439) as i32 * 60,
        };
        let local = match rng.below(8) {
            // UTC instants at 2^k units from 0001-01-01 / 1970-01-01 (2262-04-11 = 2^63 ns after 1970, 0293-04-11 =
            // 2^63 ns after 0001 …), large offsets favoured: where a 64-bit fast path for "instant + offset" ends
            6 | 7 => {
                let u = crate::model::magic::gen_instant_at(rng, lo, hi) - if rng.chance(1, 2) { rng.range_i128(0, D) } else { 0 };
                u + off as i128 * NS
            }
            0 => lo + rng.range_i128(0, 2 * D),
            1 => hi - rng.range_i128(0, 2 * D),
            2 => {
                let day = super::c09::gen_c09_instant(rng).div_euclid(D).clamp(0, hi / D);
                day * D + if rng.chance(1, 2) { rng.below(86_400) as i128 * NS + crate::model::magic::subsec_near_power_of_ten(rng) as i128 } else { *rng.pick(&[0i128, D - 1, D - NS, 43_200 * NS, 1, 999_999_999, 10_000_000, 9_999_999]) }
            }
            _ => rng.range_i128(lo, hi),
        }
        .clamp(lo, hi);
        let i = local - off as i128 * NS;
        judge_write(rec, i, off, (idx % 5) as usize);
    }));
    wls.push(Workload::cases("read_side_every_fraction_length", 41 * 3 * 8, |rec, idx, rng| {
        let len = (idx % 41) as usize;
        let style = (idx / 41) % 3;
        let mut st = gen_valid(rng);
        st.frac = (0..len)
            .map(|_| match style {
                0 => '0',
                1 => '9',
                _ => (b'0' + rng.below(10) as u8) as char,
            })
            .collect();
        judge_read(rec, &st, false);
        judge_read(rec, &st, true);
    }));
    wls.push(Workload::cases("read_side_random", ctx.count(200_000, 10_000_000), |rec, idx, rng| {
        let st = gen_valid(rng);
        judge_read(rec, &st, idx % 4 == 0);
    }));
    wls.push(Workload::cases("read_side_field_mutations", ctx.count(80_000, 3_000_000), |rec, _, rng| {
        let st = gen_valid(rng);
        let (m, what) = mutate_field(rng, &st);
        if !m.fields_valid() {
            judge_reject(rec, &m, what);
        }
    }));
    // write side for values carrying Offset::Local: format_rfc3339 must write the instant under the offset the
    // (hooked) system zone resolves to now — also right after the zone changed (compared with the Fixed twin)
    wls.push(Workload::cases("offset_local_under_a_changing_zone", ctx.count(3_000, 30_000), |rec, _, rng| super::localzone::zone_switch_case(rec, rng, "C13")));
    let out = run_workloads(ctx, wls);
    let mut meta = PropMeta::default();
    meta.rule = "write: local instants in years 0001–9999 (both ends ±2 d, month ends, second/centisecond boundaries, uniform) x whole-minute offsets (0, ±1 min, ±23:59, half/quarter hours, uniform) x 5 precisions; the output must be accepted by a hand-written recogniser of the RFC 3339 date-time ABNF, carry exactly the precision's fraction digits, and denote the value's instant truncated to the precision and its offset. read: ABNF-generated timestamps (valid calendar date, every fraction length 0..=40 x {all 0, all 9, random}, Z / ±hh:mm incl. -00:00 and ±23:59) through parse_rfc3339 and FromStr — instant, nanoseconds (fraction truncated to 9 digits) and offset must match the reference reader; single-field mutations (month 00/13+, day 00/32+/> month length, Feb 29 in a common year, hour 24+, minute 60+, offset hour 24+, offset minute 60+) must be rejected. Not judged: second 60, lower-case t/z, wrong separators, year 0000. Every case non-trivial; distinct by hash of the text / (value, offset, precision). Sub-second values next to powers of ten on the write side; format_rfc3339 of Offset::Local values under a changing hooked zone.".into();
    meta.required_bins = vec![
        "local-twin/zone-switch-judged",
        "write/Seconds", "write/Centis", "write/Millis", "write/Micros", "write/Nanos", "write/offset-zero", "write/offset-negative", "write/offset-positive",
        "read/no-fraction", "read/fraction-1..8", "read/fraction-9", "read/fraction-10..19", "read/fraction-20..40", "read/Z", "read/-00:00", "read/negative-offset", "read/positive-offset", "read/utc-midnight-negative-offset", "read/utc-midnight-positive-offset",
        "reject/month=00", "reject/month>12", "reject/day=00", "reject/day>31", "reject/day>month-length", "reject/hour>=24", "reject/minute>=60", "reject/offset-hour>=24", "reject/offset-minute>=60", "reject/feb29-common-year",
    ];
    meta.assumptions = vec!["the reference reader/recogniser in model/rfc3339.rs is written from the RFC 3339 ABNF".into()];
    Ok((meta, out))
}
