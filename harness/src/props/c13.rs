//! C13 — RFC 3339 timestamps are read and written exactly.

use super::PropResult;
use crate::core::*;
use crate::model::calendar as cal;
use crate::model::instant::*;
use super::diff::*;
use crate::model::rfc3339::*;
use astrolabe::errors::AstrolabeError;
use astrolabe::{DateTime, Precision};
use serde_json::{json, Value};
use std::str::FromStr;

const PRECISIONS: [(&str, u32); 5] = [("Seconds", 0), ("Centis", 2), ("Millis", 3), ("Micros", 6), ("Nanos", 9)];

fn precision(k: usize) -> Precision {
    match k {
        0 => Precision::Seconds,
        1 => Precision::Centis,
        2 => Precision::Millis,
        3 => Precision::Micros,
        _ => Precision::Nanos,
    }
}

fn judge_write(rec: &mut Rec, i: i128, off: i32, k: usize) {
    rec.eval();
    rec.api("DateTime::format_rfc3339");
    let (pname, digits) = PRECISIONS[k];
    rec.bin(match k { 0 => "write/Seconds", 1 => "write/Centis", 2 => "write/Millis", 3 => "write/Micros", _ => "write/Nanos" });
    rec.bin(if off == 0 { "write/offset-zero" } else if off < 0 { "write/offset-negative" } else { "write/offset-positive" });
    rec.nontrivial(hash_i128s(&[i, off as i128, k as i128]));
    let Some((val, _)) = sane_value(i, off) else {
        rec.bin(SKIP_START);
        return;
    };
    let r = trap(|| val.format_rfc3339(precision(k)));
    let wit = |obs: Value| json!({"value_utc": show(i), "offset": off, "precision": pname, "observed": obs});
    match r {
        Err(p) => rec.violation(format!("C13|write|format_rfc3339|panic|{},{}", p.class, p.site()), || wit(p.to_json())),
        Ok(s) => match recognise(&s) {
            None => rec.violation(format!("C13|write|format_rfc3339|not-in-grammar|{}", pname), || wit(json!(s))),
            Some(st) => {
                let keep = 10i128.pow(9 - digits);
                let want = i.div_euclid(keep) * keep;
                if st.frac.len() as u32 != digits {
                    rec.violation(format!("C13|write|format_rfc3339|wrong-fraction-length|{}", pname), || wit(json!(s)));
                } else if !st.fields_valid() {
                    rec.violation(format!("C13|write|format_rfc3339|field-out-of-range|{}", pname), || wit(json!(s)));
                } else if st.instant() != want {
                    rec.violation(format!("C13|write|format_rfc3339|denotes-another-instant|{}", pname), || wit(json!({"text": s, "denotes": show(st.instant()), "expected": show(want)})));
                } else if st.offset_secs() != off {
                    rec.violation(format!("C13|write|format_rfc3339|denotes-another-offset|{}", pname), || wit(json!({"text": s, "denotes_offset": st.offset_secs()})));
                } else if (off == 0) != st.offset.is_none() {
                    rec.bin("write/zero-offset-not-as-Z");
                }
            }
        },
    }
    if rec.want_sample() {
        rec.sample(|| wit(json!(trap(|| mk_off(i, off).format_rfc3339(precision(k))).ok())));
    }
}

fn frac_bin(len: usize) -> &'static str {
    match len {
        0 => "read/no-fraction",
        1..=8 => "read/fraction-1..8",
        9 => "read/fraction-9",
        10..=19 => "read/fraction-10..19",
        _ => "read/fraction-20..40",
    }
}

fn judge_read(rec: &mut Rec, st: &Stamp, via_from_str: bool) {
    rec.eval();
    let api: &'static str = if via_from_str { "DateTime::from_str" } else { "DateTime::parse_rfc3339" };
    rec.api(api);
    rec.bin(frac_bin(st.frac.len()));
    rec.bin(match st.offset {
        None => "read/Z",
        Some(('-', 0, 0)) => "read/-00:00",
        Some(('-', _, _)) => "read/negative-offset",
        _ => "read/positive-offset",
    });
    let text = st.text();
    rec.nontrivial(hash_str(&text));
    let want_i = st.instant();
    if want_i.rem_euclid(D) == 0 && st.offset_secs() != 0 {
        rec.bin(if st.offset_secs() < 0 { "read/utc-midnight-negative-offset" } else { "read/utc-midnight-positive-offset" });
    }
    let want_off = st.offset_secs();
    let r = trap(|| {
        let x = if via_from_str { DateTime::from_str(&text) } else { DateTime::parse_rfc3339(&text) };
        x
    });
    let wit = |obs: Value| json!({"text": text, "api": api, "model": {"instant": show(want_i), "offset": want_off, "nanos": st.nanos()}, "observed": obs});
    match r {
        Err(p) => rec.violation(format!("C13|read|{}|panic|{},{}|{}", api, p.class, p.site(), frac_bin(st.frac.len())), || wit(p.to_json())),
        Ok(Err(e)) => rec.violation(format!("C13|read|{}|rejected-grammatical|{}", api, frac_bin(st.frac.len())), || wit(json!({"error": e.to_string()}))),
        Ok(Ok(dt)) => match diff_with_expected(&dt, want_i, want_off) {
            Ok(Diff::Skip) => rec.bin(SKIP_EXPECTED),
            Ok(Diff::Same) => {}
            Ok(Diff::Differs(g, e)) => {
                if g.ns_since != e.ns_since {
                    let only_frac = g.ns_since.div_euclid(NS) == want_i.div_euclid(NS);
                    rec.violation(format!("C13|read|{}|wrong-instant|{},{}", api, if only_frac { "fraction" } else { "fields" }, frac_bin(st.frac.len())), || wit(json!({"parsed_value_reads": g.to_json(), "independently_built_expected_reads": e.to_json()})));
                } else if g.off != e.off {
                    rec.violation(format!("C13|read|{}|wrong-offset", api), || wit(json!({"offset": g.off})));
                } else {
                    rec.violation(format!("C13|read|{}|{}", api, g.first_difference(&e)), || wit(json!({"parsed_value_reads": g.to_json(), "independently_built_expected_reads": e.to_json()})));
                }
            }
            Err(p) => rec.violation(format!("C13|read|{}|parsed-value-unreadable|{},{}", api, p.class, p.site()), || wit(p.to_json())),
        },
    }
    if rec.want_sample() {
        rec.sample(|| wit(json!("(see verdict)")));
    }
}

fn judge_reject(rec: &mut Rec, st: &Stamp, what: &'static str) {
    rec.eval();
    rec.api("DateTime::parse_rfc3339");
    rec.bin_s(format!("reject/{}", what));
    let text = st.text();
    rec.nontrivial(hash_str(&text));
    // both reading routes of the statement's API: the inherent function and FromStr (str::parse)
    for route in ["parse_rfc3339", "from_str"] {
        let r = trap(|| if route == "from_str" { text.parse::<DateTime>() } else { DateTime::parse_rfc3339(&text) }.map(|dt| trap(|| read(&dt)).unwrap_or(0)));
        let wit = |obs: Value| json!({"text": text, "route": route, "out_of_range_field": what, "observed": obs});
        match r {
            Err(p) => rec.violation(format!("C13|reject|{}|panic|{},{}", route, p.class, p.site()), || wit(p.to_json())),
            Ok(Ok(i)) => rec.violation(format!("C13|reject|{}|accepted-out-of-range|{}", route, what), || wit(json!({"instant": show(i)}))),
            Ok(Err(e)) => {
                if !matches!(e, AstrolabeError::InvalidFormat(_) | AstrolabeError::OutOfRange(_)) {
                    rec.violation(format!("C13|reject|{}|odd-error", route), || wit(json!(format!("{:?}", e))));
                }
            }
        }
    }
    let wit = |obs: Value| json!({"text": text, "out_of_range_field": what, "observed": obs});
    if rec.want_sample() {
        rec.sample(|| wit(json!("(see verdict)")));
    }
}

/// month, day, hour, minute or zone field outside its range (the year and second 60 are judged elsewhere)
fn field_out_of_range(st: &Stamp) -> bool {
    let y = if st.year == 0 { 4 } else { st.year as i64 }; // month lengths of a leap year when the year itself is not judged
    st.month == 0 || st.month > 12 || st.day == 0 || st.day > cal::month_len(cal::astro_year(y), st.month) || st.hour > 23 || st.minute > 59 || st.second > 60
        || matches!(st.offset, Some((_, h, m)) if h > 23 || m > 59)
}

const LEAP_SECOND_DAYS: [(u32, u32, u32); 27] = [
    (1972, 6, 30), (1972, 12, 31), (1973, 12, 31), (1974, 12, 31), (1975, 12, 31), (1976, 12, 31), (1977, 12, 31), (1978, 12, 31), (1979, 12, 31),
    (1981, 6, 30), (1982, 6, 30), (1983, 6, 30), (1985, 6, 30), (1987, 12, 31), (1989, 12, 31), (1990, 12, 31), (1992, 6, 30), (1993, 6, 30), (1994, 6, 30),
    (1995, 12, 31), (1997, 6, 30), (1998, 12, 31), (2005, 12, 31), (2008, 12, 31), (2012, 6, 30), (2015, 6, 30), (2016, 12, 31),
];

pub fn run(ctx: &Ctx) -> PropResult {
    let lo = 0i128; // 0001-01-01T00:00:00Z
    let hi = cal::days_from_civil(9999, 12, 31) as i128 * D + D - 1;
    let mut wls = vec![];
    wls.push(Workload::cases("write_side", ctx.count(200_000, 10_000_000), move |rec, idx, rng| {
        // local year must stay within 0001..=9999
        let off = match rng.below(4) {
            0 => 0,
            1 => *rng.pick(&[60, -60, 1439 * 60, -1439 * 60, 3600, -3600, 5 * 3600 + 1800, -(9 * 3600 + 1800), 12 * 3600 + 45 * 60, 1438 * 60, 1430 * 60, -1430 * 60, 1400 * 60]),
            _ => rng.range_i64(-1439, 1439) as i32 * 60,
        };
        let local = match rng.below(8) {
            // UTC instants at 2^k units from 0001-01-01 / 1970-01-01 (2262-04-11 = 2^63 ns after 1970, 0293-04-11 =
            // 2^63 ns after 0001 …), large offsets favoured: where a 64-bit fast path for "instant + offset" ends
            6 | 7 => {
                let u = crate::model::magic::gen_instant_at(rng, lo, hi) - if rng.chance(1, 2) { rng.range_i128(0, D) } else { 0 };
                u + off as i128 * NS
            }
            0 => lo + rng.range_i128(0, 2 * D),
            1 => hi - rng.range_i128(0, 2 * D),
            2 => {
                let day = super::c09::gen_c09_instant(rng).div_euclid(D).clamp(0, hi / D);
                day * D + if rng.chance(1, 2) { rng.below(86_400) as i128 * NS + crate::model::magic::subsec_near_power_of_ten(rng) as i128 } else { *rng.pick(&[0i128, D - 1, D - NS, 43_200 * NS, 1, 999_999_999, 10_000_000, 9_999_999]) }
            }
            _ => rng.range_i128(lo, hi),
        }
        .clamp(lo, hi);
        let i = local - off as i128 * NS;
        judge_write(rec, i, off, (idx % 5) as usize);
    }));
    wls.push(Workload::cases("read_side_every_fraction_length", 41 * 3 * 8, |rec, idx, rng| {
        let len = (idx % 41) as usize;
        let style = (idx / 41) % 3;
        let mut st = gen_valid(rng);
        st.frac = (0..len)
            .map(|_| match style {
                0 => '0',
                1 => '9',
                _ => (b'0' + rng.below(10) as u8) as char,
            })
            .collect();
        judge_read(rec, &st, false);
        judge_read(rec, &st, true);
    }));
    // fractions as binary floating point leaves them: a few digits, then a long run of nines or zeros crossing the ninth
    // digit, then a short tail (.29999999999999997, .30000000000000004): reduced to nanoseconds means cut, not rounded
    wls.push(Workload::cases("read_side_fraction_digit_runs", ctx.count(40_000, 1_000_000), |rec, idx, rng| {
        let mut st = gen_valid(rng);
        let head = rng.below(10) as usize;
        let run = 1 + rng.below(30) as usize;
        let tail = rng.below(4) as usize;
        let mut f = String::new();
        for _ in 0..head {
            f.push((b'0' + rng.below(10) as u8) as char);
        }
        let c = if rng.chance(2, 3) { '9' } else { '0' };
        for _ in 0..run {
            f.push(c);
        }
        for _ in 0..tail {
            f.push((b'0' + rng.below(10) as u8) as char);
        }
        st.frac = f;
        rec.bin("read/fraction-digit-run");
        judge_read(rec, &st, idx % 3 == 0);
    }));
    // boundary grid: month, day, hour, minute and second each from {minimum, maximum, maximum + 1, typical}: an
    // out-of-range value in otherwise minimal company (24:00:00, 23:60:00, 00:00:61 …) as well as in random company
    wls.push(Workload::cases("read_side_boundary_grid", 4 * 4 * 4 * 4 * 4 * 3, |rec, idx, _| {
        let mut x = idx;
        let month = [1u32, 12, 13, 6][(x % 4) as usize]; x /= 4;
        let day = [1u32, 28, 32, 15][(x % 4) as usize]; x /= 4;
        let hour = [0u32, 23, 24, 11][(x % 4) as usize]; x /= 4;
        let minute = [0u32, 59, 60, 30][(x % 4) as usize]; x /= 4;
        let second = [0u32, 59, 61, 20][(x % 4) as usize]; x /= 4;
        let offset = match x % 3 { 0 => None, 1 => Some(('+', 0, 0)), _ => Some(('-', 8, 0)) };
        let st = Stamp { year: 2022, month, day, hour, minute, second, frac: if idx % 2 == 0 { String::new() } else { "000".into() }, offset };
        if field_out_of_range(&st) {
            judge_reject(rec, &st, "boundary-grid");
        } else if st.fields_valid() {
            judge_read(rec, &st, idx % 2 == 0);
        }
    }));
    wls.push(Workload::cases("read_side_random", ctx.count(200_000, 10_000_000), |rec, idx, rng| {
        let st = gen_valid(rng);
        judge_read(rec, &st, idx % 4 == 0);
    }));
    wls.push(Workload::cases("read_side_field_mutations", ctx.count(80_000, 3_000_000), |rec, _, rng| {
        let st = gen_valid(rng);
        let (m, what) = mutate_field(rng, &st);
        if !m.fields_valid() {
            judge_reject(rec, &m, what);
        }
    }));
    // several fields out of range at once (2–4 single-field mutations applied in a row), also on year 0000
    wls.push(Workload::cases("read_side_several_fields_out_of_range", ctx.count(60_000, 2_000_000), |rec, _, rng| {
        let mut st = gen_valid(rng);
        let k = 2 + rng.below(3);
        for _ in 0..k {
            st = mutate_field(rng, &st).0;
        }
        if rng.chance(1, 4) {
            st.year = 0;
        }
        if field_out_of_range(&st) {
            judge_reject(rec, &st, "several-fields");
        }
    }));
    // sentinel grid: every field from {all zeros, a typical valid value, all nines} — "0000-00-00T00:00:00Z" (the SQL
    // zero date), "9999-99-99T99:99:99Z" and everything between — x zone Z / +00:00 / -00:00 / +99:99 x fraction none /
    // .000 / .999999999.  Whatever has a month, day, hour, minute or zone field outside its range must be refused.
    wls.push(Workload::cases("read_side_sentinel_grid", 729 * 4 * 3, |rec, idx, _| {
        let pickf = |k: u64, zero: u32, typ: u32, nines: u32| match k % 3 { 0 => zero, 1 => typ, _ => nines };
        let mut x = idx;
        let year = pickf(x, 0, 2022, 9999); x /= 3;
        let month = pickf(x, 0, 5, 99); x /= 3;
        let day = pickf(x, 0, 2, 99); x /= 3;
        let hour = pickf(x, 0, 15, 99); x /= 3;
        let minute = pickf(x, 0, 30, 99); x /= 3;
        let second = pickf(x, 0, 20, 99); x /= 3;
        let offset = match x % 4 { 0 => None, 1 => Some(('+', 0, 0)), 2 => Some(('-', 0, 0)), _ => Some(('+', 99, 99)) }; x /= 4;
        let frac = match x % 3 { 0 => "", 1 => "000", _ => "999999999" }.to_string();
        let st = Stamp { year, month, day, hour, minute, second, frac, offset };
        if field_out_of_range(&st) {
            judge_reject(rec, &st, "sentinel-grid");
        } else if st.fields_valid() {
            judge_read(rec, &st, idx % 2 == 0);
        }
    }));
    // second 60: RFC 3339 admits it for an inserted leap second, i.e. when the UTC reading is 23:59:60.  A text whose
    // second is 60 but whose UTC time of day is not 23:59 is a leap second under no reading and must be refused (61+
    // always).  On notable dates (the 27 leap-second days among them) and random dates, local and UTC readings.
    wls.push(Workload::cases("read_side_second_60", ctx.count(30_000, 600_000), |rec, idx, rng| {
        let mut st = gen_valid(rng);
        if idx % 2 == 0 {
            let (y, m, d) = *rng.pick(&LEAP_SECOND_DAYS);
            st.year = y; st.month = m; st.day = d;
        }
        match rng.below(4) {
            0 => { st.hour = 23; st.minute = 59; }
            1 => { st.hour = rng.below(24) as u32; st.minute = 59; }
            2 => { st.hour = 23; st.minute = rng.below(60) as u32; }
            _ => {}
        }
        st.second = if rng.chance(1, 5) { *rng.pick(&[61u32, 62, 99]) } else { 60 };
        if rng.chance(1, 3) {
            st.offset = None;
        }
        // UTC time of day of hh:mm (the date may roll, only the clock matters here)
        let utc_min = (st.hour as i64 * 60 + st.minute as i64 - st.offset_secs() as i64 / 60).rem_euclid(1440);
        if st.second > 60 {
            judge_reject(rec, &st, "second>60");
        } else if utc_min != 23 * 60 + 59 {
            judge_reject(rec, &st, "second=60-not-at-23:59-UTC");
        } else {
            rec.bin("second=60-at-23:59-UTC(not-judged)");
        }
    }));
    // write side for values carrying Offset::Local: format_rfc3339 must write the instant under the offset the
    // (hooked) system zone resolves to now — also right after the zone changed (compared with the Fixed twin)
    wls.push(Workload::cases("offset_local_under_a_changing_zone", ctx.count(3_000, 30_000), |rec, _, rng| super::localzone::zone_switch_case(rec, rng, "C13")));
    let out = run_workloads(ctx, wls);
    let mut meta = PropMeta::default();
    meta.rule = "write: local instants in years 0001–9999 (both ends ±2 d, month ends, second/centisecond boundaries, uniform) x whole-minute offsets (0, ±1 min, ±23:59, half/quarter hours, uniform) x 5 precisions; the output must be accepted by a hand-written recogniser of the RFC 3339 date-time ABNF, carry exactly the precision's fraction digits, and denote the value's instant truncated to the precision and its offset. read: ABNF-generated timestamps (valid calendar date, every fraction length 0..=40 x {all 0, all 9, random}, Z / ±hh:mm incl. -00:00 and ±23:59) through parse_rfc3339 and FromStr — instant, nanoseconds (fraction truncated to 9 digits) and offset must match the reference reader; single-field mutations (month 00/13+, day 00/32+/> month length, Feb 29 in a common year, hour 24+, minute 60+, offset hour 24+, offset minute 60+) must be rejected. Rejection is read through parse_rfc3339 AND FromStr. Several fields out of range at once (2–4 mutations, also on year 0000); a sentinel grid of every field from {all zeros, typical, all nines} x zones x fractions (the SQL zero date 0000-00-00T00:00:00Z … 9999-99-99T99:99:99Z); second 60 where the UTC reading is not 23:59:60 (a leap second under no reading; on the 27 leap-second days and random days) and seconds 61+ must be refused. Fractions with long runs of nines / zeros crossing the ninth digit (cut, not rounded); a {min, max, max+1, typical}^5 grid of month, day, hour, minute, second (24:00:00 and the like). Not judged: second 60 at 23:59 UTC, lower-case t/z, wrong separators, year 0000 with all other fields in range. Every case non-trivial; distinct by hash of the text / (value, offset, precision). Sub-second values next to powers of ten on the write side; format_rfc3339 of Offset::Local values under a changing hooked zone.".into();
    meta.required_bins = vec![
        "local-twin/zone-switch-judged",
        "write/Seconds", "write/Centis", "write/Millis", "write/Micros", "write/Nanos", "write/offset-zero", "write/offset-negative", "write/offset-positive",
        "read/no-fraction", "read/fraction-1..8", "read/fraction-9", "read/fraction-10..19", "read/fraction-20..40", "read/Z", "read/-00:00", "read/negative-offset", "read/positive-offset", "read/utc-midnight-negative-offset", "read/utc-midnight-positive-offset",
        "reject/month=00", "reject/month>12", "reject/day=00", "reject/day>31", "reject/day>month-length", "reject/hour>=24", "reject/minute>=60", "reject/offset-hour>=24", "reject/offset-minute>=60", "reject/feb29-common-year", "reject/several-fields", "reject/boundary-grid", "read/fraction-digit-run", "reject/sentinel-grid", "reject/second>60", "reject/second=60-not-at-23:59-UTC",
    ];
    meta.assumptions = vec!["the reference reader/recogniser in model/rfc3339.rs is written from the RFC 3339 ABNF".into()];
    Ok((meta, out))
}
