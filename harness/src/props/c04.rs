//! C04 — adding or subtracting an amount of time moves the instant by exactly that amount.

use super::PropResult;
use crate::core::*;
use crate::model::calendar as cal;
use crate::model::instant::*;
use super::diff::*;
use astrolabe::{DateTime, DateUtilities, Offset, OffsetUtilities, Time, TimeUtilities};
use serde_json::{json, Value};
use std::time::Duration;

pub const METHODS: [(&str, i128, i128); 14] = [
    ("add_days", D, 1),
    ("sub_days", D, -1),
    ("add_hours", 3_600 * NS, 1),
    ("sub_hours", 3_600 * NS, -1),
    ("add_minutes", 60 * NS, 1),
    ("sub_minutes", 60 * NS, -1),
    ("add_seconds", NS, 1),
    ("sub_seconds", NS, -1),
    ("add_millis", 1_000_000, 1),
    ("sub_millis", 1_000_000, -1),
    ("add_micros", 1_000, 1),
    ("sub_micros", 1_000, -1),
    ("add_nanos", 1, 1),
    ("sub_nanos", 1, -1),
];

pub fn apply_method(dt: &DateTime, m: usize, c: u32) -> DateTime {
    match m {
        0 => dt.add_days(c),
        1 => dt.sub_days(c),
        2 => dt.add_hours(c),
        3 => dt.sub_hours(c),
        4 => dt.add_minutes(c),
        5 => dt.sub_minutes(c),
        6 => dt.add_seconds(c),
        7 => dt.sub_seconds(c),
        8 => dt.add_millis(c),
        9 => dt.sub_millis(c),
        10 => dt.add_micros(c),
        11 => dt.sub_micros(c),
        12 => dt.add_nanos(c),
        _ => dt.sub_nanos(c),
    }
}

/// count strata; returns (count, stratum name)
pub fn gen_count(rng: &mut Rng, i: i128, unit: i128, dir: i128) -> (u32, &'static str) {
    match rng.below(10) {
        8 | 9 => (crate::model::magic::gen_count(rng, unit), "count/magic-band(2^k-ns/unit, one day wide)"),
        0 => (rng.below(101) as u32, "count/0..100"),
        1 => (u32::MAX - rng.below(3) as u32, "count/u32::MAX-0..2"),
        2 => (((1u64 << 31) as i64 + rng.range_i64(-1, 1)) as u32, "count/2^31±1"),
        3 => {
            // thresholds at which count·unit crosses 2^63 / 2^64 ns (where a 64-bit intermediate wraps)
            let t = if rng.chance(1, 2) { 1i128 << 63 } else { 1i128 << 64 };
            let c = t / unit + rng.range_i128(-2, 2);
            (c.clamp(0, u32::MAX as i128) as u32, "count/64-bit-wrap-threshold")
        }
        4 | 5 => {
            // just representable / just not, computed from the model
            let room = if dir > 0 { (MAX_INSTANT - i) / unit } else { (i - MIN_INSTANT) / unit };
            let c = room + rng.range_i128(-1, 2);
            (c.clamp(0, u32::MAX as i128) as u32, "count/at-representability-edge")
        }
        6 => (rng.below(1 << 20) as u32, "count/<2^20"),
        _ => (rng.next() as u32, "count/uniform-u32"),
    }
}

fn judge_method(rec: &mut Rec, i: i128, off: i32, m: usize, c: u32, stratum: &'static str) {
    rec.eval();
    let (name, unit, dir) = METHODS[m];
    rec.api(name);
    rec.bin(stratum);
    let target = i + dir * unit * c as i128;
    let ok = representable(target);
    let crossing = (i < 0) != (target < 0);
    rec.bin_s(format!("{}/{}", name, if ok { "representable" } else { "unrepresentable" }));
    if crossing && ok {
        rec.bin("crosses-0001-01-01");
    }
    if c > 100 || !ok || crossing || i < 0 {
        rec.nontrivial(hash_i128s(&[i, off as i128, m as i128, c as i128]));
    }
    let wit = |obs: serde_json::Value| {
        json!({"start": show(i), "offset": off, "call": format!("{}({})", name, c), "model_result": if ok { json!(show(target)) } else { json!("unrepresentable") }, "observed": obs})
    };
    judge_dt(rec, &format!("C04|methods|DateTime::{}", name), (i, off), if ok { Expect::Value(target, off) } else { Expect::Refuse }, |dt| Ran::Returned(apply_method(dt, m, c)), wit);
    if rec.want_sample() {
        rec.sample(|| wit(json!("(see verdict)")));
    }
}

fn gen_duration(rng: &mut Rng, i: i128, dir: i128) -> (Duration, &'static str) {
    match rng.below(10) {
        8 | 9 => (crate::model::magic::gen_duration(rng), "dur/magic-magnitude"),
        0 => (Duration::new(rng.below(86_400), rng.below(1_000_000_000) as u32), "dur/sub-day"),
        1 => (Duration::new(rng.below(86_400 * 4000), rng.below(1_000_000_000) as u32), "dur/multi-day"),
        2 => (Duration::new(((1u64 << 32) * 86_400).wrapping_add(rng.below(200_000)), rng.below(1_000_000_000) as u32), "dur/2^32-days+eps"),
        3 => (Duration::new(u64::MAX - rng.below(3), 999_999_999), "dur/u64::MAX-s"),
        4 | 5 => {
            let room = if dir > 0 { MAX_INSTANT - i } else { i - MIN_INSTANT };
            let ns = (room + *rng.pick(&[-1i128, 0, 1, 2, NS, -NS, D, -D])).max(0);
            (Duration::new((ns / NS) as u64, (ns % NS) as u32), "dur/at-representability-edge")
        }
        6 => {
            // k whole days minus/plus the time of day: the result lands exactly on a midnight (± 1 ns)
            let tod = i.rem_euclid(D);
            let k = rng.range_i128(0, 3) * D;
            let ns = (k + if dir > 0 { D - tod } else { tod } + *rng.pick(&[-1i128, 0, 0, 1])).max(0);
            (Duration::new((ns / NS) as u64, (ns % NS) as u32), "dur/to-a-midnight±1ns")
        }
        _ => (Duration::new(rng.next() >> rng.below(40), rng.below(1_000_000_000) as u32), "dur/wide"),
    }
}

fn judge_duration(rec: &mut Rec, i: i128, off: i32, dir: i128, d: Duration, stratum: &'static str, assign: bool) {
    rec.eval();
    let name: &'static str = match (dir > 0, assign) {
        (true, false) => "DateTime + Duration",
        (false, false) => "DateTime - Duration",
        (true, true) => "DateTime += Duration",
        (false, true) => "DateTime -= Duration",
    };
    rec.api(name);
    rec.bin(stratum);
    let amount = d.as_secs() as i128 * NS + d.subsec_nanos() as i128;
    let target = i + dir * amount;
    let ok = representable(target);
    rec.bin_s(format!("{}/{}", name, if ok { "representable" } else { "unrepresentable" }));
    if ok && (i < 0) != (target < 0) {
        rec.bin("crosses-0001-01-01");
    }
    rec.nontrivial(hash_i128s(&[i, off as i128, dir, amount, assign as i128]));
    let wit = |obs: serde_json::Value| json!({"start": show(i), "offset": off, "op": name, "duration": format!("{:?}", d), "model_result": if ok { json!(show(target)) } else { json!("unrepresentable") }, "observed": obs});
    let sig = format!("C04|operators|{}", name);
    judge_dt(
        rec,
        &sig,
        (i, off),
        if ok { Expect::Value(target, off) } else { Expect::Refuse },
        |dt| {
            let dt = *dt;
            Ran::Returned(if assign {
                let mut x = dt;
                if dir > 0 {
                    x += d;
                } else {
                    x -= d;
                }
                x
            } else if dir > 0 {
                dt + d
            } else {
                dt - d
            })
        },
        wit,
    );
    if rec.want_sample() {
        rec.sample(|| wit(json!("(see verdict)")));
    }
}

fn judge_time_op(rec: &mut Rec, i: i128, off: i32, dir: i128, tn: u64, toff: i32, assign: bool) {
    rec.eval();
    let name: &'static str = match (dir > 0, assign) {
        (true, false) => "DateTime + Time",
        (false, false) => "DateTime - Time",
        (true, true) => "DateTime += Time",
        (false, true) => "DateTime -= Time",
    };
    rec.api(name);
    let target = i + dir * tn as i128;
    let ok = representable(target);
    rec.bin_s(format!("{}/{}", name, if ok { "representable" } else { "unrepresentable" }));
    rec.nontrivial(hash_i128s(&[i, off as i128, dir, tn as i128, toff as i128, assign as i128]));
    let wit = |obs: serde_json::Value| json!({"start": show(i), "offset": off, "op": name, "time_as_nanos": tn, "time_offset": toff, "model_result": if ok { json!(show(target)) } else { json!("unrepresentable") }, "observed": obs});
    let sig = format!("C04|operators|{}", name);
    judge_dt(
        rec,
        &sig,
        (i, off),
        if ok { Expect::Value(target, off) } else { Expect::Refuse },
        |dt| {
            let dt = *dt;
            let t = Time::from_nanos(tn).unwrap().set_offset(Offset::Fixed(toff));
            Ran::Returned(if assign {
                let mut x = dt;
                if dir > 0 {
                    x += t;
                } else {
                    x -= t;
                }
                x
            } else if dir > 0 {
                dt + t
            } else {
                dt - t
            })
        },
        wit,
    );
}

fn judge_date(rec: &mut Rec, day: i64, kind: u8, c: u32, d: Duration) {
    rec.eval();
    let (name, delta): (&'static str, i128) = match kind {
        0 => ("Date::add_days", c as i128),
        1 => ("Date::sub_days", -(c as i128)),
        2 => ("Date + Duration", (d.as_secs() / 86_400) as i128),
        3 => ("Date - Duration", -((d.as_secs() / 86_400) as i128)),
        4 => ("Date += Duration", (d.as_secs() / 86_400) as i128),
        _ => ("Date -= Duration", -((d.as_secs() / 86_400) as i128)),
    };
    rec.api(name);
    let target = day as i128 + delta;
    let ok = (cal::MIN_DAY as i128..=cal::MAX_DAY as i128).contains(&target);
    rec.bin_s(format!("{}/{}", name, if ok { "representable" } else { "unrepresentable" }));
    rec.nontrivial(hash_i128s(&[day as i128, kind as i128, c as i128, d.as_secs() as i128]));
    let Some(dt) = sane_date(day) else {
        rec.bin(SKIP_START);
        return;
    };
    let r = trap(|| match kind {
        0 => dt.add_days(c),
        1 => dt.sub_days(c),
        2 => dt + d,
        3 => dt - d,
        4 => {
            let mut x = dt;
            x += d;
            x
        }
        _ => {
            let mut x = dt;
            x -= d;
            x
        }
    });
    let wit = |obs: serde_json::Value| {
        let s = cal::ymd(day);
        json!({"start": [s.0, s.1, s.2], "start_day": day, "op": name, "count": c, "duration": format!("{:?}", d), "model_day": if ok { json!(target.to_string()) } else { json!("unrepresentable") }, "observed": obs})
    };
    let big = if delta.abs() >= (1i128 << 31) { "delta>=2^31" } else { "delta<2^31" };
    match (r, ok) {
        (Ok(res), true) => match diff_date(&res, target as i64) {
            Ok(DateDiff::Skip) => rec.bin(SKIP_EXPECTED),
            Ok(DateDiff::Same) => {}
            Ok(DateDiff::Differs(got, exp)) => rec.violation(format!("C04|date|{}|wrong-day|{}", name, big), || wit(json!({"result_reads": got, "independently_built_expected_reads": exp}))),
            Err(p) => rec.violation(format!("C04|date|{}|result-unreadable|{},{}", name, p.class, p.site()), || wit(p.to_json())),
        },
        (Ok(res), false) => rec.violation(format!("C04|date|{}|returned-when-unrepresentable|{}", name, big), || wit(json!({"result_reads": trap(|| date_reads(&res)).unwrap_or_default()}))),
        (Err(p), true) => rec.violation(format!("C04|date|{}|panic-when-representable|{},{}", name, p.class, p.site()), || wit(p.to_json())),
        (Err(_), false) => rec.outcome("refused(panic)"),
    }
    if rec.want_sample() {
        rec.sample(|| wit(json!("(see verdict)")));
    }
}

pub fn run(ctx: &Ctx) -> PropResult {
    let mut wls = vec![];
    wls.push(Workload::cases("datetime_methods", ctx.count(400_000, 20_000_000), |rec, idx, rng| {
        let m = (idx % 14) as usize;
        let (_, unit, dir) = METHODS[m];
        let (i, off) = if rng.chance(1, 8) {
            // hard against a range end (offset 0, or one that pulls the local time inwards), so that even
            // nanosecond counts decide representability
            let span = (unit * 5).min(3 * D);
            if dir > 0 {
                (MAX_INSTANT - rng.range_i128(0, span), -(rng.below(86_400) as i32) * (rng.below(2) as i32))
            } else {
                (MIN_INSTANT + rng.range_i128(0, span), (rng.below(86_400) as i32) * (rng.below(2) as i32))
            }
        } else {
            (gen_instant(rng, 2).0, gen_offset_any(rng))
        };
        let (c, stratum) = gen_count(rng, i, unit, dir);
        judge_method(rec, i, off, m, c, stratum);
    }));
    wls.push(Workload::cases("datetime_duration_ops", ctx.count(120_000, 6_000_000), |rec, idx, rng| {
        let dir = if idx % 2 == 0 { 1 } else { -1 };
        // 1/8: offset 0 and no margin, so that the start can sit in the first / last second of the range and a
        // Duration spanning (almost) the whole range is still representable
        let (i, off) = if rng.chance(1, 8) {
            let e = *rng.pick(&[0i128, 1, NS - 1, NS, D]) + if rng.chance(1, 2) { rng.range_i128(0, NS - 1) } else { 0 };
            (if dir > 0 { MIN_INSTANT + e } else { MAX_INSTANT - e }, 0)
        } else if rng.chance(1, 8) {
            (gen_instant(rng, 0).0, 0)
        } else {
            (gen_instant(rng, 2).0, gen_offset_any(rng))
        };
        let (d, stratum) = gen_duration(rng, i, dir);
        judge_duration(rec, i, off, dir, d, stratum, idx % 8 >= 6);
    }));
    wls.push(Workload::cases("datetime_time_ops", ctx.count(60_000, 2_000_000), |rec, idx, rng| {
        let dir = if idx % 2 == 0 { 1 } else { -1 };
        let (i, off) = match rng.below(3) {
            0 => {
                // within one day of the range end the operation moves towards, offset 0
                (if dir < 0 { MIN_INSTANT + rng.range_i128(0, D) } else { MAX_INSTANT - rng.range_i128(0, D) }, 0)
            }
            _ => (gen_instant(rng, 2).0, gen_offset_any(rng)),
        };
        let tod = i.rem_euclid(D);
        let tn = match rng.below(4) {
            0 => *rng.pick(&[0u64, 1, 86_399_999_999_999, 43_200_000_000_000]),
            1 => {
                // exactly to the next / previous midnight, or one nanosecond either side
                let exact = if dir > 0 { D - tod } else { tod };
                (exact + *rng.pick(&[-1i128, 0, 0, 1])).clamp(0, D - 1) as u64
            }
            _ => rng.below(86_400_000_000_000),
        };
        if (dir > 0 && tod + tn as i128 == D) || (dir < 0 && tod == tn as i128) {
            rec.bin("time-op/lands-exactly-on-midnight");
        }
        judge_time_op(rec, i, off, dir, tn, gen_offset_any(rng), idx % 8 >= 6);
    }));
    wls.push(Workload::cases("date_ops", ctx.count(120_000, 4_000_000), |rec, idx, rng| {
        let day = match rng.below(4) {
            0 => rng.range_i64(-800, 800),
            1 => rng.range_i64(cal::MIN_DAY, cal::MIN_DAY + 1000),
            2 => rng.range_i64(cal::MAX_DAY - 1000, cal::MAX_DAY),
            _ => rng.range_i64(cal::MIN_DAY, cal::MAX_DAY),
        };
        let kind = (idx % 6) as u8;
        let dir: i128 = if kind % 2 == 0 { 1 } else { -1 };
        let (c, _) = gen_count(rng, day as i128 * D, D, dir);
        let (d, _) = gen_duration(rng, day as i128 * D, dir);
        judge_date(rec, day, kind, c, d);
    }));
    // call sequences: one operation on a value, on siblings of it (same time another day, 2^j units away, …) and on the
    // value again; and several counts on one value in a row
    // receivers whose local reading lies beyond a range end (outward offset): moving them further inside or by zero
    // must work on the UTC instant like for any other value; moving them outside must panic
    wls.push(Workload::cases("receivers_with_an_out_of_range_local_reading", ctx.count(10_000, 300_000), |rec, idx, rng| {
        rec.eval();
        let Some((a, i, off, high)) = outward_value(rng) else {
            rec.bin("outward/could-not-build(other-property)");
            return;
        };
        rec.bin("outward/local-reading-beyond-the-range-end");
        let m = (idx % 14) as usize;
        let (name, unit, dir) = METHODS[m];
        let inward = (dir < 0) == high;
        let c: u32 = if inward { match rng.below(3) { 0 => 0, 1 => rng.below(100) as u32, _ => rng.below(1 << 20) as u32 } } else { *rng.pick(&[0u32, 0, 1]) };
        let target = i + dir * unit * c as i128;
        rec.api(name);
        rec.nontrivial(hash_i128s(&[i, off as i128, m as i128, c as i128, 0x0404]));
        let r = trap(|| apply_method(&a, m, c));
        let wit = |obs: Value| json!({"receiver_utc": show(i), "offset": off, "note": "local reading beyond the range end", "call": format!("{}({})", name, c), "model_result_utc": if representable(target) { show(target) } else { "unrepresentable".into() }, "observed": obs});
        match (r, representable(target)) {
            (Ok(res), true) => {
                let ok = trap(|| read(&res) == target && res.get_offset() == Offset::Fixed(off) && res.timestamp() == (target.div_euclid(NS) - cal::DAYS_TO_1970 as i128 * 86_400) as i64).unwrap_or(false);
                if !ok {
                    rec.violation(format!("C04|outward-receiver|{}|wrong-instant-or-offset", name), || wit(json!(trap(|| utc_reads(&res)).unwrap_or_default())));
                }
            }
            (Err(p), true) => rec.violation(format!("C04|outward-receiver|{}|panic-when-representable|{},{}", name, p.class, p.site()), || wit(p.to_json())),
            (Ok(res), false) => rec.violation(format!("C04|outward-receiver|{}|returned-when-unrepresentable", name), || wit(json!(trap(|| utc_reads(&res)).unwrap_or_default()))),
            (Err(_), false) => {}
        }
    }));
    wls.push(Workload::cases("sibling_call_sequences", ctx.count(40_000, 1_500_000), |rec, idx, rng| {
        let (lo, hi) = (MIN_INSTANT + 3 * D, MAX_INSTANT - 3 * D);
        let i = gen_instant(rng, 3).0;
        let off = gen_offset(rng);
        let m = (idx % 14) as usize;
        let (_, unit, dir) = METHODS[m];
        let (c, stratum) = gen_count(rng, i, unit, dir);
        rec.bin("sequence/sibling-calls");
        judge_method(rec, i, off, m, c, stratum);
        for _ in 0..3 {
            let j = crate::model::magic::sibling_instant(rng, i, lo, hi);
            let (m2, c2) = if rng.chance(1, 2) { (m, c) } else { (rng.below(14) as usize, gen_count(rng, j, METHODS[m].1, METHODS[m].2).0) };
            judge_method(rec, j, if rng.chance(1, 2) { off } else { gen_offset(rng) }, m2, c2, "count/in-a-sibling-sequence");
        }
        judge_method(rec, i, off, m, c, stratum);
    }));
    wls.push(Workload::cases("offset_local_twins", ctx.count(4_000, 40_000), |rec, _, rng| super::localzone::twin_case(rec, rng, "C04", super::walk::Family::Arithmetic)));
    wls.push(Workload::cases("date_api_walks", ctx.count(20_000, 800_000), |rec, _, rng| super::walk::walk_date(rec, rng, "C04", super::walk::Family::Arithmetic)));
    wls.push(Workload::cases("api_walks", ctx.count(30_000, 1_500_000), |rec, _, rng| super::walk::walk(rec, rng, "C04", super::walk::Family::Arithmetic)));
    wls.push(Workload::cases("trait_dispatch_vs_method_syntax", ctx.count(8_000, 200_000), |rec, _, rng| super::ufcs::case(rec, rng, "C04")));
    let out = run_workloads(ctx, wls);
    let mut meta = PropMeta::default();
    meta.rule = "instant (10 strata incl. 2^k·unit from 0001-01-01 / 1970-01-01 and the seconds at the range ends, all eras, two-day margin when an offset is attached) x offset (whole ±86399 s) x method (14 add_/sub_ methods round-robin) x count from {0..100, u32::MAX−0..2, 2^31±1, the counts at which count·unit crosses 2^63/2^64 ns ±2, the one-day-wide band of counts below 2^31/2^32/2^63/2^64 ns ÷ unit (a time of day is added to the product afterwards), the model-computed last representable count −1..+2, <2^20, uniform u32}; Durations {sub-day, multi-day, 2^32 days+ε, u64::MAX s, at the representability edge ±{1 ns,1 s,1 d} (also from the first/last second of the range: a Duration spanning the whole range), magic magnitudes 2^k·unit ± jitter built with Duration::new, wide}; DateTime ± Time (incl. amounts that land the result exactly on a midnight ± 1 ns); random API walks of 4–14 steps in which arithmetic steps are judged and set_*/clear/month/offset steps only move the state, every step observed through nanos_since, timestamp()+nano(), all getters and as_ymdhms; Date add/sub_days and ± Duration (whole days). Oracle: i128 instant arithmetic — representable ⇒ exact instant, same offset, day-nanoseconds < 24 h; not representable ⇒ the call must panic (any panic). Non-trivial = count > 100, BC start, era crossing or unrepresentable target (methods); every operator case. Distinct by input hash. Offset::Local twins: the same arithmetic step on the value carrying Offset::Local (system zone hooked to resolve to o; synthetic fixed zones and real zones with transitions) and on its Offset::Fixed(o) twin gives the same read-outs. Receivers whose local reading lies beyond a range end (outward offset): moving them inwards or by zero must work on the UTC instant, moving them out must panic. Offsets of a day or more on receivers and on the Time operand in one case of ten. Date API walks. Sibling call sequences.".into();
    meta.rule.push_str(" The property's trait methods are also called through the trait (generic code / UFCS) and must agree with method syntax on the same operands (a type may grow inherent twins of its trait methods).");
    meta.required_bins = vec!["trait-dispatch/compared", 
        "outward/local-reading-beyond-the-range-end",
        "date-walk/with-judged-steps",
        "sequence/sibling-calls",
        "local-twin/judged", "local-twin/synthetic-fixed-zone", "local-twin/real-zone-with-transitions",
        "count/0..100", "count/u32::MAX-0..2", "count/2^31±1", "count/64-bit-wrap-threshold", "count/magic-band(2^k-ns/unit, one day wide)", "dur/magic-magnitude", "count/at-representability-edge", "count/uniform-u32",
        "add_hours/representable", "add_hours/unrepresentable", "sub_minutes/representable", "sub_nanos/unrepresentable", "add_days/unrepresentable", "sub_days/representable",
        "crosses-0001-01-01", "dur/2^32-days+eps", "dur/u64::MAX-s", "dur/at-representability-edge", "dur/to-a-midnight±1ns", "time-op/lands-exactly-on-midnight",
        "DateTime + Duration/representable", "DateTime - Duration/unrepresentable", "DateTime + Time/representable", "DateTime - Time/unrepresentable", "DateTime -= Time/representable",
        "Date::add_days/unrepresentable", "Date - Duration/representable", "Date + Duration/unrepresentable", "walk/with-judged-steps",
    ];
    meta.assumptions = vec!["instants built/read as in C03".into()];
    Ok((meta, out))
}
