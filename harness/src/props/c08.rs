//! C08 — clock time is arithmetic modulo 24 h with one canonical value per time of day.

use super::c04::gen_count;
use super::PropResult;
use crate::core::*;
use crate::model::instant::*;
use astrolabe::errors::AstrolabeError;
use astrolabe::{DateTime, Offset, OffsetUtilities, Time, TimeUtilities};
use serde_json::{json, Value};
use std::time::Duration;

pub const DN: u64 = 86_400_000_000_000;

pub const TMETHODS: [(&str, i128, i128); 12] = [
    ("add_hours", 3_600 * NS, 1),
    ("sub_hours", 3_600 * NS, -1),
    ("add_minutes", 60 * NS, 1),
    ("sub_minutes", 60 * NS, -1),
    ("add_seconds", NS, 1),
    ("sub_seconds", NS, -1),
    ("add_millis", 1_000_000, 1),
    ("sub_millis", 1_000_000, -1),
    ("add_micros", 1_000, 1),
    ("sub_micros", 1_000, -1),
    ("add_nanos", 1, 1),
    ("sub_nanos", 1, -1),
];

pub fn apply_tmethod(t: &Time, m: usize, c: u32) -> Time {
    match m {
        0 => t.add_hours(c),
        1 => t.sub_hours(c),
        2 => t.add_minutes(c),
        3 => t.sub_minutes(c),
        4 => t.add_seconds(c),
        5 => t.sub_seconds(c),
        6 => t.add_millis(c),
        7 => t.sub_millis(c),
        8 => t.add_micros(c),
        9 => t.sub_micros(c),
        10 => t.add_nanos(c),
        _ => t.sub_nanos(c),
    }
}

fn mk_time(n: u64, off: i32) -> Time {
    Time::from_nanos(n).unwrap().set_offset(Offset::Fixed(off))
}

/// Common verdict on a produced Time: canonical, expected value, equal to the canonical constructor's value, offset.
fn check_time(rec: &mut Rec, api: &str, res: Result<(u64, Option<i32>, bool, (u32, u32, u32)), Panic>, exp_n: u64, exp_off: i32, wit: &dyn Fn(Value) -> Value) {
    match res {
        Err(p) => rec.violation(format!("C08|{}|panic|{},{}", api, p.class, p.site()), || wit(p.to_json())),
        Ok((n, off, eq_canonical, hms)) => {
            if n >= DN {
                rec.violation(format!("C08|{}|as_nanos>=24h", api), || wit(json!({"as_nanos": n, "expected": exp_n})));
            } else if n != exp_n {
                rec.violation(format!("C08|{}|wrong-value", api), || wit(json!({"as_nanos": n, "expected": exp_n, "off_by_ns": (n as i128 - exp_n as i128).to_string()})));
            } else if !eq_canonical {
                rec.violation(format!("C08|{}|unequal-to-same-time-of-day", api), || wit(json!({"as_nanos": n})));
            } else if off != Some(exp_off) {
                rec.violation(format!("C08|{}|offset-not-kept", api), || wit(json!({"offset": format!("{:?}", off), "expected_offset": exp_off})));
            } else {
                let s = (exp_n / 1_000_000_000) as u32;
                if hms != (s / 3600, s / 60 % 60, s % 60) {
                    rec.violation(format!("C08|{}|as_hms-mismatch", api), || wit(json!({"as_hms": [hms.0, hms.1, hms.2]})));
                }
            }
        }
    }
}

fn observe(t: &Time, exp_n: u64) -> (u64, Option<i32>, bool, (u32, u32, u32)) {
    let canonical = Time::from_nanos(exp_n % DN).unwrap();
    (t.as_nanos(), time_offset_secs(t), *t == canonical && canonical == *t, t.as_hms())
}

fn judge_method(rec: &mut Rec, n: u64, off: i32, m: usize, c: u32, stratum: &'static str) {
    rec.eval();
    let (name, unit, dir) = TMETHODS[m];
    rec.api(name);
    rec.bin(stratum);
    let exp = (n as i128 + dir * unit * c as i128).rem_euclid(DN as i128) as u64;
    let wraps = (n as i128 + dir * unit * c as i128).div_euclid(DN as i128);
    rec.bin(if wraps == 0 { "method/no-wrap" } else if wraps.abs() == 1 { "method/wraps-once" } else { "method/wraps-many" });
    if wraps != 0 {
        rec.nontrivial(hash_i128s(&[n as i128, off as i128, m as i128, c as i128]));
    }
    let r = trap(|| observe(&apply_tmethod(&mk_time(n, off), m, c), exp));
    let wit = |obs: Value| json!({"time_as_nanos": n, "offset": off, "call": format!("{}({})", name, c), "model_as_nanos": exp, "day_wraps": wraps.to_string(), "observed": obs});
    check_time(rec, &format!("methods|Time::{}", name), r, exp, off, &wit);
    if rec.want_sample() {
        rec.sample(|| wit(json!("(see verdict)")));
    }
}

fn boundary_times() -> Vec<u64> {
    let mut v = vec![];
    for s in [0u64, 1, 59, 60, 61, 3_599, 3_600, 3_601, 43_199, 43_200, 43_201, 82_800, 86_340, 86_398, 86_399, 21_600, 64_800, 30_000, 57_600, 7_199, 79_200, 36_000, 50_400] {
        for sub in [0u64, 1, 999_999_999, 500_000_000, 999_999, 1_000_000, 1_000, 999] {
            v.push(s * 1_000_000_000 + sub);
        }
    }
    v.sort_unstable();
    v.dedup();
    v
}

fn judge_time_time(rec: &mut Rec, n1: u64, n2: u64, o1: i32, o2: i32, sub: bool, assign: bool) {
    rec.eval();
    let name: &'static str = match (sub, assign) {
        (false, false) => "Time + Time",
        (true, false) => "Time - Time",
        (false, true) => "Time += Time",
        (true, true) => "Time -= Time",
    };
    rec.api(name);
    let raw = if sub { n1 as i128 - n2 as i128 } else { n1 as i128 + n2 as i128 };
    let exp = raw.rem_euclid(DN as i128) as u64;
    rec.bin(if raw < 0 { "binop/below-midnight" } else if raw >= DN as i128 { "binop/past-midnight" } else { "binop/inside-day" });
    rec.nontrivial(hash_i128s(&[n1 as i128, n2 as i128, o1 as i128, o2 as i128, sub as i128, assign as i128]));
    let r = trap(|| {
        let a = mk_time(n1, o1);
        let b = mk_time(n2, o2);
        let res = match (sub, assign) {
            (false, false) => a + b,
            (true, false) => a - b,
            (false, true) => {
                let mut x = a;
                x += b;
                x
            }
            (true, true) => {
                let mut x = a;
                x -= b;
                x
            }
        };
        observe(&res, exp)
    });
    let wit = |obs: Value| json!({"a_as_nanos": n1, "a_offset": o1, "b_as_nanos": n2, "b_offset": o2, "op": name, "model_as_nanos": exp, "observed": obs});
    check_time(rec, &format!("binops|{}", name), r, exp, o1, &wit);
    if rec.want_sample() {
        rec.sample(|| wit(json!("(see verdict)")));
    }
}

fn judge_time_duration(rec: &mut Rec, n: u64, off: i32, d: Duration, sub: bool, assign: bool, stratum: &'static str) {
    rec.eval();
    let name: &'static str = match (sub, assign) {
        (false, false) => "Time + Duration",
        (true, false) => "Time - Duration",
        (false, true) => "Time += Duration",
        (true, true) => "Time -= Duration",
    };
    rec.api(name);
    rec.bin(stratum);
    let amount = d.as_secs() as i128 * NS + d.subsec_nanos() as i128;
    let raw = if sub { n as i128 - amount } else { n as i128 + amount };
    let exp = raw.rem_euclid(DN as i128) as u64;
    rec.bin(if raw < 0 { "durop/below-midnight" } else if raw >= DN as i128 { "durop/past-midnight" } else { "durop/inside-day" });
    rec.nontrivial(hash_i128s(&[n as i128, off as i128, amount, sub as i128, assign as i128]));
    let r = trap(|| {
        let a = mk_time(n, off);
        let res = match (sub, assign) {
            (false, false) => a + d,
            (true, false) => a - d,
            (false, true) => {
                let mut x = a;
                x += d;
                x
            }
            (true, true) => {
                let mut x = a;
                x -= d;
                x
            }
        };
        observe(&res, exp)
    });
    let wit = |obs: Value| json!({"time_as_nanos": n, "offset": off, "op": name, "duration": format!("{:?}", d), "model_as_nanos": exp, "observed": obs});
    check_time(rec, &format!("durops|{}", name), r, exp, off, &wit);
    if rec.want_sample() {
        rec.sample(|| wit(json!("(see verdict)")));
    }
}

fn judge_ctor(rec: &mut Rec, kind: u8, a: u64, b: u32, c: u32) {
    rec.eval();
    let (name, exp): (&'static str, Option<u64>) = match kind {
        0 => ("Time::from_hms", if a <= 23 && b <= 59 && c <= 59 { Some((a * 3600 + b as u64 * 60 + c as u64) * 1_000_000_000) } else { None }),
        1 => ("Time::from_seconds", if a < 86_400 { Some(a * 1_000_000_000) } else { None }),
        _ => ("Time::from_nanos", if a < DN { Some(a) } else { None }),
    };
    rec.api(name);
    rec.bin(if exp.is_some() { "ctor/inside-day" } else { "ctor/outside-day" });
    rec.nontrivial(hash_i128s(&[kind as i128, a as i128, b as i128, c as i128]));
    let r = trap(|| {
        let t = match kind {
            0 => Time::from_hms(a as u32, b, c),
            1 => Time::from_seconds(a as u32),
            _ => Time::from_nanos(a),
        };
        t.map(|t| (t.as_nanos(), time_offset_secs(&t), t.as_hms(), t.as_seconds()))
    });
    let wit = |obs: Value| json!({"call": format!("{}{:?}", name, match kind { 0 => vec![a, b as u64, c as u64], _ => vec![a] }), "model": exp, "observed": obs});
    match (r, exp) {
        (Err(p), _) => rec.violation(format!("C08|ctors|{}|panic|{},{}", name, p.class, p.site()), || wit(p.to_json())),
        (Ok(Ok((n, off, hms, secs))), Some(e)) => {
            let s = (e / 1_000_000_000) as u32;
            if n != e || off != Some(0) || hms != (s / 3600, s / 60 % 60, s % 60) || secs != s {
                rec.violation(format!("C08|ctors|{}|wrong-value", name), || wit(json!({"as_nanos": n, "offset": format!("{:?}", off), "as_hms": [hms.0, hms.1, hms.2], "as_seconds": secs})));
            }
        }
        (Ok(Ok((n, _, _, _))), None) => rec.violation(format!("C08|ctors|{}|accepted-outside-day", name), || wit(json!({"as_nanos": n}))),
        (Ok(Err(e)), Some(_)) => rec.violation(format!("C08|ctors|{}|refused-inside-day", name), || wit(json!({"error": e.to_string()}))),
        (Ok(Err(e)), None) => {
            if !matches!(e, AstrolabeError::OutOfRange(_)) {
                rec.violation(format!("C08|ctors|{}|wrong-error-kind", name), || wit(json!({"error": format!("{:?}", e)})));
            }
        }
    }
    if rec.want_sample() {
        rec.sample(|| wit(json!("(see verdict)")));
    }
}

fn judge_from_datetime(rec: &mut Rec, i: i128, off: i32, by_ref: bool) {
    rec.eval();
    let name: &'static str = if by_ref { "Time::from(&DateTime)" } else { "Time::from(DateTime)" };
    rec.api(name);
    rec.bin(if i < 0 { "from-datetime/before-0001" } else { "from-datetime/AD" });
    rec.nontrivial(hash_i128s(&[i, off as i128, by_ref as i128]));
    let exp = i.rem_euclid(D) as u64;
    let Some((dt, _)) = sane_value(i, off) else {
        rec.bin(super::diff::SKIP_START);
        return;
    };
    let r = trap(|| {
        let t: Time = if by_ref { Time::from(&dt) } else { Time::from(dt) };
        let shown_equal = t.format("HH:mm:ss.nnnnn") == dt.format("HH:mm:ss.nnnnn");
        (observe(&t, exp), shown_equal)
    });
    let wit = |obs: Value| json!({"datetime": show(i), "offset": off, "conversion": name, "model_as_nanos": exp, "observed": obs});
    match r {
        Ok((o, shown_equal)) => {
            let bad_show = !shown_equal && o.0 < DN;
            check_time(rec, &format!("conversions|{}", name), Ok(o), exp, off, &wit);
            if bad_show {
                rec.violation(format!("C08|conversions|{}|shows-different-clock-time", name), || wit(json!("format(HH:mm:ss.nnnnn) differs between the DateTime and the Time")));
            }
        }
        Err(p) => check_time(rec, &format!("conversions|{}", name), Err(p), exp, off, &wit),
    }
    if rec.want_sample() {
        rec.sample(|| wit(json!("(see verdict)")));
    }
}

// ---- random API walks: every Time reachable through the public API stays canonical and follows the model ----

#[derive(Clone, Copy, Debug)]
pub struct TModel {
    pub n: u64,
    pub off: i32,
}

impl TModel {
    pub fn local(&self) -> u64 {
        (self.n as i128 + self.off as i128 * NS).rem_euclid(DN as i128) as u64
    }
    pub fn from_local(&self, local: u64) -> u64 {
        (local as i128 - self.off as i128 * NS).rem_euclid(DN as i128) as u64
    }
}

/// set_<field>(v) on a local time-of-day; None = must be refused
pub fn model_set_time_field(local: u64, field: usize, v: u32) -> Option<u64> {
    let secs = local / 1_000_000_000;
    let sub = local % 1_000_000_000;
    let (h, m, s) = (secs / 3600, secs / 60 % 60, secs % 60);
    let v = v as u64;
    match field {
        0 => (v <= 23).then(|| (v * 3600 + m * 60 + s) * 1_000_000_000 + sub),
        1 => (v <= 59).then(|| (h * 3600 + v * 60 + s) * 1_000_000_000 + sub),
        2 => (v <= 59).then(|| (h * 3600 + m * 60 + v) * 1_000_000_000 + sub),
        3 => (v <= 999).then(|| secs * 1_000_000_000 + v * 1_000_000 + sub % 1_000_000),
        4 => (v <= 999_999).then(|| secs * 1_000_000_000 + v * 1_000 + sub % 1_000),
        _ => (v <= 999_999_999).then(|| secs * 1_000_000_000 + v),
    }
}

/// clear_until_<unit> on a local time-of-day (0 hour, 1 minute, 2 second, 3 milli, 4 micro, 5 nano)
pub fn model_clear_time(local: u64, unit: usize) -> u64 {
    let secs = local / 1_000_000_000;
    let sub = local % 1_000_000_000;
    match unit {
        0 => 0,
        1 => secs / 3600 * 3600 * 1_000_000_000,
        2 => secs / 60 * 60 * 1_000_000_000,
        3 => secs * 1_000_000_000,
        4 => secs * 1_000_000_000 + sub / 1_000_000 * 1_000_000,
        _ => secs * 1_000_000_000 + sub / 1_000 * 1_000,
    }
}

pub const SETTERS: [&str; 6] = ["set_hour", "set_minute", "set_second", "set_milli", "set_micro", "set_nano"];
pub const CLEARS: [&str; 6] = ["clear_until_hour", "clear_until_minute", "clear_until_second", "clear_until_milli", "clear_until_micro", "clear_until_nano"];

pub fn apply_time_setter(t: &Time, f: usize, v: u32) -> Result<Time, AstrolabeError> {
    match f {
        0 => t.set_hour(v),
        1 => t.set_minute(v),
        2 => t.set_second(v),
        3 => t.set_milli(v),
        4 => t.set_micro(v),
        _ => t.set_nano(v),
    }
}

pub fn apply_time_clear(t: &Time, u: usize) -> Time {
    match u {
        0 => t.clear_until_hour(),
        1 => t.clear_until_minute(),
        2 => t.clear_until_second(),
        3 => t.clear_until_milli(),
        4 => t.clear_until_micro(),
        _ => t.clear_until_nano(),
    }
}

fn gen_time_nanos(rng: &mut Rng) -> u64 {
    match rng.below(4) {
        0 => *rng.pick(&[0u64, 1, DN - 1, DN / 2, DN / 2 - 1, DN - 1_000_000_000, 999_999_999]),
        1 => rng.below(86_400) * 1_000_000_000 + *rng.pick(&[0u64, 1, 999_999_999]),
        _ => rng.below(DN),
    }
}

fn walk(rec: &mut Rec, rng: &mut Rng) {
    let start = gen_time_nanos(rng);
    let mut model = TModel { n: start, off: 0 };
    let mut history: Vec<String> = vec![format!("Time::from_nanos({})", start)];
    let r0 = trap(|| Time::from_nanos(start).unwrap());
    let mut t = match r0 {
        Ok(t) => t,
        Err(p) => {
            rec.violation(format!("C08|walk|Time::from_nanos|panic|{},{}", p.class, p.site()), || json!({"history": history, "panic": p.to_json()}));
            return;
        }
    };
    let steps = 3 + rng.below(8);
    for _ in 0..steps {
        rec.eval();
        let op = rng.below(10);
        let (desc, next_model, result): (String, Option<TModel>, Result<Option<Time>, Panic>) = match op {
            0 | 1 => {
                let m = rng.below(12) as usize;
                let (name, unit, dir) = TMETHODS[m];
                let (c, _) = gen_count(rng, 0, unit, dir);
                let nm = TModel { n: (model.n as i128 + dir * unit * c as i128).rem_euclid(DN as i128) as u64, off: model.off };
                (format!("{}({})", name, c), Some(nm), trap(|| Some(apply_tmethod(&t, m, c))))
            }
            2 => {
                let o = gen_offset(rng);
                (format!("set_offset(Fixed({}))", o), Some(TModel { n: model.n, off: o }), trap(|| Some(t.set_offset(Offset::Fixed(o)))))
            }
            3 => {
                let o = gen_offset(rng);
                let nm = TModel { n: (model.n as i128 - o as i128 * NS).rem_euclid(DN as i128) as u64, off: o };
                (format!("as_offset(Fixed({}))", o), Some(nm), trap(|| Some(t.as_offset(Offset::Fixed(o)))))
            }
            4 | 5 => {
                let f = rng.below(6) as usize;
                let max = [23u32, 59, 59, 999, 999_999, 999_999_999][f];
                let v = match rng.below(5) {
                    0 => max,
                    1 => max + 1,
                    2 => 0,
                    3 => rng.next() as u32,
                    _ => rng.below(max as u64 + 1) as u32,
                };
                let nm = model_set_time_field(model.local(), f, v).map(|l| TModel { n: model.from_local(l), off: model.off });
                (format!("{}({})", SETTERS[f], v), nm, trap(|| apply_time_setter(&t, f, v).ok()))
            }
            6 => {
                let u = rng.below(6) as usize;
                let nm = TModel { n: model.from_local(model_clear_time(model.local(), u)), off: model.off };
                (CLEARS[u].to_string(), Some(nm), trap(|| Some(apply_time_clear(&t, u))))
            }
            7 => {
                let n2 = gen_time_nanos(rng);
                let sub = rng.chance(1, 2);
                let raw = if sub { model.n as i128 - n2 as i128 } else { model.n as i128 + n2 as i128 };
                let nm = TModel { n: raw.rem_euclid(DN as i128) as u64, off: model.off };
                (format!("{} Time::from_nanos({})", if sub { "-" } else { "+" }, n2), Some(nm), trap(|| {
                    let b = Time::from_nanos(n2).unwrap();
                    Some(if sub { t - b } else { t + b })
                }))
            }
            8 => {
                let d = Duration::new(rng.below(200_000), rng.below(1_000_000_000) as u32);
                let sub = rng.chance(1, 2);
                let amount = d.as_secs() as i128 * NS + d.subsec_nanos() as i128;
                let raw = if sub { model.n as i128 - amount } else { model.n as i128 + amount };
                let nm = TModel { n: raw.rem_euclid(DN as i128) as u64, off: model.off };
                (format!("{} {:?}", if sub { "-" } else { "+" }, d), Some(nm), trap(|| Some(if sub { t - d } else { t + d })))
            }
            _ => {
                // text round trip in the value's own offset: parse(format(..)) with a zone-carrying pattern
                let nm = model;
                (
                    "parse(format(\"HH:mm:ss.nnnnn xxxxx\"))".to_string(),
                    Some(nm),
                    trap(|| {
                        let s = t.format("HH:mm:ss.nnnnn xxxxx");
                        Time::parse(&s, "HH:mm:ss.nnnnn xxxxx").ok()
                    }),
                )
            }
        };
        history.push(desc.clone());
        // this property's own operations are op 0,1 (add_/sub_), 7 (± Time) and 8 (± Duration); offset
        // changes (C10), setters/clears (C09/C15) and the text round trip (C12) only move the state: the
        // model is re-synchronised from what the library reports and only "still a time of day" is judged
        let own = matches!(op, 0 | 1 | 7 | 8);
        let opname: String = desc.split('(').next().unwrap_or("").trim().to_string();
        let sigop = if opname.starts_with('+') || opname.starts_with('-') { "operator".to_string() } else { opname };
        match (result, next_model) {
            (Err(_), _) if !own => {
                rec.bin("walk/mover-panicked(other-property)");
                return;
            }
            (Err(p), _) => {
                rec.violation(format!("C08|walk|{}|panic|{},{}", sigop, p.class, p.site()), || json!({"history": history, "model_before": format!("{:?}", model), "panic": p.to_json()}));
                return;
            }
            (Ok(None), None) => {
                rec.bin("walk/refused-invalid-set");
            }
            (Ok(None), Some(_)) if !own => {
                rec.bin("walk/mover-refused(other-property)");
            }
            (Ok(None), Some(nm)) => {
                rec.violation(format!("C08|walk|{}|refused-valid", sigop), || json!({"history": history, "model_before": format!("{:?}", model), "model_after": format!("{:?}", nm)}));
                return;
            }
            (Ok(Some(nt)), None) if !own => {
                // a setter accepted what the model refuses (C15's claim): continue from what it returned
                let n = trap(|| nt.as_nanos()).unwrap_or(u64::MAX);
                if n >= DN {
                    rec.violation(format!("C08|walk|{}|as_nanos>=24h", sigop), || json!({"history": history, "as_nanos": n}));
                    return;
                }
                match time_offset_secs(&nt) {
                    Some(o) => model = TModel { n, off: o },
                    None => return,
                }
                t = nt;
            }
            (Ok(Some(nt)), None) => {
                rec.violation(format!("C08|walk|{}|accepted-invalid", sigop), || json!({"history": history, "model_before": format!("{:?}", model), "observed_as_nanos": nt.as_nanos()}));
                return;
            }
            (Ok(Some(nt)), Some(nm)) => {
                let n = nt.as_nanos();
                let o = time_offset_secs(&nt);
                if n >= DN {
                    rec.violation(format!("C08|walk|{}|as_nanos>=24h", sigop), || json!({"history": history, "as_nanos": n, "model_after": format!("{:?}", nm)}));
                    return;
                }
                if !own {
                    match o {
                        Some(off) => model = TModel { n, off },
                        None => return,
                    }
                    t = nt;
                    rec.bin("walk/step-ok");
                    continue;
                }
                if n != nm.n || o != Some(nm.off) {
                    rec.violation(format!("C08|walk|{}|diverges-from-model", sigop), || json!({"history": history, "observed": {"as_nanos": n, "offset": format!("{:?}", o)}, "model_after": format!("{:?}", nm), "model_before": format!("{:?}", model)}));
                    return;
                }
                t = nt;
                model = nm;
                rec.bin("walk/step-ok");
            }
        }
    }
    rec.nontrivial(hash_str(&history.join(";")));
    if rec.want_sample() {
        rec.sample(|| json!({"history": history, "final_model": format!("{:?}", model)}));
    }
}

/// Offsets for `Time` values. A `Time` accepts any `Offset::Fixed(i32)` (the variant is public and `Time::set_offset`
/// has no range to guard), and "every Time obtainable through the public API" includes those: one case in eight
/// carries an offset of a day or more, up to the i32 extremes.
fn gen_toffset(rng: &mut Rng) -> i32 {
    if rng.chance(1, 8) {
        match rng.below(3) {
            0 => *rng.pick(&[86_400i32, -86_400, 86_401, -86_401, 172_800, -172_800, 200_000, -200_000, i32::MAX, i32::MIN, i32::MIN + 1, i32::MAX - 1]),
            1 => rng.next() as i32,
            _ => rng.range_i64(-1_000_000, 1_000_000) as i32,
        }
    } else {
        gen_offset(rng)
    }
}

pub fn run(ctx: &Ctx) -> PropResult {
    let bt = boundary_times();
    let mut wls = vec![];
    let sec_stride: u64 = if ctx.quick() { 7 } else { 1 };
    let nsecs = (86_400 + sec_stride - 1) / sec_stride;
    wls.push(Workload::cases("time_methods_all_seconds", nsecs * 3, move |rec, idx, rng| {
        let sec = (idx / 3) * sec_stride;
        let sub = [0u64, 1, 999_999_999][(idx % 3) as usize];
        let n = sec * 1_000_000_000 + sub;
        for _ in 0..4 {
            let m = rng.below(12) as usize;
            let (_, unit, dir) = TMETHODS[m];
            let (c, stratum) = gen_count(rng, 0, unit, dir);
            judge_method(rec, n, gen_toffset(rng), m, c, stratum);
        }
    }));
    wls.push(Workload::cases("time_methods_random", ctx.count(200_000, 6_000_000), |rec, idx, rng| {
        let n = gen_time_nanos(rng);
        let m = (idx % 12) as usize;
        let (_, unit, dir) = TMETHODS[m];
        let (c, stratum) = gen_count(rng, 0, unit, dir);
        judge_method(rec, n, gen_toffset(rng), m, c, stratum);
    }));
    let nb = bt.len() as u64;
    let btr = &bt;
    wls.push(Workload::cases("time_binops_all_boundary_pairs", nb * nb, move |rec, idx, rng| {
        let (a, b) = (btr[(idx / nb) as usize], btr[(idx % nb) as usize]);
        let (o1, o2) = (gen_toffset(rng), gen_toffset(rng));
        judge_time_time(rec, a, b, o1, o2, false, idx % 5 == 0);
        judge_time_time(rec, a, b, o1, o2, true, idx % 5 == 1);
    }));
    wls.push(Workload::cases("time_binops_random", ctx.count(60_000, 2_000_000), |rec, idx, rng| {
        judge_time_time(rec, gen_time_nanos(rng), gen_time_nanos(rng), gen_toffset(rng), gen_toffset(rng), idx % 2 == 1, idx % 8 >= 6);
    }));
    wls.push(Workload::cases("time_duration_ops", ctx.count(100_000, 3_000_000), |rec, idx, rng| {
        let n = gen_time_nanos(rng);
        let (d, stratum): (Duration, &'static str) = match rng.below(9) {
            7 | 8 => (crate::model::magic::gen_duration(rng), "dur/magic-magnitude(2^k·unit±jitter)"),
            0 => (Duration::new(0, 0), "dur/zero"),
            1 => (Duration::new(rng.below(86_400), rng.below(1_000_000_000) as u32), "dur/<24h"),
            2 => (Duration::new(86_400, 0), "dur/=24h"),
            3 => (Duration::new(86_400 * rng.range_i64(1, 1000) as u64 + rng.below(86_400), rng.below(1_000_000_000) as u32), "dur/k·24h+eps"),
            4 => (Duration::new((1u64 << 34) + rng.next() % (1u64 << 62), rng.below(1_000_000_000) as u32), "dur/>2^64-ns"),
            5 => {
                // exactly to / just across midnight
                let to_midnight = DN - n;
                let x = (to_midnight as i128 + *rng.pick(&[-1i128, 0, 1])).max(0) as u64;
                (Duration::new(x / 1_000_000_000, (x % 1_000_000_000) as u32), "dur/to-midnight±1ns")
            }
            _ => {
                let x = (n as i128 + *rng.pick(&[-1i128, 0, 1])).max(0) as u64;
                (Duration::new(x / 1_000_000_000, (x % 1_000_000_000) as u32), "dur/back-to-midnight±1ns")
            }
        };
        judge_time_duration(rec, n, gen_toffset(rng), d, idx % 2 == 1, idx % 8 >= 6, stratum);
    }));
    wls.push(Workload::cases("constructors_grid", 1, |rec, _, _| {
        let hs = [0u32, 1, 12, 22, 23, 24, 25, 59, 60, 255, 256, 1 << 16, 1_193_046, (1 << 31) - 1, 1 << 31, u32::MAX - 1, u32::MAX];
        let ms = [0u32, 1, 58, 59, 60, 61, 255, 256, 71_582_788, 71_582_789, 1 << 31, u32::MAX];
        for &h in hs.iter() {
            for &m in ms.iter() {
                for &s in ms.iter() {
                    judge_ctor(rec, 0, h as u64, m, s);
                }
            }
        }
        for s in [0u64, 1, 86_398, 86_399, 86_400, 86_401, 172_799, 172_800, (1 << 31) - 1, 1 << 31, u32::MAX as u64 - 1, u32::MAX as u64] {
            judge_ctor(rec, 1, s, 0, 0);
        }
        for n in [0u64, 1, DN - 2, DN - 1, DN, DN + 1, 2 * DN - 1, 2 * DN, u32::MAX as u64, 1 << 32, (1 << 63) - 1, 1 << 63, u64::MAX - 1, u64::MAX] {
            judge_ctor(rec, 2, n, 0, 0);
        }
        // whole-second / millisecond counts that wrap a 32-bit intermediate back into the day
        for unit in [1_000_000_000u128, 1_000_000, 60_000_000_000] {
            for k in 1..=4u128 {
                for r in [0u128, 1, 43_200_000_000_000, DN as u128 - 1] {
                    let x = k * (1u128 << 32) * unit + r;
                    if x <= u64::MAX as u128 {
                        judge_ctor(rec, 2, x as u64, 0, 0);
                    }
                }
            }
        }
    }));
    wls.push(Workload::cases("constructors_random", ctx.count(60_000, 1_000_000), |rec, idx, rng| match idx % 3 {
        0 => {
            let f = |rng: &mut Rng, max: u64| -> u32 {
                match rng.below(4) {
                    0 => rng.next() as u32,
                    1 => (max + rng.below(3)) as u32,
                    _ => rng.below(max + 1) as u32,
                }
            };
            let (h, m, s) = (f(rng, 23), f(rng, 59), f(rng, 59));
            judge_ctor(rec, 0, h as u64, m, s);
        }
        1 => {
            let s = match rng.below(3) {
                0 => rng.next() as u32 as u64,
                _ => rng.below(86_400 * 2),
            };
            judge_ctor(rec, 1, s, 0, 0);
        }
        _ => {
            let n = match rng.below(3) {
                0 => rng.next(),
                1 => DN - 5 + rng.below(10),
                _ => rng.below(2 * DN),
            };
            judge_ctor(rec, 2, n, 0, 0);
        }
    }));
    wls.push(Workload::cases("time_from_datetime", ctx.count(80_000, 3_000_000), |rec, idx, rng| {
        let (i, _) = gen_instant(rng, 2);
        judge_from_datetime(rec, i, gen_offset(rng), idx % 2 == 1);
    }));
    wls.push(Workload::cases("api_walks", ctx.count(40_000, 1_500_000), |rec, _, rng| walk(rec, rng)));
    // Times reached through parse with several fraction / clock fields in one pattern, late in the day: every field is
    // in range, their sum need not be — an Ok result must still be a time of day
    wls.push(Workload::cases("parse_field_pile_ups_late_in_the_day", ctx.count(6_000, 200_000), |rec, _, rng| {
        rec.eval();
        rec.api("Time::parse");
        let fr: [(&str, &str); 6] = [("n", "9"), ("nn", "99"), ("nnn", "999"), ("nnnn", "999999"), ("nnnnn", "999999999"), ("nnn", "500")];
        let clock = *rng.pick(&[("HH:mm:ss", "23:59:59"), ("HH:mm:ss", "23:59:58"), ("kk:mm:ss", "23:59:59"), ("hh:mm:ss a", "11:59:59 PM"), ("HH:mm", "23:59"), ("ss", "59"), ("HH", "23")]);
        let mut pattern = clock.0.to_string();
        let mut input = clock.1.to_string();
        for _ in 0..1 + rng.below(5) {
            let (p, i) = *rng.pick(&fr);
            pattern.push(' ');
            input.push(' ');
            pattern.push_str(p);
            input.push_str(i);
        }
        rec.bin("parse/pile-up-late-in-the-day");
        rec.nontrivial(hash_str(&input) ^ hash_str(&pattern).rotate_left(7));
        match trap(|| Time::parse(&input, &pattern).map(|t| (t.as_nanos(), t.as_hms()))) {
            Err(p) => rec.violation(format!("C08|parse|Time::parse|panic|{},{}", p.class, p.site()), || json!({"input": input, "pattern": pattern, "panic": p.to_json()})),
            Ok(Ok((n, hms))) if n >= DN || hms.0 > 23 => rec.violation("C08|parse|Time::parse|value-outside-the-day".to_string(), || json!({"input": input, "pattern": pattern, "as_nanos": n, "as_hms": format!("{:?}", hms)})),
            _ => {}
        }
    }));
    // Times carrying an Offset::Fixed of a day or more (any i32): setters, clears, as_offset and the getters still
    // have to produce / show a time of day
    wls.push(Workload::cases("any_offset_setters_clears_getters", ctx.count(20_000, 600_000), |rec, _, rng| {
        rec.eval();
        rec.api("Time set_*/clear_*/getters under any Offset::Fixed");
        let n = gen_time_nanos(rng);
        let off = match rng.below(3) {
            0 => *rng.pick(&[86_400i32, -86_400, 86_401, -86_401, 172_800, -172_800, 200_000, -200_000, i32::MAX, i32::MIN, i32::MIN + 1]),
            1 => rng.next() as i32,
            _ => rng.range_i64(-1_000_000, 1_000_000) as i32,
        };
        rec.bin("time/any-offset-set-clear-get");
        rec.nontrivial(hash_i128s(&[n as i128, off as i128, 0x0808]));
        let f = rng.below(6) as usize;
        let v: u32 = match f { 0 => rng.below(24) as u32, 1 | 2 => rng.below(60) as u32, 3 => rng.below(1_000) as u32, 4 => rng.below(1_000_000) as u32, _ => rng.below(1_000_000_000) as u32 };
        let u = rng.below(6) as usize;
        let o2 = rng.next() as i32;
        let r = trap(|| {
            let t = Time::from_nanos(n).unwrap().set_offset(Offset::Fixed(off));
            let mut seen: Vec<(String, u64, (u32, u32, u32, u32))> = vec![];
            let mut note = |what: String, x: &Time| seen.push((what, x.as_nanos(), (x.hour(), x.minute(), x.second(), x.nano())));
            note("the value itself".into(), &t);
            if let Ok(x) = apply_time_setter(&t, f, v) {
                note(format!("{}({})", SETTERS[f], v), &x);
            }
            note(CLEARS[u].to_string(), &apply_time_clear(&t, u));
            note(format!("as_offset({})", o2), &Time::from_nanos(n).unwrap().as_offset(Offset::Fixed(o2)));
            seen
        });
        let wit = |obs: Value| json!({"time_as_nanos": n, "offset": off, "observed": obs});
        match r {
            Err(p) => rec.violation(format!("C08|any-offset|set/clear/getters|panic|{},{}", p.class, p.site()), || wit(p.to_json())),
            Ok(seen) => {
                for (what, an, g) in seen {
                    if an >= DN || g.0 > 23 || g.1 > 59 || g.2 > 59 || g.3 > 999_999_999 {
                        rec.violation("C08|any-offset|set/clear/getters|not-a-time-of-day".to_string(), || wit(json!({"after": what, "as_nanos": an, "(hour,minute,second,nano)": format!("{:?}", g)})));
                        break;
                    }
                }
            }
        }
    }));
    wls.push(Workload::cases("offset_local_twins_time", ctx.count(4_000, 30_000), |rec, _, rng| super::localzone::twin_time_case(rec, rng, "C08", false)));
    let out = run_workloads(ctx, wls);
    let mut meta = PropMeta::default();
    meta.rule = format!(
        "times: every {} second of the day x sub-second {{0, 1, 999999999}} x 4 random (method, count) + random ns; counts as C04 (0..100, u32::MAX−2.., 2^31±1, the 2^63/2^64-ns wrap thresholds, <2^20, uniform); Time±Time over ALL ordered pairs of a {}-value boundary set + random; Time±Duration {{0, <24h, =24h, k·24h+ε, >2^64 ns, to/back-to midnight ±1 ns}}; constructor grids + random; Time::from(DateTime/&DateTime) over all eras; random API walks of 3–10 steps (add/sub, operators, set_*, clear_until_*, set_offset, as_offset, parse∘format) checked step by step against a (nanoseconds mod 24h, offset) model. Every produced Time must have as_nanos() < 24h, equal (t ± amount) mod 24h, compare equal to the canonical Time of the same time of day, and keep the offset. Non-trivial = wraps across midnight (methods); every operator/constructor/conversion/walk case. Distinct by input hash. Counts in the one-day-wide band below 2^31/2^32/2^63/2^64 ns ÷ unit and Durations at 2^k·unit ± jitter (built with Duration::new, so totals around 2^64 ns are reachable) are part of the generators. Times carrying an Offset::Fixed of a day or more (any i32) in one case of eight, and a dedicated workload where setters, clears, as_offset and the getters under such offsets must still produce / show a time of day; Time::parse with several fraction fields late in the day (an Ok result is a time of day); Offset::Local twins for Time arithmetic.",
        if ctx.quick() { "7th" } else { "single" },
        nb
    );
    meta.exhaustive = false;
    meta.required_bins = vec![
        "parse/pile-up-late-in-the-day", "time/any-offset-set-clear-get",
        "local-twin/time-judged",
        "method/no-wrap", "method/wraps-once", "method/wraps-many", "count/64-bit-wrap-threshold", "count/u32::MAX-0..2",
        "binop/below-midnight", "binop/past-midnight", "binop/inside-day",
        "durop/below-midnight", "durop/past-midnight", "dur/>2^64-ns", "dur/=24h", "dur/to-midnight±1ns",
        "ctor/inside-day", "ctor/outside-day", "from-datetime/before-0001", "from-datetime/AD", "walk/step-ok", "walk/refused-invalid-set",
    ];
    meta.assumptions = vec!["Time's instant is its stored UTC nanoseconds (as_nanos); an offset only changes the reading (C10)".into()];
    let _ = DateTime::default();
    Ok((meta, out))
}
