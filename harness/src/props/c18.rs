//! C18 — the timezone reader returns the UTC offset the TZif data defines per instant.

use super::PropResult;
use crate::core::*;
use crate::model::calendar as cal;
use crate::model::tzif_gen::gen_synth;
use crate::model::tzif_ref::{self, PosixTz, RefTz, RuleDay};
use astrolabe::verif::VerifTz;
use astrolabe::{DateTime, DateUtilities, Offset};
use serde_json::{json, Value};
use std::io::Write;
use std::path::PathBuf;
use std::sync::Mutex;

pub fn verif_root() -> PathBuf {
    PathBuf::from(std::env::var("VERIF_ROOT").unwrap_or_else(|_| "/verif".to_string()))
}

pub fn corpus_files() -> Vec<(String, PathBuf)> {
    let mut v = vec![];
    for sub in ["fat", "slim"] {
        if let Ok(rd) = std::fs::read_dir(verif_root().join("corpus/tzif").join(sub)) {
            for e in rd.flatten() {
                v.push((format!("{}/{}", sub, e.file_name().to_string_lossy()), e.path()));
            }
        }
    }
    // the machine's own zoneinfo, when present (never required)
    fn walk(dir: &std::path::Path, rel: String, out: &mut Vec<(String, PathBuf)>, depth: u32) {
        if depth > 3 {
            return;
        }
        if let Ok(rd) = std::fs::read_dir(dir) {
            for e in rd.flatten() {
                let name = e.file_name().to_string_lossy().to_string();
                if name == "right" || name == "posix" || name.ends_with(".tab") || name.ends_with(".zi") || name.ends_with(".list") {
                    continue;
                }
                let p = e.path();
                if p.is_dir() {
                    walk(&p, format!("{}{}/", rel, name), out, depth + 1);
                } else {
                    out.push((format!("system/{}{}", rel, name), p));
                }
            }
        }
    }
    let mut sys = vec![];
    walk(std::path::Path::new("/usr/share/zoneinfo"), String::new(), &mut sys, 0);
    v.extend(sys);
    v.sort();
    v
}

fn year_start(y: i64) -> i64 {
    (cal::days_from_civil(y, 1, 1) - cal::DAYS_TO_1970) * 86_400
}

/// The timestamps probed for one file.
pub fn probe_timestamps(rng: &mut Rng, r: &RefTz, n_random: u64) -> Vec<i64> {
    let mut ts = vec![];
    for t in r.transitions.iter() {
        for d in [-1i64, 0, 1] {
            ts.push(t + d);
        }
    }
    if let Some(f) = &r.footer {
        let mut years: Vec<i64> = vec![1900, 1970, 1996, 2000, 2023, 2024, 2025, 2037, 2038, 2100, 2400, 2499];
        for _ in 0..4 {
            years.push(rng.range_i64(1900, 2499));
        }
        for y in years {
            if let Some((a, b)) = f.switches(y) {
                for s in [a, b] {
                    for d in [-1i64, 0, 1] {
                        ts.push(s + d);
                    }
                }
            }
            ts.push(year_start(y));
            ts.push(year_start(y) - 1);
            // Feb 28 – Mar 1 (J59/J60, n=58/59/60 territory)
            let feb28 = (cal::days_from_civil(y, 2, 28) - cal::DAYS_TO_1970) * 86_400;
            ts.push(feb28 + rng.below(3 * 86_400) as i64);
        }
    }
    // 32-bit time_t limits (1901, 2038, 2106) and their neighbours: where a 4-byte transition time or an `as i32`
    // of the timestamp wraps
    for m in [1i64 << 31, -(1i64 << 31), 1i64 << 32, (1i64 << 31) + (1i64 << 30)] {
        for d in [-1i64, 0, 1, 86_400, -86_400] {
            ts.push(m + d);
        }
    }
    let lo = year_start(1900);
    let hi = year_start(2500);
    for _ in 0..n_random {
        ts.push(match rng.below(3) {
            0 => rng.range_i64(year_start(1970), year_start(2040)),
            _ => rng.range_i64(lo, hi),
        });
    }
    ts
}

fn footer_kind(r: &RefTz) -> &'static str {
    match &r.footer {
        None => "footer/none",
        Some(PosixTz::Fixed(_)) => "footer/fixed",
        Some(PosixTz::Rule { start, std, dst, .. }) => {
            if dst < std {
                "footer/negative-dst"
            } else {
                match start.0 {
                    RuleDay::J(_) => "footer/J-rules",
                    RuleDay::N(_) => "footer/n-rules",
                    RuleDay::M(..) => "footer/M-rules",
                }
            }
        }
    }
}

pub struct Dump {
    file: Mutex<Option<std::fs::File>>,
}

impl Dump {
    pub fn new() -> Self {
        let f = std::env::var("VERIF_TZDUMP").ok().and_then(|d| {
            std::fs::create_dir_all(&d).ok()?;
            std::fs::File::create(PathBuf::from(d).join("tzref_dump.tsv")).ok()
        });
        Dump { file: Mutex::new(f) }
    }
    fn write(&self, path: &str, rows: &[(i64, i32)]) {
        if let Some(f) = self.file.lock().unwrap().as_mut() {
            let mut s = String::new();
            for (t, o) in rows {
                s.push_str(&format!("{}\t{}\t{}\n", path, t, o));
            }
            let _ = f.write_all(s.as_bytes());
        }
    }
}

/// The statement's side conditions (same tests as in judge_file, without the bins).
fn in_scope(r: &RefTz) -> bool {
    r.version <= 3
        && r.leap_count == 0
        && !(r.version >= 2 && r.footer.is_none())
        && !(r.transitions.is_empty() && r.footer.is_none() && r.types.len() > 1)
        && r.footer_consistent()
        && r.footer.as_ref().map(|f| f.iana_shaped()).unwrap_or(true)
}

/// Lookups in several zones interleaved on one thread: the answer for (zone, timestamp) must not depend on which
/// zone or timestamp was asked before (a lookup hint / cursor kept outside the TimeZone value would).
fn judge_interleaved(rec: &mut Rec, rng: &mut Rng, zones: Vec<(String, Vec<u8>)>) {
    let mut parsed: Vec<(String, RefTz, VerifTz)> = vec![];
    for (name, bytes) in zones {
        let Ok(r) = tzif_ref::parse(&bytes) else { continue };
        if !in_scope(&r) {
            continue;
        }
        if let Ok(Ok(tz)) = trap(|| VerifTz::parse(&bytes)) {
            parsed.push((name, r, tz));
        }
    }
    if parsed.len() < 2 {
        rec.bin("interleaved/fewer-than-two-zones-in-scope");
        return;
    }
    let mut plan: Vec<(usize, i64)> = vec![];
    for (zi, (_, r, _)) in parsed.iter().enumerate() {
        let mut ts = probe_timestamps(rng, r, 20);
        // emphasise "after the last transition" and interior intervals
        if let Some(last) = r.transitions.last() {
            for _ in 0..20 {
                ts.push(last + rng.range_i64(0, 40 * 366 * 86_400));
            }
        }
        for i in (1..ts.len()).rev() {
            ts.swap(i, rng.below(i as u64 + 1) as usize);
        }
        ts.truncate(120);
        plan.extend(ts.into_iter().map(|t| (zi, t)));
    }
    for i in (1..plan.len()).rev() {
        plan.swap(i, rng.below(i as u64 + 1) as usize);
    }
    rec.bin("interleaved/judged");
    rec.nontrivial(hash_str(&parsed.iter().map(|p| p.0.clone()).collect::<Vec<_>>().join("+")) ^ plan.len() as u64);
    let mut prev: Option<(usize, i64)> = None;
    for (zi, t) in plan {
        let (name, r, tz) = &parsed[zi];
        let Some((want, cls)) = r.offset_at(t) else { continue };
        rec.eval();
        match trap(|| tz.offset(t)) {
            Err(p) => {
                rec.violation(format!("C18|interleaved|panic|{},{}", p.class, p.site()), || json!({"file": name, "timestamp": t, "panic": p.to_json()}));
                return;
            }
            Ok(got) if got != want => {
                rec.violation(format!("C18|interleaved|wrong-offset|{}|{}", cls, footer_kind(r)), || {
                    json!({"file": name, "transitions": r.transitions.len(), "footer": r.footer_text, "timestamp": t, "rfc8536_offset": want, "observed_offset": got,
                           "previous_lookup_on_this_thread": prev.map(|(pz, pt)| json!({"file": parsed[pz].0, "transitions": parsed[pz].1.transitions.len(), "timestamp": pt}))})
                });
                return;
            }
            _ => {}
        }
        prev = Some((zi, t));
    }
}

/// Judges one file (bytes) against the reference; returns false when the file is outside the property.
fn judge_file(rec: &mut Rec, rng: &mut Rng, name: &str, path_for_dump: Option<&str>, bytes: &[u8], origin: &'static str, n_random: u64, dump: &Dump, end_to_end: Option<&std::path::Path>) -> bool {
    let r = match tzif_ref::parse(bytes) {
        Ok(r) => r,
        Err(_) => {
            rec.bin("file/skipped-not-well-formed-for-the-reference");
            return false;
        }
    };
    if r.version > 3 {
        rec.bin("file/skipped-version-4");
        return false;
    }
    if r.leap_count > 0 {
        rec.bin("file/skipped-leap-second-records");
        return false;
    }
    if r.version >= 2 && r.footer.is_none() {
        rec.bin("file/skipped-empty-footer");
        return false;
    }
    if r.transitions.is_empty() && r.footer.is_none() && r.types.len() > 1 {
        // no table, no footer, several types: which type applies is not stated by the property
        rec.bin("file/skipped-no-table-no-footer-several-types");
        return false;
    }
    if !r.footer_consistent() || !r.footer.as_ref().map(|f| f.iana_shaped()).unwrap_or(true) {
        rec.bin("file/skipped-side-conditions");
        return false;
    }
    rec.bin(match r.version {
        1 => "file/v1",
        2 => "file/v2",
        _ => "file/v3",
    });
    rec.bin(footer_kind(&r));
    if let Some(PosixTz::Rule { start, end, .. }) = &r.footer {
        // southern hemisphere: DST starts later in the year than it ends
        if tzif_ref::rule_day(&start.0, 2023) > tzif_ref::rule_day(&end.0, 2023) {
            rec.bin("footer/southern-hemisphere");
        }
    }
    rec.bin(if r.transitions.is_empty() { "table/empty" } else { "table/non-empty" });
    let wit = |obs: Value| json!({"file": name, "origin": origin, "version": r.version, "transitions": r.transitions.len(), "types": r.types.len(), "footer": r.footer_text, "observed": obs});
    let tz = match trap(|| VerifTz::parse(bytes)) {
        Err(p) => {
            rec.eval();
            rec.violation(format!("C18|parse|panic|{},{}", p.class, p.site()), || wit(p.to_json()));
            return true;
        }
        Ok(Err(e)) => {
            rec.eval();
            rec.violation(format!("C18|parse|well-formed-file-rejected|{}", footer_kind(&r)), || wit(json!({"error": e})));
            return true;
        }
        Ok(Ok(tz)) => tz,
    };
    let ts = probe_timestamps(rng, &r, n_random);
    let mut rows: Vec<(i64, i32)> = vec![];
    let mut first_bad: Option<(i64, i32, i32, &'static str)> = None;
    let mut bad = 0u64;
    let mut judged = 0u64;
    for t in ts.iter() {
        let (want, cls) = match r.offset_at(*t) {
            Some(x) => x,
            None => {
                rec.bin("lookup/before-first-transition(not-claimed)");
                continue;
            }
        };
        judged += 1;
        rec.eval();
        rec.bin(match cls {
            "at-a-transition" => "lookup/at-a-transition",
            "between-transitions" => "lookup/between-transitions",
            "at-last-transition/footer" => "lookup/at-last-transition",
            "after-last/footer-dst" => "lookup/after-last-rule-dst",
            "after-last/footer-std" => "lookup/after-last-rule-std",
            "no-transitions/footer" => "lookup/no-table-footer",
            _ => "lookup/no-table-type0",
        });
        rows.push((*t, want));
        match trap(|| tz.offset(*t)) {
            Err(p) => {
                rec.violation(format!("C18|lookup|panic|{},{}", p.class, p.site()), || wit(json!({"timestamp": t, "panic": p.to_json()})));
                return true;
            }
            Ok(got) => {
                if got != want {
                    bad += 1;
                    if first_bad.is_none() {
                        first_bad = Some((*t, want, got, cls));
                    }
                    rec.violation(format!("C18|lookup|wrong-offset|{}|{}", cls, footer_kind(&r)), || wit(json!({"timestamp": t, "utc": crate::model::instant::show((*t as i128 + cal::DAYS_TO_1970 as i128 * 86_400) * crate::model::instant::NS), "rfc8536_offset": want, "observed_offset": got})));
                }
            }
        }
    }
    rec.api_n("VerifTz::offset", judged);
    rec.nontrivial(hash_bytes(bytes));
    if let Some(p) = path_for_dump {
        dump.write(p, &rows);
    }
    // end to end: what Offset::Local applies "now"
    if let Some(path) = end_to_end {
        for t in ts.iter().take(24) {
            if let Some((want, _)) = r.offset_at(*t) {
                if !(year_start(1)..year_start(9999)).contains(t) {
                    continue;
                }
                rec.eval();
                rec.api("Offset::Local.resolve");
                rec.bin("end-to-end/Offset::Local");
                let res = trap(|| {
                    astrolabe::verif::set_localtime_path(Some(path.to_path_buf()));
                    astrolabe::verif::pin_now(Some(DateTime::from_timestamp(*t)));
                    let o = Offset::Local.resolve();
                    astrolabe::verif::pin_now(None);
                    astrolabe::verif::set_localtime_path(None);
                    o
                });
                match res {
                    Err(p) => rec.violation(format!("C18|Offset::Local|panic|{},{}", p.class, p.site()), || wit(json!({"timestamp": t, "panic": p.to_json()}))),
                    Ok(got) if got != want => rec.violation("C18|Offset::Local|differs-from-the-file's-offset".to_string(), || wit(json!({"timestamp": t, "rfc8536_offset": want, "observed_offset": got}))),
                    _ => {}
                }
            }
        }
    }
    if rec.want_sample() {
        rec.sample(|| wit(json!({"lookups": judged, "disagreements": bad, "first": first_bad.map(|(t, w, g, c)| json!({"timestamp": t, "expected": w, "observed": g, "class": c}))})));
    }
    true
}

pub fn run(ctx: &Ctx) -> PropResult {
    let files = corpus_files();
    if files.iter().filter(|(n, _)| !n.starts_with("system/")).count() < 100 {
        return Err("vendored TZif corpus not found under corpus/tzif".into());
    }
    let dump = Dump::new();
    let dref = &dump;
    let fr = &files;
    let quick = ctx.quick();
    let seed = ctx.seed;
    let syn_dir = verif_root().join("harness/target/out/tzsyn");
    let _ = std::fs::create_dir_all(&syn_dir);
    let sd = &syn_dir;
    let mut wls = vec![];
    wls.push(Workload::cases("corpus_files", files.len() as u64, move |rec, idx, rng| {
        // quick: a seed-dependent third of the corpus (≥ 250 files); thorough: everything
        if quick && (mix64(idx ^ seed) % 3 != 0) {
            return;
        }
        let (name, path) = &fr[idx as usize];
        let bytes = match std::fs::read(path) {
            Ok(b) => b,
            Err(_) => return,
        };
        if !bytes.starts_with(b"TZif") {
            return;
        }
        let e2e = if idx % 10 == 0 { Some(path.as_path()) } else { None };
        judge_file(rec, rng, name, Some(&path.to_string_lossy()), &bytes, "corpus", if quick { 100 } else { 400 }, dref, e2e);
    }));
    wls.push(Workload::cases("synthetic_files", ctx.count(400, 20_000), move |rec, idx, rng| {
        let s = gen_synth(rng);
        let bytes = s.bytes();
        let name = format!("synthetic#{}", idx);
        // a sample is written to disk for the CPython cross-check and the end-to-end route
        let on_disk = idx % 4 == 0 && idx < 2_000;
        let path = sd.join(format!("syn_{}.tzif", idx));
        let (pd, e2e) = if on_disk && std::fs::write(&path, &bytes).is_ok() { (Some(path.to_string_lossy().to_string()), Some(path.as_path())) } else { (None, None) };
        judge_file(rec, rng, &name, pd.as_deref(), &bytes, "synthetic", 60, dref, e2e);
    }));
    // a well-formed file larger than 64 KiB / 128 KiB (9 000 and 17 000 transitions): through the byte entry point and,
    // installed as /etc/localtime, through Offset::Local (a size cap or a short read on that path shows only there)
    wls.push(Workload::cases("large_files_end_to_end", 2, move |rec, idx, rng| {
        let n: i64 = if idx == 0 { 9_000 } else { 17_000 };
        let transitions: Vec<i64> = (0..n).map(|k| -2_000_000_000 + k * (3_900_000_000 / n)).collect();
        let type_idx: Vec<u8> = (0..n).map(|k| if k == n - 1 { 0 } else { (k % 2) as u8 }).collect();
        let s = crate::model::tzif_gen::Synth { version: 2, transitions, type_idx, types: vec![(3_600, false), (7_200, true)], footer: "XXX-1".to_string(), desigs: None };
        let bytes = s.bytes();
        rec.bin(if bytes.len() > 131_072 { "file/larger-than-128KiB" } else { "file/larger-than-64KiB" });
        let path = sd.join(format!("large_{}_{}.tzif", std::process::id(), idx));
        let e2e = if std::fs::write(&path, &bytes).is_ok() { Some(path.as_path()) } else { None };
        judge_file(rec, rng, &format!("synthetic-large#{} ({} bytes)", idx, bytes.len()), None, &bytes, "synthetic", 40, dref, e2e);
        let _ = std::fs::remove_file(&path);
    }));
    // Offset::Local must follow the zone file when it changes behind the same name (rewritten, same size and mtime,
    // symlink target replaced, symlink re-pointed, removed and recreated)
    wls.push(Workload::cases("zone_replaced_behind_the_same_name", ctx.count(600, 20_000), |rec, _, rng| super::localzone::same_name_case(rec, rng, "C18")));
    wls.push(Workload::cases("interleaved_lookups_across_zones", ctx.count(250, 10_000), move |rec, _idx, rng| {
        let mut zones: Vec<(String, Vec<u8>)> = vec![];
        // one table as a v1 file (no footer) and as a v2/v3 file (with footer) ...
        let mut s = gen_synth(rng);
        for _ in 0..6 {
            if s.transitions.len() >= 8 && s.version >= 2 {
                break;
            }
            s = gen_synth(rng);
        }
        zones.push((format!("synthetic v{} ({} transitions)", s.version, s.transitions.len()), s.bytes()));
        let v1 = crate::model::tzif_gen::Synth { version: 1, transitions: s.transitions.clone(), type_idx: s.type_idx.clone(), types: s.types.clone(), footer: String::new(), desigs: s.desigs.clone() };
        zones.push((format!("the same table as a v1 file ({} transitions)", v1.transitions.len()), v1.bytes()));
        // ... and one or two unrelated zones
        for _ in 0..1 + rng.below(2) {
            if rng.chance(1, 2) {
                let o = gen_synth(rng);
                zones.push((format!("another synthetic v{} ({} transitions)", o.version, o.transitions.len()), o.bytes()));
            } else {
                let (n, p) = rng.pick(fr);
                if let Ok(b) = std::fs::read(p) {
                    if b.starts_with(b"TZif") && b.len() < 6_000 {
                        zones.push((n.clone(), b));
                    }
                }
            }
        }
        judge_interleaved(rec, rng, zones);
    }));
    let out = run_workloads(ctx, wls);
    let mut meta = PropMeta::default();
    meta.rule = format!(
        "files: the vendored IANA corpus ({} fat + slim files, de-duplicated; a seed-dependent third in quick) and the machine's /usr/share/zoneinfo when present (right/ and posix/ excluded), plus synthetic v1/v2/v3 files (0–60 transitions, 1–8 types, footers fixed / M / J / n rules, either hemisphere, negative DST, /time incl. the v3 extended range, footer consistent with the last transition, switch-overs > 8 days apart and from 1 January). timestamps per file: every transition −1/0/+1 s, the footer's switch instants ±1 s and year starts for 16 years in 1900–2499 incl. leap years and Feb 28–Mar 1, random in 1900–2500. Oracle: tzif_ref (RFC 8536 + POSIX TZ evaluator, cross-checked against CPython zoneinfo on this run's own lookups by tools/tz_crosscheck.py) — offset of the latest transition ≤ t, footer rule from the last transition on. A tenth of the corpus and a sample of synthetic files also go end-to-end through Offset::Local.resolve() with /etc/localtime and the clock redirected by the hooks. Interleaved: 2–4 zones (one synthetic table as a v1 file and as a v2/v3 file with footer, plus unrelated zones) parsed side by side, their lookups shuffled into one sequence on one thread — the answer for (zone, timestamp) may not depend on what was asked before. Not claimed: timestamps before the first transition, empty footers, leap-second files, version 4. Non-trivial = every judged file; distinct by hash of the bytes. (Interleaved workload described above.) 32-bit time_t limits (±2^31, 2^32) ±1 s/±1 day are probed in every file; v3 rule times incl. negative sub-hour ones (-0:30, -0:00:59); two well-formed files of 9 000 and 17 000 transitions (> 64 KiB, > 128 KiB) through the byte entry point and, installed as /etc/localtime, through Offset::Local.",
        files.iter().filter(|(n, _)| !n.starts_with("system/")).count()
    );
    meta.rule.push_str(" Synthetic files: designations as in the wild and some that look like the file's own syntax (TZif, TZif2, digits and signs), footer names of 3 to 16 characters incl. quoted names with digits and signs (<+103126>, <UTC+5>), tables passing through the instant whose 32-bit spelling is the magic (2014-11-05T18:16:06Z).");
    meta.required_bins = vec![
        "file/v1", "file/v2", "file/v3", "footer/fixed", "footer/M-rules", "footer/J-rules", "footer/n-rules", "footer/negative-dst", "footer/southern-hemisphere", "table/empty", "table/non-empty",
        "lookup/at-a-transition", "lookup/between-transitions", "lookup/at-last-transition", "lookup/after-last-rule-dst", "lookup/after-last-rule-std", "lookup/no-table-footer", "end-to-end/Offset::Local", "interleaved/judged", "file/larger-than-64KiB", "file/larger-than-128KiB",
        "same-name/regular-file-rewritten", "same-name/same-size-and-mtime", "same-name/symlink-target-replaced", "same-name/symlink-repointed", "same-name/removed-and-recreated", "same-name/followed-the-file",
    ];
    meta.rule.push_str(" Offset::Local (hooked path) before and after the zone changes behind the same name — rewritten in place, rewritten with the same size and the old mtime restored, symlink target replaced by rename, symlink re-pointed, removed and recreated — must apply the file as it is now (resolve, getters, format, setters against the Fixed twin).");
    meta.assumptions = vec!["tzif_ref is the reference; its agreement with CPython zoneinfo on the dumped lookups is checked by the driver (disagreement ⇒ inconclusive)".into()];
    Ok((meta, out))
}
