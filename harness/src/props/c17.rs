//! C17 — the cron iterator yields every matching minute after now, in order, only those.
//! Shape: recorded call history + executable model, checked event by event.

use super::c16::gen_expression;
use super::PropResult;
use crate::core::*;
use crate::model::calendar as cal;
use crate::model::cron_spec::{self, Sets, Spec};
use crate::model::instant::*;
use astrolabe::{CronSchedule, DateTime, OffsetUtilities, TimeUtilities};
use serde_json::{json, Value};

const HORIZON: i64 = 40 * 366;
const MIN_NS: i128 = 60 * NS;

fn carry_level(prev_min: i64, res: i64) -> &'static str {
    let (a, b) = (prev_min + 1, res);
    let (ya, ma, da) = cal::civil_from_days(a.div_euclid(1440));
    let (yb, mb, db) = cal::civil_from_days(b.div_euclid(1440));
    if ya != yb {
        "carry/year"
    } else if ma != mb {
        "carry/month"
    } else if da != db {
        "carry/day"
    } else if a.rem_euclid(1440) / 60 != b.rem_euclid(1440) / 60 {
        "carry/hour"
    } else {
        "carry/minute"
    }
}

fn gen_start_seconds(rng: &mut Rng) -> i64 {
    // seconds since 0001-01-01T00:00:00
    let a = match rng.below(8) {
        0 => *rng.pick(&[1i64, 2, 4, 100, 400, 1900, 2000, 2024, 2100, 9996, 9999]),
        // the 8-year gaps between leap days around century years that are not leap years (and the 4-year
        // ones around those that are): where a "next leap day" search has to look furthest
        1 => *rng.pick(&[1896i64, 2096, 2196, 2296, 1996, 2396, 96, 396, 9896]) + rng.range_i64(0, 8),
        2 => rng.range_i64(1, 9998),
        // before year 1 (astronomical years ≤ 0), dense at the era boundary: December of year −1 carries into year 1
        3 => *rng.pick(&[0i64, 0, 0, -1, -3, -4, -99, -100, -400, -9998]) - if rng.chance(1, 3) { rng.range_i64(0, 3000) } else { 0 },
        _ => rng.range_i64(1970, 2100),
    };
    let day = match rng.below(6) {
        0 => {
            let m = rng.below(12) as u32 + 1;
            cal::days_from_civil(a, m, cal::month_len(a, m))
        }
        1 => cal::days_from_civil(a, 2, 27) + rng.below(4) as i64,
        2 => cal::days_from_civil(a, 12, 31) + rng.below(2) as i64,
        3 => cal::days_from_civil(a, rng.below(12) as u32 + 1, 1),
        _ => cal::days_from_civil(a, 1, 1) + rng.below(365) as i64,
    }
    .clamp(cal::days_from_civil(-9999, 1, 1), cal::days_from_civil(9999, 6, 1));
    let tod = match rng.below(5) {
        0 => *rng.pick(&[0i64, 1, 59, 60, 61, 86_399, 86_340, 3_599, 3_600, 43_200]),
        1 => rng.below(1440) as i64 * 60 + *rng.pick(&[0i64, 1, 59]),
        _ => rng.below(86_400) as i64,
    };
    day * 86_400 + tod
}

struct Event {
    clock_s: i64,
    returned: Option<i128>,
    expected_min: i64,
}

fn run_history(rec: &mut Rec, rng: &mut Rng, expr: &str, sets: &Sets) {
    let start = gen_start_seconds(rng);
    if !sets.satisfiable_from(start.div_euclid(86_400), HORIZON) {
        rec.bin("history/unsatisfiable-skipped");
        return;
    }
    let calls = 4 + rng.below(37);
    let clone_at = if rng.chance(1, 4) { 0 } else { rng.below(calls) };
    let use_clone_from = rng.chance(1, 2);
    let mut clock = start;
    let mut last: Option<i64> = None; // last returned minute
    let mut events: Vec<Event> = vec![];
    let dom_r = sets.dom_restricted();
    let dow_r = sets.dow_restricted();
    rec.bin(match (dom_r, dow_r) {
        (true, true) => "days/dom-and-dow-restricted",
        (true, false) => "days/dom-restricted",
        (false, true) => "days/dow-restricted",
        _ => "days/unrestricted",
    });
    let parsed = trap(|| CronSchedule::parse(expr));
    let mut sched = match parsed {
        Ok(Ok(s)) => s,
        _ => {
            rec.bin("history/expression-not-accepted(C16)");
            return;
        }
    };
    let mut clone: Option<CronSchedule> = None;
    let wit = |events: &Vec<Event>, extra: Value| {
        json!({"expression": expr, "history": events.iter().map(|e| json!({"clock": show(e.clock_s as i128 * NS), "next()": e.returned.map(show), "model": show(e.expected_min as i128 * MIN_NS)})).collect::<Vec<_>>(), "problem": extra})
    };
    for call in 0..calls {
        // advance the clock
        let relation: &'static str = match (rng.below(8), last) {
            (0, _) => {
                "clock/unchanged"
            }
            (1, _) => {
                clock += rng.below(60) as i64;
                "clock/+<60s"
            }
            (2, Some(l)) if l * 60 >= clock => {
                clock = l * 60;
                "clock/exactly-at-last-result"
            }
            (3, Some(l)) if l * 60 - 60 >= clock => {
                clock = l * 60 - 60 + rng.below(60) as i64;
                "clock/last-result-minus-1min"
            }
            (4, Some(l)) if l * 60 + 60 >= clock => {
                clock = l * 60 + 60 + rng.below(60) as i64;
                "clock/last-result-plus-1min"
            }
            (5, _) => {
                clock += *rng.pick(&[3_600i64, 86_400, 7 * 86_400, 31 * 86_400, 366 * 86_400]) + rng.below(3_600) as i64;
                "clock/jump-hours-to-years"
            }
            (6, Some(l)) if l * 60 > clock => {
                clock += rng.range_i64(0, l * 60 - clock);
                "clock/behind-last-result"
            }
            _ => {
                clock += rng.below(600) as i64;
                "clock/+<10min"
            }
        };
        if clock.div_euclid(86_400) > cal::days_from_civil(9999, 6, 1) {
            break;
        }
        rec.bin(relation);
        let now_min = clock.div_euclid(60);
        let floor = match last {
            Some(l) if l >= now_min => l,
            _ => now_min,
        };
        // how the result is pulled: next(), or one of the Iterator methods a type may override — nth(k), skip(k), take(k+1)
        // — which must equal k+1 calls of next() under the same clock
        let k_extra: usize = if rng.chance(1, 5) { 1 + rng.below(if sets.minutes.iter().filter(|x| **x).count() > 30 { 150 } else { 4 }) as usize } else { 0 };
        let pull_mode = rng.below(4);
        let mut expected = match sets.next_after(floor, HORIZON) {
            Some(e) => e,
            None => {
                rec.bin("history/no-match-within-horizon-stopped");
                break;
            }
        };
        let mut ended = false;
        for _ in 0..k_extra {
            match sets.next_after(expected, HORIZON) {
                Some(e) => expected = e,
                None => {
                    ended = true;
                    break;
                }
            }
        }
        if ended {
            rec.bin("history/no-match-within-horizon-stopped");
            break;
        }
        rec.bin(match (k_extra > 0, pull_mode) { (false, 0) | (false, 1) => "pull/next", (false, 2) => "pull/nth(0)", (false, _) => "pull/take(1)", (true, 0) => "pull/nth(k)", (true, 1) => "pull/skip(k)", (true, 2) => "pull/take(k+1).last", _ => "pull/k+1-times-next" });
        if call == clone_at {
            // a copy taken with clone() or — every other time — written over an unrelated, already used schedule with
            // clone_from(): either way it must continue like the original
            clone = Some(if !use_clone_from {
                rec.bin("clone/clone()");
                sched.clone()
            } else {
                // the target: another schedule (or the same expression), never used or already used 1–3 times under a
                // clock before, at or long after the present one; the source: never used (call 0) or used
                let other_expr = *rng.pick(&["*/7 3 * * *", "0 0 1 1 *", "* * * * *", "0 0 29 2 *"]);
                let mut other = CronSchedule::parse(if rng.chance(1, 4) { expr } else { other_expr }).unwrap_or_else(|_| CronSchedule::parse("* * * * *").unwrap());
                let used = rng.below(4);
                let ahead = *rng.pick(&[-3_650i64 * 86_400, -86_400, 0, 86_400, 400 * 86_400, 3_650 * 86_400]);
                if used > 0 {
                    if let Some((c2, _)) = sane_value((clock + ahead) as i128 * NS, 0) {
                        let _ = trap(|| {
                            astrolabe::verif::pin_now(Some(c2));
                            for _ in 0..used {
                                let _ = other.next();
                            }
                            astrolabe::verif::pin_now(None);
                        });
                        astrolabe::verif::pin_now(None);
                    }
                }
                rec.bin(match (call == 0, used > 0) { (true, true) => "clone_from/fresh-source-into-used-target", (true, false) => "clone_from/fresh-source-into-fresh-target", (false, true) => "clone_from/used-source-into-used-target", _ => "clone_from/used-source-into-fresh-target" });
                other.clone_from(&sched);
                other
            });
        }
        rec.eval();
        rec.api("CronSchedule::next");
        let Some((clk, _)) = sane_value(clock as i128 * NS, 0) else {
            rec.bin(super::diff::SKIP_START);
            return;
        };
        let r = trap(|| {
            astrolabe::verif::pin_now(Some(clk));
            let pull = |s: &mut CronSchedule| -> Option<DateTime> {
                match (k_extra, pull_mode) {
                    (0, 0) | (0, 1) => s.next(),
                    (0, 2) => s.nth(0),
                    (0, _) => s.by_ref().take(1).last(),
                    (k, 0) => s.nth(k),
                    (k, 1) => s.by_ref().skip(k).next(),
                    (k, 2) => s.by_ref().take(k + 1).last(),
                    (k, _) => {
                        for _ in 0..k {
                            let _ = s.next();
                        }
                        s.next()
                    }
                }
            };
            let a = pull(&mut sched);
            let b = clone.as_mut().map(|c| pull(c));
            astrolabe::verif::pin_now(None);
            // results are read only if they are canonical values (read like an independently built value)
            let ta = match &a {
                Some(d) => super::diff::read_checked(d).is_some(),
                None => true,
            };
            let tb = match &b {
                Some(Some(d)) => super::diff::read_checked(d).is_some(),
                _ => true,
            };
            if !(ta && tb) {
                return None;
            }
            Some((a.map(|d| (read(&d), offset_secs(&d), d.second(), d.nano())), b.map(|x| x.map(|d| read(&d)))))
        });
        let r = match r {
            Ok(None) => {
                rec.bin(super::diff::SKIP_EXPECTED);
                return;
            }
            Ok(Some(x)) => Ok(x),
            Err(p) => Err(p),
        };
        match r {
            Err(p) => {
                events.push(Event { clock_s: clock, returned: None, expected_min: expected });
                rec.violation(format!("C17|history|next|panic|{},{}", p.class, p.site()), || wit(&events, p.to_json()));
                return;
            }
            Ok((a, b)) => {
                events.push(Event { clock_s: clock, returned: a.map(|x| x.0), expected_min: expected });
                let (inst, off, sec, ns) = match a {
                    Some(x) => x,
                    None => {
                        rec.violation("C17|history|next|returned-None".to_string(), || wit(&events, json!("None")));
                        return;
                    }
                };
                let want = expected as i128 * MIN_NS;
                if inst != want {
                    let kind = if inst % MIN_NS != 0 {
                        "not-a-whole-minute"
                    } else if inst < want {
                        let m = (inst / MIN_NS) as i64;
                        if Some(m) == last || last.map(|l| m < l).unwrap_or(false) {
                            "repeated-or-went-back"
                        } else if m <= now_min {
                            "not-after-current-minute"
                        } else {
                            "yielded-non-matching-minute"
                        }
                    } else {
                        "skipped-a-matching-minute"
                    };
                    rec.violation(format!("C17|history|next|{}|{},{}", kind, relation, carry_level(floor, expected)), || wit(&events, json!({"returned": show(inst), "model": show(want)})));
                    return;
                }
                if off != Some(0) || sec != 0 || ns != 0 {
                    rec.violation("C17|history|next|result-not-UTC-or-has-seconds".to_string(), || wit(&events, json!({"offset": off, "second": sec, "nano": ns})));
                    return;
                }
                if let Some(bv) = b {
                    rec.bin("clone/compared");
                    if bv != Some(inst) {
                        rec.violation("C17|history|clone|continues-differently".to_string(), || wit(&events, json!({"original": show(inst), "clone": bv.map(show)})));
                        return;
                    }
                }
                rec.bin(carry_level(floor, expected));
                let (_, m, d) = cal::civil_from_days(expected.div_euclid(1440));
                if m == 2 && d == 29 {
                    rec.bin("result/leap-day");
                }
                last = Some(expected);
            }
        }
    }
    rec.nontrivial(hash_str(expr) ^ mix64(start as u64));
    if rec.want_sample() {
        rec.sample(|| wit(&events, json!("none")));
    }
}

const FIXED: [&str; 26] = [
    // leap-day-only schedules late in the day (the longest searches there are: eight years of carries)
    "59 23 29 2 *",
    "59 23 29-31 2 *",
    "30 12 29 feb *",
    "0 0 31 1,3 *",
    "* * * * *",
    "*/5 * * * *",
    "0 10 * * Mon-Fri",
    "0 0 29 2 *",
    "59 23 31 12 *",
    "0 0 31 * *",
    "0 0 30 * 0",
    "0 0 1 1 *",
    "30 */6 * * *",
    "0 0 * * 0",
    "0 0 29-31 * *",
    "15 3 1,15 */2 fri",
    "0 12 * feb,apr,jun,sep,nov *",
    "58-59 23 * * *",
    "0 0 20 * mon",
    "* 0 1 * *",
    // a day of month that never occurs in the listed months, OR-ed with a restricted day of week: satisfiable through
    // the weekday alone (and a day of month that occurs only in some of the listed months)
    "0 0 30 2 mon",
    "30 6 31 apr,jun 0",
    "0 0 31 2,4,6,9,11 fri",
    "15 12 30,31 feb 1-5",
    "0 0 31 4,5 sat",
    "0 0 29-31 2 sun,sat",
];

pub fn run(ctx: &Ctx) -> PropResult {
    // every start minute of a window (one leap year in thorough, Feb 20 – Mar 10 and Dec 25 – Jan 5 in quick),
    // second 0 and second 59, one next() on a fresh schedule: exhaustive over the start dimension
    let windows: Vec<(i64, i64)> = if ctx.quick() {
        vec![(cal::days_from_civil(2024, 2, 20), cal::days_from_civil(2024, 3, 10)), (cal::days_from_civil(2023, 12, 25), cal::days_from_civil(2024, 1, 5)), (cal::days_from_civil(2100, 2, 26), cal::days_from_civil(2100, 3, 2))]
    } else {
        vec![(cal::days_from_civil(2024, 1, 1), cal::days_from_civil(2024, 12, 31)), (cal::days_from_civil(2100, 2, 1), cal::days_from_civil(2100, 3, 31)), (cal::days_from_civil(1999, 12, 1), cal::days_from_civil(2000, 3, 31))]
    };
    let mut starts: Vec<i64> = vec![];
    for (a, b) in windows.iter() {
        for m in a * 1440..(b + 1) * 1440 {
            starts.push(m);
        }
    }
    let mut wls = vec![];
    wls.push(Workload::cases("histories_fixed_schedules", ctx.count(6_000, 500_000), |rec, idx, rng| {
        let expr = FIXED[(idx % FIXED.len() as u64) as usize];
        if let Spec::Accept(sets) = cron_spec::parse(expr) {
            run_history(rec, rng, expr, &sets);
        }
    }));
    wls.push(Workload::cases("histories_generated_schedules", ctx.count(14_000, 1_500_000), |rec, _, rng| {
        let expr = gen_expression(rng);
        match cron_spec::parse(&expr) {
            Spec::Accept(sets) => run_history(rec, rng, &expr, &sets),
            // zero-padded numbers: acceptance is unspecified (run_history stops when the expression is refused), but an
            // accepted expression can only mean its numeric reading
            Spec::Unspecified("leading zero") => {
                if let Spec::Accept(sets) = cron_spec::parse_lenient(&expr) {
                    rec.bin("history/zero-padded-numbers");
                    run_history(rec, rng, &expr, &sets);
                }
            }
            _ => {}
        }
    }));
    // exactly one field restricted, the other four `*` — for each of the five fields (what an "every minute" /
    // "every day" shortcut must still respect)
    wls.push(Workload::cases("histories_one_field_restricted", ctx.count(5_000, 300_000), |rec, idx, rng| {
        let f = (idx % 5) as usize;
        let mut fields = vec!["*".to_string(); 5];
        fields[f] = loop {
            let t = super::c16::gen_field(rng, f);
            if t != "*" {
                break t;
            }
        };
        let expr = fields.join(" ");
        rec.bin("history/one-field-restricted");
        match cron_spec::parse(&expr) {
            Spec::Accept(sets) => run_history(rec, rng, &expr, &sets),
            Spec::Unspecified("leading zero") => {
                if let Spec::Accept(sets) = cron_spec::parse_lenient(&expr) {
                    run_history(rec, rng, &expr, &sets);
                }
            }
            _ => {}
        }
    }));
    let sr = &starts;
    let nst = starts.len() as u64;
    let nsched: u64 = if ctx.quick() { 4 } else { FIXED.len() as u64 };
    wls.push(Workload::chunks("every_start_minute_single_step", nst * nsched, 2048, move |rec, r| {
        for idx in r {
            let expr = FIXED[((idx / nst + 3) % FIXED.len() as u64) as usize];
            let minute = sr[(idx % nst) as usize];
            let sets = match cron_spec::parse(expr) {
                Spec::Accept(s) => s,
                _ => continue,
            };
            let expected = match sets.next_after(minute, HORIZON) {
                Some(e) => e,
                None => continue,
            };
            let sec = if idx % 2 == 0 { 0 } else { 59 };
            rec.eval();
            rec.cur_idx = idx;
            let Some((clk, _)) = sane_value((minute * 60 + sec) as i128 * NS, 0) else {
                rec.bin(super::diff::SKIP_START);
                continue;
            };
            let got = trap(|| {
                astrolabe::verif::pin_now(Some(clk));
                let r = CronSchedule::parse(expr).ok().and_then(|mut s| s.next());
                astrolabe::verif::pin_now(None);
                match r {
                    Some(d) => super::diff::read_checked(&d).map(Some),
                    None => Some(None),
                }
            });
            let got = match got {
                Ok(None) => {
                    rec.bin(super::diff::SKIP_EXPECTED);
                    continue;
                }
                Ok(Some(x)) => Ok(x),
                Err(p) => Err(p),
            };
            match got {
                Ok(Some(x)) if x == expected as i128 * MIN_NS => rec.bin(carry_level(minute, expected)),
                Ok(other) => rec.violation(format!("C17|every-start|next|wrong-first-result|{}", carry_level(minute, expected)), || json!({"expression": expr, "clock": show((minute * 60 + sec) as i128 * NS), "model": show(expected as i128 * MIN_NS), "returned": other.map(show)})),
                Err(p) => rec.violation(format!("C17|every-start|next|panic|{},{}", p.class, p.site()), || json!({"expression": expr, "clock": show((minute * 60 + sec) as i128 * NS), "panic": p.to_json()})),
            }
        }
        rec.nontrivial_counted(0);
    }));
    let n_every = nst * nsched;
    let mut out = run_workloads(ctx, wls);
    out.rec.nontrivial_counter += n_every / 60; // one per (schedule, start hour): distinct by construction
    let mut meta = PropMeta::default();
    meta.rule = "histories of 4–40 next() calls on one CronSchedule with the clock pinned (second granularity) and advanced between calls by {0, <60 s, <10 min, exactly to the last result, last result ∓1 min, somewhere before the last result, jumps of hours…a year}; starts stratified over years 1–9999 (month ends, Feb 27–Mar 1 of leap/common/century years, Dec 31→Jan 1, seconds 0/1/59); 20 hand-picked schedules (leap-day only — also late in the day, the longest searches —, 31st only, dom OR dow, year end…) and grammar-generated ones; satisfiable schedules only. Each event {clock, returned instant} is checked online against the model's earliest matching minute after max(previous result, current minute) (which implies strictly increasing, no skip, no repeat), zero seconds/nanoseconds, UTC; a copy taken at a random step — with clone(), or with clone_from() over an unrelated used schedule — must return the same results from then on. In addition EVERY start minute of a window (quick: Feb 20–Mar 10 2024, Dec 25–Jan 5, Feb 26–Mar 2 2100; thorough: all of 2024, Feb–Mar 2100, Dec 1999–Mar 2000) at second 0/59 is used as the clock for one next() of a fresh schedule and compared with the model. Non-trivial = every history; distinct by hash of (expression, start). Start years include the era boundary and years before year 1, and the 8-year gaps between leap days around 1900, 2100, 2200, 2300 (and the 4-year ones around 2000, 2400). Copies are taken with clone() or with clone_from() over an unrelated, already used schedule; leap-day-only schedules late in the day (59 23 29 2 *) are among the fixed ones.".into();
    meta.required_bins = vec![
        "carry/minute", "carry/hour", "carry/day", "carry/month", "carry/year", "days/dom-and-dow-restricted", "days/dom-restricted", "days/dow-restricted", "days/unrestricted",
        "clock/unchanged", "clock/exactly-at-last-result", "clock/last-result-minus-1min", "clock/last-result-plus-1min", "clock/jump-hours-to-years", "clock/behind-last-result", "clone/compared", "result/leap-day",
        "clone/clone()", "clone_from/fresh-source-into-used-target", "clone_from/used-source-into-used-target", "clone_from/used-source-into-fresh-target", "pull/next", "pull/nth(0)", "pull/nth(k)", "pull/skip(k)", "pull/take(k+1).last", "history/one-field-restricted", "history/zero-padded-numbers",
    ];
    meta.rule.push_str(" Results are pulled with next() or through nth(k) / skip(k) / take(k+1) (must equal k+1 calls of next() under the same clock; k up to 150 on dense schedules). The copy is taken with clone() or with clone_from() into another schedule that was never used or used 1–3 times under a clock 10 years before … 10 years after the present one, from a source that was never used (first call) or used. Schedules with exactly one field restricted (each of the five fields); zero-padded numbers in generated schedules (judged when the crate accepts them, against their numeric reading).");
    meta.assumptions = vec!["clock pinned through the cfg(astrolabe_verif) hook; unsatisfiable schedules and a clock running backwards are outside the statement".into()];
    let _ = (DateTime::default(), OffsetUtilities::get_offset(&DateTime::default()));
    Ok((meta, out))
}
