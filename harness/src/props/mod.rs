use crate::core::*;

pub mod c01;
pub mod util;

pub type PropResult = Result<(PropMeta, RunOutput), String>;

pub fn run(ctx: &Ctx) -> PropResult {
    match ctx.prop {
        "C01" => c01::run(ctx),
        other => Err(format!("no monitor for {}", other)),
    }
}
