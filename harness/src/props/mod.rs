use crate::core::*;

pub mod c01;
pub mod localzone;
pub mod c02;
pub mod c03;
pub mod c04;
pub mod c05;
pub mod c06;
pub mod c07;
pub mod c08;
pub mod c09;
pub mod c10;
pub mod c11;
pub mod c12;
pub mod c13;
pub mod c14;
pub mod c15;
pub mod c16;
pub mod c17;
pub mod c18;
pub mod c19;
pub mod c20;
pub mod diff;
pub mod envprobe;
pub mod fmtctx;
pub mod pairs;
pub mod ufcs;
pub mod util;
pub mod walk;

pub type PropResult = Result<(PropMeta, RunOutput), String>;

pub fn run(ctx: &Ctx) -> PropResult {
    let r = run_inner(ctx);
    localzone::cleanup();
    r
}

fn run_inner(ctx: &Ctx) -> PropResult {
    match ctx.prop {
        "C01" => c01::run(ctx),
        "C02" => c02::run(ctx),
        "C03" => c03::run(ctx),
        "C04" => c04::run(ctx),
        "C05" => c05::run(ctx),
        "C06" => c06::run(ctx),
        "C07" => c07::run(ctx),
        "C08" => c08::run(ctx),
        "C09" => c09::run(ctx),
        "C10" => c10::run(ctx),
        "C11" => c11::run(ctx),
        "C12" => c12::run(ctx),
        "C13" => c13::run(ctx),
        "C14" => c14::run(ctx),
        "C15" => c15::run(ctx),
        "C16" => c16::run(ctx),
        "C17" => c17::run(ctx),
        "C18" => c18::run(ctx),
        "C19" => c19::run(ctx),
        "C20" => c20::run(ctx),
        other => Err(format!("no monitor for {}", other)),
    }
}
