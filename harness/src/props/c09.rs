//! C09 — setting or clearing one field changes exactly that field, in local time.

use super::c08::{apply_time_clear, apply_time_setter, model_clear_time, model_set_time_field, TModel, CLEARS as TCLEARS, DN, SETTERS as TSETTERS};
use super::PropResult;
use crate::core::*;
use crate::model::calendar as cal;
use crate::model::instant::*;
use super::diff::*;
use astrolabe::errors::AstrolabeError;
use astrolabe::{DateTime, DateUtilities, TimeUtilities};
use serde_json::{json, Value};

pub const DT_SETTERS: [&str; 10] = ["set_year", "set_month", "set_day", "set_day_of_year", "set_hour", "set_minute", "set_second", "set_milli", "set_micro", "set_nano"];
pub const DT_CLEARS: [&str; 9] = ["clear_until_year", "clear_until_month", "clear_until_day", "clear_until_hour", "clear_until_minute", "clear_until_second", "clear_until_milli", "clear_until_micro", "clear_until_nano"];

pub fn apply_dt_setter(dt: &DateTime, f: usize, v: i64) -> Result<DateTime, AstrolabeError> {
    match f {
        0 => dt.set_year(v as i32),
        1 => dt.set_month(v as u32),
        2 => dt.set_day(v as u32),
        3 => dt.set_day_of_year(v as u32),
        4 => dt.set_hour(v as u32),
        5 => dt.set_minute(v as u32),
        6 => dt.set_second(v as u32),
        7 => dt.set_milli(v as u32),
        8 => dt.set_micro(v as u32),
        _ => dt.set_nano(v as u32),
    }
}

pub fn apply_dt_clear(dt: &DateTime, k: usize) -> DateTime {
    match k {
        0 => dt.clear_until_year(),
        1 => dt.clear_until_month(),
        2 => dt.clear_until_day(),
        3 => dt.clear_until_hour(),
        4 => dt.clear_until_minute(),
        5 => dt.clear_until_second(),
        6 => dt.clear_until_milli(),
        7 => dt.clear_until_micro(),
        _ => dt.clear_until_nano(),
    }
}

/// Model of set_<field>(v) on a local instant: Ok(new local instant) or Err(()) = must be refused.
pub fn model_set(local: i128, f: usize, v: i64) -> Result<i128, ()> {
    let fl = fields(local);
    let tod = local.rem_euclid(D);
    let a = cal::astro_year(fl.year);
    match f {
        0 => {
            if v < i32::MIN as i64 || v > i32::MAX as i64 || !cal::valid_display(v, fl.month, fl.dom) {
                return Err(());
            }
            Ok(cal::days_from_civil(cal::astro_year(v), fl.month, fl.dom) as i128 * D + tod)
        }
        1 => {
            if v < 1 || v > 12 || fl.dom > cal::month_len(a, v as u32) {
                return Err(());
            }
            Ok(cal::days_from_civil(a, v as u32, fl.dom) as i128 * D + tod)
        }
        2 => {
            if v < 1 || v > cal::month_len(a, fl.month) as i64 {
                return Err(());
            }
            Ok(cal::days_from_civil(a, fl.month, v as u32) as i128 * D + tod)
        }
        3 => {
            if v < 1 || v > cal::year_len(a) as i64 {
                return Err(());
            }
            Ok((cal::days_from_civil(a, 1, 1) + v - 1) as i128 * D + tod)
        }
        _ => {
            if v < 0 || v > u32::MAX as i64 {
                return Err(());
            }
            match model_set_time_field(tod as u64, f - 4, v as u32) {
                Some(t) => Ok(fl.day as i128 * D + t as i128),
                None => Err(()),
            }
        }
    }
}

/// Model of clear_until_<unit> on a local instant.
pub fn model_clear(local: i128, k: usize) -> i128 {
    let fl = fields(local);
    let a = cal::astro_year(fl.year);
    match k {
        0 => 0,
        1 => cal::days_from_civil(a, 1, 1) as i128 * D,
        2 => cal::days_from_civil(a, fl.month, 1) as i128 * D,
        _ => fl.day as i128 * D + model_clear_time(local.rem_euclid(D) as u64, k - 3) as i128,
    }
}

/// The getter that belongs to setter `f` (the statement: "returns a value whose getter for that field reads v").
fn dt_getter(dt: &DateTime, f: usize) -> i64 {
    match f {
        0 => dt.year() as i64,
        1 => dt.month() as i64,
        2 => dt.day() as i64,
        3 => dt.day_of_year() as i64,
        4 => dt.hour() as i64,
        5 => dt.minute() as i64,
        6 => dt.second() as i64,
        7 => dt.milli() as i64,
        8 => dt.micro() as i64,
        _ => dt.nano() as i64,
    }
}

/// After clear_until_<unit k>: which getters must read their minimum (absolute, as the statement says).
fn dt_cleared_fields_wrong(dt: &DateTime, k: usize) -> Option<String> {
    let g = (dt.year(), dt.month(), dt.day(), dt.hour(), dt.minute(), dt.second(), dt.nano());
    let ok = match k {
        0 => g == (1, 1, 1, 0, 0, 0, 0),
        1 => (g.1, g.2, g.3, g.4, g.5, g.6) == (1, 1, 0, 0, 0, 0),
        2 => (g.2, g.3, g.4, g.5, g.6) == (1, 0, 0, 0, 0),
        3 => (g.3, g.4, g.5, g.6) == (0, 0, 0, 0),
        4 => (g.4, g.5, g.6) == (0, 0, 0),
        5 => (g.5, g.6) == (0, 0),
        6 => g.6 == 0 && dt.milli() == 0 && dt.micro() == 0,
        7 => g.6 % 1_000_000 == 0 && dt.micro() % 1_000 == 0,
        _ => g.6 % 1_000 == 0,
    };
    if ok { None } else { Some(format!("(year,month,day,hour,minute,second,nano)={:?} milli={} micro={}", g, dt.milli(), dt.micro())) }
}

fn offset_class(i: i128, off: i32) -> &'static str {
    if off == 0 {
        "offset0"
    } else if i.div_euclid(D) == (i + off as i128 * NS).div_euclid(D) {
        "local-date=utc-date"
    } else {
        "local-date≠utc-date"
    }
}

fn in_range_with_margin(x: i128) -> bool {
    x >= MIN_INSTANT + D && x <= MAX_INSTANT - D
}

fn judge_dt_set(rec: &mut Rec, i: i128, off: i32, f: usize, v: i64) {
    rec.eval();
    let name = DT_SETTERS[f];
    rec.api(name);
    let oc = offset_class(i, off);
    rec.bin(oc);
    let local = i + off as i128 * NS;
    let exp_local = model_set(local, f, v);
    let exp = exp_local.map(|l| (l, l - off as i128 * NS));
    let vclass: &'static str = match exp {
        Ok((l, u)) if in_range_with_margin(l) && in_range_with_margin(u) => "value/valid",
        Ok(_) => "value/valid-but-result-at-range-end(skipped)",
        Err(()) => "value/invalid",
    };
    rec.bin(vclass);
    rec.nontrivial(hash_i128s(&[i, off as i128, f as i128, v as i128]));
    if vclass == "value/valid-but-result-at-range-end(skipped)" {
        return;
    }
    let Some((dt, _)) = sane_value(i, off) else {
        rec.bin(SKIP_START);
        return;
    };
    let r = trap(|| apply_dt_setter(&dt, f, v));
    let wit = |obs: Value| json!({"start_utc": show(i), "offset": off, "start_local": show(local), "call": format!("{}({})", name, v), "model_local_result": exp_local.map(show).map_err(|_| "must be refused"), "observed": obs});
    match (r, exp) {
        (Err(p), _) => rec.violation(format!("C09|datetime|{}|panic|{},{}|{}", name, p.class, p.site(), vclass), || wit(p.to_json())),
        (Ok(Ok(res)), Ok((_, eu))) => {
          // absolute, whatever the other read-outs do: the getter of the field that was set reads the value set
          match trap(|| dt_getter(&res, f)) {
              Ok(g) if g == v => {}
              Ok(g) => rec.violation(format!("C09|datetime|{}|getter-does-not-read-the-value-set|{}", name, oc), || wit(json!({"getter_reads": g, "value_set": v}))),
              Err(p) => rec.violation(format!("C09|datetime|{}|getter-panics-on-result|{},{}", name, p.class, p.site()), || wit(p.to_json())),
          }
          match diff_with_expected(&res, eu, off) {
            Ok(Diff::Skip) => rec.bin(SKIP_EXPECTED),
            Ok(Diff::Same) => {}
            Ok(Diff::Differs(g, e)) => {
                let kind = match g.first_difference(&e) {
                    "wrong-instant" => "wrong-instant",
                    "offset-changed" => "offset-changed",
                    _ => "getter-mismatch",
                };
                rec.violation(format!("C09|datetime|{}|{}|{}", name, kind, oc), || wit(json!({"result_reads": g.to_json(), "independently_built_expected_reads": e.to_json()})));
            }
            Err(p) => rec.violation(format!("C09|datetime|{}|result-unreadable|{},{}", name, p.class, p.site()), || wit(p.to_json())),
          }
        }
        (Ok(Ok(res)), Err(())) => rec.violation(format!("C09|datetime|{}|accepted-invalid|{}", name, oc), || wit(json!({"result_utc": trap(|| show(read(&res))).unwrap_or_default()}))),
        (Ok(Err(e)), Ok(_)) => rec.violation(format!("C09|datetime|{}|refused-valid|{}", name, oc), || wit(json!({"error": e.to_string()}))),
        (Ok(Err(e)), Err(())) => {
            if !matches!(e, AstrolabeError::OutOfRange(_)) {
                rec.violation(format!("C09|datetime|{}|wrong-error-kind", name), || wit(json!({"error": format!("{:?}", e)})));
            }
        }
    }
    if rec.want_sample() {
        rec.sample(|| wit(json!("(see verdict)")));
    }
}

fn judge_dt_clear(rec: &mut Rec, i: i128, off: i32, k: usize) {
    rec.eval();
    let name = DT_CLEARS[k];
    rec.api(name);
    let oc = offset_class(i, off);
    rec.bin(oc);
    let local = i + off as i128 * NS;
    let el = model_clear(local, k);
    let eu = el - off as i128 * NS;
    rec.nontrivial(hash_i128s(&[i, off as i128, 100 + k as i128]));
    if !(in_range_with_margin(el) && in_range_with_margin(eu)) {
        rec.bin("clear/result-at-range-end(skipped)");
        return;
    }
    rec.bin("clear/judged");
    let wit = |obs: Value| json!({"start_utc": show(i), "offset": off, "start_local": show(local), "call": name, "model_local_result": show(el), "observed": obs});
    judge_dt(rec, &format!("C09|datetime|{}", name), (i, off), Expect::Value(eu, off), |dt| Ran::Returned(apply_dt_clear(dt, k)), wit);
    // absolute: the cleared unit and everything finer read their minimum through the getters
    if let Some((dt, _)) = sane_value(i, off) {
        if let Ok(Some(bad)) = trap(|| dt_cleared_fields_wrong(&apply_dt_clear(&dt, k), k)) {
            rec.violation(format!("C09|datetime|{}|cleared-fields-do-not-read-their-minimum|{}", name, oc), || wit(json!(bad)));
        }
    }
    if rec.want_sample() {
        rec.sample(|| wit(json!("(see verdict)")));
    }
}

fn judge_date_op(rec: &mut Rec, day: i64, f: usize, v: i64) {
    // f: 0..=3 setters, 4..=6 clears
    rec.eval();
    let local = day as i128 * D;
    let (name, exp): (&'static str, Result<i128, ()>) = if f < 4 { (DT_SETTERS[f], model_set(local, f, v)) } else { (DT_CLEARS[f - 4], Ok(model_clear(local, f - 4))) };
    rec.api(match f { 0 => "Date::set_year", 1 => "Date::set_month", 2 => "Date::set_day", 3 => "Date::set_day_of_year", 4 => "Date::clear_until_year", 5 => "Date::clear_until_month", _ => "Date::clear_until_day" });
    rec.nontrivial(hash_i128s(&[day as i128, 200 + f as i128, v as i128]));
    let exp_day = exp.map(|l| l.div_euclid(D) as i64);
    if let Ok(d) = exp_day {
        if !(cal::MIN_DAY..=cal::MAX_DAY).contains(&d) {
            rec.bin("date/result-out-of-range");
            // must then be refused (setter) — a representable-range refusal
            let Some(dt) = sane_date(day) else {
                rec.bin(SKIP_START);
                return;
            };
            let r = trap(|| match f {
                0 => dt.set_year(v as i32).map(|x| x.timestamp()),
                _ => Ok(0),
            });
            if let Ok(Ok(ts)) = r {
                if f == 0 {
                    rec.violation("C09|date|set_year|accepted-out-of-range".to_string(), || json!({"start_day": day, "set_year": v, "returned_ts": ts}));
                }
            }
            return;
        }
    }
    rec.bin(if exp_day.is_ok() { "date/valid" } else { "date/invalid" });
    let Some(dt) = sane_date(day) else {
        rec.bin(SKIP_START);
        return;
    };
    let r = trap(|| match f {
        0 => dt.set_year(v as i32),
        1 => dt.set_month(v as u32),
        2 => dt.set_day(v as u32),
        3 => dt.set_day_of_year(v as u32),
        4 => Ok(dt.clear_until_year()),
        5 => Ok(dt.clear_until_month()),
        _ => Ok(dt.clear_until_day()),
    });
    let wit = |obs: Value| {
        let s = cal::ymd(day);
        json!({"start": [s.0, s.1, s.2], "call": if f < 4 { format!("Date::{}({})", name, v) } else { format!("Date::{}()", name) }, "model_day": exp_day.map_err(|_| "must be refused"), "observed": obs})
    };
    match (r, exp_day) {
        (Err(p), _) => rec.violation(format!("C09|date|{}|panic|{},{}", name, p.class, p.site()), || wit(p.to_json())),
        (Ok(Ok(res)), Ok(e)) => {
          let abs = trap(|| match f {
              0 => (res.year() as i64 == v, format!("year()={}", res.year())),
              1 => (res.month() as i64 == v, format!("month()={}", res.month())),
              2 => (res.day() as i64 == v, format!("day()={}", res.day())),
              3 => (res.day_of_year() as i64 == v, format!("day_of_year()={}", res.day_of_year())),
              4 => (res.as_ymd() == (1, 1, 1), format!("as_ymd()={:?}", res.as_ymd())),
              5 => ((res.month(), res.day()) == (1, 1), format!("month/day={:?}", (res.month(), res.day()))),
              _ => (res.day() == 1, format!("day()={}", res.day())),
          });
          match abs {
              Ok((true, _)) => {}
              Ok((false, what)) => rec.violation(format!("C09|date|{}|getter-does-not-read-the-value-set-or-minimum", name), || wit(json!(what))),
              Err(p) => rec.violation(format!("C09|date|{}|getter-panics-on-result|{},{}", name, p.class, p.site()), || wit(p.to_json())),
          }
          match diff_date(&res, e) {
            Ok(DateDiff::Skip) => rec.bin(SKIP_EXPECTED),
            Ok(DateDiff::Same) => {}
            Ok(DateDiff::Differs(got, exp)) => rec.violation(format!("C09|date|{}|wrong-value|era={}", name, if day < 0 { "BC" } else { "AD" }), || wit(json!({"result_reads": got, "independently_built_expected_reads": exp}))),
            Err(p) => rec.violation(format!("C09|date|{}|result-unreadable|{},{}", name, p.class, p.site()), || wit(p.to_json())),
          }
        }
        (Ok(Ok(res)), Err(())) => rec.violation(format!("C09|date|{}|accepted-invalid", name), || wit(json!({"result_reads": trap(|| date_reads(&res)).unwrap_or_default()}))),
        (Ok(Err(e)), Ok(_)) => rec.violation(format!("C09|date|{}|refused-valid", name), || wit(json!({"error": e.to_string()}))),
        (Ok(Err(e)), Err(())) => {
            if !matches!(e, AstrolabeError::OutOfRange(_)) {
                rec.violation(format!("C09|date|{}|wrong-error-kind", name), || wit(json!({"error": format!("{:?}", e)})));
            }
        }
    }
}

fn judge_time_op(rec: &mut Rec, n: u64, off: i32, f: usize, v: u32) {
    // f: 0..=5 setters, 6..=11 clears
    rec.eval();
    let m = TModel { n, off };
    let (name, exp): (&'static str, Option<u64>) = if f < 6 { (TSETTERS[f], model_set_time_field(m.local(), f, v).map(|l| m.from_local(l))) } else { (TCLEARS[f - 6], Some(m.from_local(model_clear_time(m.local(), f - 6)))) };
    rec.api(if f < 6 { "Time::set_*" } else { "Time::clear_until_*" });
    rec.bin(if exp.is_some() { "time/valid" } else { "time/invalid" });
    rec.bin(if off == 0 { "time/offset0" } else if (n as i128 + off as i128 * NS).div_euclid(DN as i128) != 0 { "time/offset-wraps-midnight" } else { "time/offset-same-day" });
    rec.nontrivial(hash_i128s(&[n as i128, off as i128, 300 + f as i128, v as i128]));
    let Some((t, _)) = sane_time(n, off) else {
        rec.bin(SKIP_START);
        return;
    };
    let r = trap(|| if f < 6 { apply_time_setter(&t, f, v) } else { Ok(apply_time_clear(&t, f - 6)) });
    let wit = |obs: Value| json!({"time_as_nanos": n, "offset": off, "local_nanos": m.local(), "call": if f < 6 { format!("Time::{}({})", name, v) } else { format!("Time::{}()", name) }, "model_as_nanos": exp, "observed": obs});
    match (r, exp) {
        (Err(p), _) => rec.violation(format!("C09|time|{}|panic|{},{}", name, p.class, p.site()), || wit(p.to_json())),
        (Ok(Ok(res)), Some(e)) => {
          let abs = trap(|| {
              let g = [res.hour(), res.minute(), res.second(), res.milli(), res.micro(), res.nano()];
              let ok = if f < 6 {
                  g[f] == v
              } else {
                  match f - 6 {
                      0 => (g[0], g[1], g[2], g[5]) == (0, 0, 0, 0),
                      1 => (g[1], g[2], g[5]) == (0, 0, 0),
                      2 => (g[2], g[5]) == (0, 0),
                      3 => g[5] == 0 && g[3] == 0 && g[4] == 0,
                      4 => g[5] % 1_000_000 == 0 && g[4] % 1_000 == 0,
                      _ => g[5] % 1_000 == 0,
                  }
              };
              (ok, format!("(hour,minute,second,milli,micro,nano)={:?}", g))
          });
          match abs {
              Ok((true, _)) => {}
              Ok((false, what)) => rec.violation(format!("C09|time|{}|getter-does-not-read-the-value-set-or-minimum", name), || wit(json!(what))),
              Err(p) => rec.violation(format!("C09|time|{}|getter-panics-on-result|{},{}", name, p.class, p.site()), || wit(p.to_json())),
          }
          match diff_time(&res, e, off) {
            Ok(TDiff::Skip) => rec.bin(SKIP_EXPECTED),
            Ok(TDiff::Same) => {}
            Ok(TDiff::Differs(g, x)) => {
                let kind = if g.as_nanos != x.as_nanos { "wrong-value" } else if g.off != x.off { "offset-changed" } else { "getter-mismatch" };
                rec.violation(format!("C09|time|{}|{}", name, kind), || wit(json!({"result_reads": format!("{:?}", g), "independently_built_expected_reads": format!("{:?}", x)})));
            }
            Err(p) => rec.violation(format!("C09|time|{}|result-unreadable|{},{}", name, p.class, p.site()), || wit(p.to_json())),
          }
        }
        (Ok(Ok(res)), None) => rec.violation(format!("C09|time|{}|accepted-invalid", name), || wit(json!({"as_nanos": trap(|| res.as_nanos()).ok()}))),
        (Ok(Err(e)), Some(_)) => rec.violation(format!("C09|time|{}|refused-valid", name), || wit(json!({"error": e.to_string()}))),
        (Ok(Err(e)), None) => {
            if !matches!(e, AstrolabeError::OutOfRange(_)) {
                rec.violation(format!("C09|time|{}|wrong-error-kind", name), || wit(json!({"error": format!("{:?}", e)})));
            }
        }
    }
}

/// Instants rich in month ends, leap days (AD and BC), year ends, the era boundary and end-of-day times.
pub fn gen_c09_instant(rng: &mut Rng) -> i128 {
    let a = match rng.below(6) {
        0 => rng.range_i64(-8, 8),
        1 => *rng.pick(&[-4i64, -100, -400, -8, 0, 4, 1600, 1900, 2000, 2020, 2024, 2100]),
        2 => rng.range_i64(1970, 2100),
        3 => rng.range_i64(-5_800_000, 5_800_000),
        _ => rng.range_i64(-3000, 3000),
    };
    let day = match rng.below(7) {
        0 => {
            let m = rng.below(12) as u32 + 1;
            cal::days_from_civil(a, m, cal::month_len(a, m))
        }
        1 => cal::days_from_civil(a, 2, 28) + rng.below(3) as i64,
        2 => cal::days_from_civil(a, 12, 31) + rng.below(2) as i64,
        3 => rng.range_i64(-2, 2),
        4 => {
            let m = rng.below(12) as u32 + 1;
            cal::days_from_civil(a, m, 1)
        }
        _ => cal::days_from_civil(a, 1, 1) + rng.below(365) as i64,
    };
    let tod = match rng.below(5) {
        0 => D - 1,
        1 => 0,
        2 => rng.below(86_400) as i128 * NS + *rng.pick(&[0i128, 1, 999_999_999, 123_456_789, 999_000_000, 999_999_000]),
        3 => *rng.pick(&[D - NS, D / 2, NS, 3_600 * NS - 1, 23 * 3_600 * NS]),
        _ => rng.range_i128(0, D - 1),
    };
    day as i128 * D + tod
}

/// Offsets: 0, whole hours, values that carry the local date across midnight for this instant, uniform.
pub fn gen_c09_offset(rng: &mut Rng, i: i128) -> i32 {
    let tod = i.rem_euclid(D);
    match rng.below(6) {
        0 => 0,
        1 => rng.range_i64(-23, 23) as i32 * 3600,
        2 => {
            // smallest positive offset that moves the local date forward, ± a little
            let need = ((D - tod + NS - 1) / NS) as i64;
            (need + rng.range_i64(-1, 3)).clamp(-86_399, 86_399) as i32
        }
        3 => {
            // offset that moves the local date backwards
            let need = -((tod / NS) as i64) - 1;
            (need + rng.range_i64(-3, 1)).clamp(-86_399, 86_399) as i32
        }
        _ => gen_offset(rng),
    }
}

fn gen_value(rng: &mut Rng, local: i128, f: usize) -> i64 {
    let fl = fields(local);
    let a = cal::astro_year(fl.year);
    match f {
        0 => match rng.below(8) {
            0 => 0,
            1 => fl.year + *rng.pick(&[-4i64, -1, 1, 4, 100, -100]),
            2 => *rng.pick(&[-5_879_611i64, -5_879_612, 5_879_611, 5_879_612, i32::MAX as i64, i32::MIN as i64]),
            3 => *rng.pick(&[-1i64, 1, -4, -5, 4, 5, 1900, 2000, 2024, 2023, -400, -401, -100, -101]),
            4 => -fl.year,
            _ => rng.range_i64(-5_879_000, 5_879_000),
        },
        1 => match rng.below(4) {
            0 => *rng.pick(&[0i64, 13, 14, 255, 256, 1 << 31, u32::MAX as i64]),
            _ => rng.range_i64(1, 12),
        },
        2 => match rng.below(4) {
            0 => *rng.pick(&[0i64, 32, 33, 1 << 31, u32::MAX as i64]),
            1 => cal::month_len(a, fl.month) as i64 + rng.range_i64(-1, 1),
            _ => rng.range_i64(1, 31),
        },
        3 => match rng.below(4) {
            0 => *rng.pick(&[0i64, 367, 1 << 31, u32::MAX as i64]),
            1 => rng.range_i64(364, 367),
            2 => rng.range_i64(58, 61),
            _ => rng.range_i64(1, 366),
        },
        _ => {
            let max = [23i64, 59, 59, 999, 999_999, 999_999_999][f - 4];
            match rng.below(5) {
                0 => max + rng.range_i64(0, 2),
                1 => *rng.pick(&[0i64, 1 << 31, u32::MAX as i64, 1000, 1_000_000, 1_000_000_000, 100, 60, 24]),
                _ => rng.range_i64(0, max),
            }
        }
    }
}

pub fn run(ctx: &Ctx) -> PropResult {
    let mut wls = vec![];
    wls.push(Workload::cases("datetime_setters", ctx.count(400_000, 16_000_000), |rec, idx, rng| {
        let i = gen_c09_instant(rng);
        let off = gen_c09_offset(rng, i);
        let f = (idx % 10) as usize;
        let v = gen_value(rng, i + off as i128 * NS, f);
        judge_dt_set(rec, i, off, f, v);
    }));
    wls.push(Workload::cases("datetime_small_domains_exhaustive", ctx.count(6_000, 200_000), |rec, _, rng| {
        // every candidate of the small domains on one instant/offset
        let i = gen_c09_instant(rng);
        let off = gen_c09_offset(rng, i);
        for v in 0..=13 {
            judge_dt_set(rec, i, off, 1, v);
        }
        for v in 0..=32 {
            judge_dt_set(rec, i, off, 2, v);
        }
        for v in 0..=24 {
            judge_dt_set(rec, i, off, 4, v);
        }
        for v in [0, 1, 30, 58, 59, 60] {
            judge_dt_set(rec, i, off, 5, v);
            judge_dt_set(rec, i, off, 6, v);
        }
        for k in 0..9 {
            judge_dt_clear(rec, i, off, k);
        }
    }));
    wls.push(Workload::cases("datetime_clears", ctx.count(200_000, 6_000_000), |rec, idx, rng| {
        let i = gen_c09_instant(rng);
        let off = gen_c09_offset(rng, i);
        judge_dt_clear(rec, i, off, (idx % 9) as usize);
    }));
    wls.push(Workload::cases("date_ops", ctx.count(120_000, 4_000_000), |rec, idx, rng| {
        let i = gen_c09_instant(rng);
        let day = i.div_euclid(D) as i64;
        let f = (idx % 7) as usize;
        let v = if f < 4 { gen_value(rng, day as i128 * D, f) } else { 0 };
        judge_date_op(rec, day, f, v);
    }));
    wls.push(Workload::cases("time_ops", ctx.count(120_000, 4_000_000), |rec, idx, rng| {
        let n = gen_c09_instant(rng).rem_euclid(D) as u64;
        let off = gen_c09_offset(rng, n as i128);
        let f = (idx % 12) as usize;
        let v = if f < 6 { gen_value(rng, n as i128, f + 4) as u32 } else { 0 };
        judge_time_op(rec, n, off, f, v);
    }));
    // call sequences: a setter / clear on a value, on siblings of it, and on the value again
    wls.push(Workload::cases("sibling_call_sequences", ctx.count(40_000, 1_500_000), |rec, idx, rng| {
        let (lo, hi) = (MIN_INSTANT + 3 * D, MAX_INSTANT - 3 * D);
        let i = gen_c09_instant(rng).clamp(lo, hi);
        let off = gen_c09_offset(rng, i);
        let f = (idx % 10) as usize;
        let local = i + off as i128 * NS;
        let fl = fields(local);
        let v: i64 = match f {
            0 => (fl.year + rng.range_i64(-3, 3)).clamp(-5_000_000, 5_000_000),
            1 => rng.range_i64(0, 13),
            2 => rng.range_i64(0, 32),
            3 => rng.range_i64(0, 367),
            4 => rng.range_i64(0, 24),
            5 | 6 => rng.range_i64(0, 60),
            7 => rng.range_i64(0, 1000),
            8 => rng.range_i64(0, 1_000_000),
            _ => rng.range_i64(0, 1_000_000_000),
        };
        rec.bin("sequence/sibling-calls");
        judge_dt_set(rec, i, off, f, v);
        for _ in 0..3 {
            let j = crate::model::magic::sibling_instant(rng, i, lo, hi);
            let o2 = if rng.chance(1, 2) { off } else { gen_c09_offset(rng, j) };
            if rng.chance(1, 3) {
                judge_dt_clear(rec, j, o2, rng.below(9) as usize);
            } else {
                judge_dt_set(rec, j, o2, if rng.chance(1, 2) { f } else { rng.below(10) as usize }, v);
            }
        }
        judge_dt_set(rec, i, off, f, v);
    }));
    wls.push(Workload::cases("offset_local_twins_time", ctx.count(4_000, 30_000), |rec, _, rng| super::localzone::twin_time_case(rec, rng, "C09", true)));
    wls.push(Workload::cases("offset_local_twins", ctx.count(6_000, 40_000), |rec, _, rng| super::localzone::twin_case(rec, rng, "C09", super::walk::Family::SetClear)));
    wls.push(Workload::cases("date_api_walks", ctx.count(20_000, 800_000), |rec, _, rng| super::walk::walk_date(rec, rng, "C09", super::walk::Family::SetClear)));
    wls.push(Workload::cases("api_walks", ctx.count(30_000, 1_500_000), |rec, _, rng| super::walk::walk(rec, rng, "C09", super::walk::Family::SetClear)));
    wls.push(Workload::cases("trait_dispatch_vs_method_syntax", ctx.count(8_000, 200_000), |rec, _, rng| super::ufcs::case(rec, rng, "C09")));
    let out = run_workloads(ctx, wls);
    let mut meta = PropMeta::default();
    meta.rule = "instants rich in month ends, Feb 28/29/Mar 1 of leap and common (century) years AD and BC, year ends, 0001-01-01 ± 2 d and end-of-day times x offsets {0, whole hours, the offsets that carry the local date across midnight in either direction for that instant ±3 s, uniform ±86399} x 10 setters x candidate values (every value of the small domains on sampled instants; boundary ±1, 2^31, u32::MAX, year 0, leap/common/range-end years, random) and 9 clear_until_*; random API walks in which set_*/clear_until_* steps are judged; Date (4 setters, 3 clears) and Time (6 setters, 6 clears, offsets that wrap midnight) likewise. Oracle: local fields of i + offset, edit one field, re-assemble, subtract the offset; all ten getters, the instant and the offset are compared. Results within one day of the range ends are skipped (no representable expectation). Every case is non-trivial; distinct by input hash. Absolute check besides the differential one: after set_<f>(v) the getter of f reads v; after clear_until_<u> the getters of u and everything finer read their minimum. Offset::Local twins for setters and clears (system zone hooked; real zones with transitions, the value possibly on the other side of a transition from the pinned 'now'). Sibling call sequences; Date API walks; Offset::Local twins also for Time setters/clears, with values and setter targets within hours of the hooked zone's own transitions and the clock pinned on transition days.".into();
    meta.rule.push_str(" The property's trait methods are also called through the trait (generic code / UFCS) and must agree with method syntax on the same operands (a type may grow inherent twins of its trait methods).");
    meta.required_bins = vec!["trait-dispatch/compared", 
        "local-twin/time-judged",
        "date-walk/with-judged-steps",
        "sequence/sibling-calls",
        "local-twin/judged", "local-twin/synthetic-fixed-zone", "local-twin/real-zone-with-transitions", "local-twin/value-near-a-transition-of-the-zone",
        "offset0", "local-date=utc-date", "local-date≠utc-date", "value/valid", "value/invalid", "clear/judged",
        "date/valid", "date/invalid", "time/valid", "time/invalid", "time/offset-wraps-midnight", "walk/with-judged-steps",
    ];
    meta.assumptions = vec!["instants built/read as in C03; getters are compared with the model's local fields".into()];
    Ok((meta, out))
}
