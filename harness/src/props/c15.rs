//! C15 — fallible constructors and setters accept exactly the valid inputs and reject the rest with a
//! consistent OutOfRange error; they never panic.

use super::c08::{model_set_time_field, TModel, DN};
use super::c09::{apply_dt_setter, gen_c09_instant, gen_c09_offset, model_set, DT_SETTERS};
use super::PropResult;
use crate::core::*;
use crate::model::calendar as cal;
use crate::model::instant::*;
use super::diff::*;
use astrolabe::errors::AstrolabeError;
use astrolabe::{Date, DateTime, DateUtilities, Offset, OffsetUtilities, Time, TimeUtilities};
use serde_json::{json, Value};

/// "<name> must be in the range <min>..=<max>[, …]" → (name, min, max)
fn stated_range(msg: &str) -> Option<(String, i128, i128)> {
    let key = " must be in the range ";
    let p = msg.find(key)?;
    let name = msg[..p].to_string();
    let rest = &msg[p + key.len()..];
    let rest = rest.split(',').next().unwrap_or(rest);
    let mut it = rest.split("..=");
    let a: i128 = it.next()?.trim().parse().ok()?;
    let b: i128 = it.next()?.trim().parse().ok()?;
    Some((name, a, b))
}

/// Differential value checks (see props/diff.rs): 1 = reads like the independently built expected value,
/// 0 = differs, −1 = no trustworthy expected value here (skipped).
type Cmp = (i8, String);

fn cmp_dt(x: &DateTime, want: i128, off: i32) -> Cmp {
    match diff_with_expected(x, want, off) {
        Ok(Diff::Same) => (1, String::new()),
        Ok(Diff::Skip) => (-1, String::new()),
        Ok(Diff::Differs(g, e)) => (0, format!("result reads {} but the value that should have been built reads {}", g.to_json(), e.to_json())),
        Err(p) => (0, format!("result unreadable: {}", p.msg)),
    }
}

/// Adds the absolute read-back "the accessor that mirrors the constructor returns the arguments" to a comparison
/// (a constructor must not return a value built from other arguments than the ones given — whatever another
/// read-out route does).
fn and_reads_back(c: Cmp, ok: bool, what: String) -> Cmp {
    if ok {
        c
    } else {
        (0, what)
    }
}

fn cmp_date(x: &Date, day: i64) -> Cmp {
    match diff_date(x, day) {
        Ok(DateDiff::Same) => (1, String::new()),
        Ok(DateDiff::Skip) => (-1, String::new()),
        Ok(DateDiff::Differs(g, e)) => (0, format!("result reads {} but the value that should have been built reads {}", g, e)),
        Err(p) => (0, format!("result unreadable: {}", p.msg)),
    }
}

fn cmp_time(x: &Time, n: u64, off: i32) -> Cmp {
    match diff_time(x, n, off) {
        Ok(TDiff::Same) => (1, String::new()),
        Ok(TDiff::Skip) => (-1, String::new()),
        Ok(TDiff::Differs(g, e)) => (0, format!("result reads {:?} but the value that should have been built reads {:?}", g, e)),
        Err(p) => (0, format!("result unreadable: {}", p.msg)),
    }
}

fn note_skip<E>(rec: &mut Rec, r: &Result<Result<Cmp, E>, Panic>) {
    if let Ok(Ok((-1, _))) = r {
        rec.bin(SKIP_EXPECTED);
    }
}

enum Verdict {
    Fine,
    Bad(&'static str, Value),
}

/// Common verdict for an API returning Result: `expect_ok` from the model, `err` inspected for kind and range.
/// `range_check(name, min, max)` returns Err(description) when the stated range is inconsistent.
fn judge_result<T: std::fmt::Debug>(r: Result<Result<T, AstrolabeError>, Panic>, expect_ok: bool, value_ok: impl Fn(&T) -> bool, range_check: impl Fn(&str, i128, i128) -> Result<(), String>) -> Verdict {
    match r {
        Err(p) => Verdict::Bad("panic", json!({"panic": p.to_json(), "site": p.site(), "class": p.class})),
        Ok(Ok(v)) => {
            if !expect_ok {
                Verdict::Bad("accepted-invalid", json!({"returned": format!("{:?}", v)}))
            } else if !value_ok(&v) {
                Verdict::Bad("ok-but-wrong-value", json!({"returned": format!("{:?}", v)}))
            } else {
                Verdict::Fine
            }
        }
        Ok(Err(e)) => {
            if expect_ok {
                return Verdict::Bad("refused-valid", json!({"error": e.to_string()}));
            }
            match &e {
                AstrolabeError::OutOfRange(_) => {
                    let msg = e.to_string();
                    // the message is the same through every way of turning the error into text
                    let by_ref = String::from(&e);
                    let dbg_has = format!("{}", &e);
                    let by_val: String = e.clone().into();
                    if by_ref != msg || by_val != msg || dbg_has != msg {
                        return Verdict::Bad("message-differs-between-Display-and-String::from", json!({"to_string()": msg, "String::from(&e)": by_ref, "String::from(e)": by_val}));
                    }
                    if let Some((name, a, b)) = stated_range(&msg) {
                        if let Err(why) = range_check(&name, a, b) {
                            return Verdict::Bad("stated-range-inconsistent", json!({"error": msg, "why": why}));
                        }
                    }
                    Verdict::Fine
                }
                other => Verdict::Bad("wrong-error-kind", json!({"error": format!("{:?}", other)})),
            }
        }
    }
}

fn report(rec: &mut Rec, api: &str, call: String, v: Verdict) {
    if let Verdict::Bad(kind, obs) = v {
        let sig = if kind == "panic" {
            format!("C15|{}|panic|{},{}", api, obs["class"].as_str().unwrap_or(""), obs["site"].as_str().unwrap_or(""))
        } else {
            format!("C15|{}|{}", api, kind)
        };
        rec.violation(sig, || json!({"call": call, "observed": obs}));
    }
}

/// The stated range of a date field must exclude the offending component of the attempted tuple and contain
/// every value of that component that would make the tuple a valid, representable date.
fn date_range_check(name: &str, a: i128, b: i128, y: i64, m: i64, d: i64, doy: Option<i64>) -> Result<(), String> {
    let inside = |x: i128| x >= a && x <= b;
    match name {
        "year" => {
            if inside(y as i128) {
                return Err(format!("rejected year {} lies inside the stated range", y));
            }
            for cand in [-5_879_610i64, -5_879_611, -400, -5, -4, -1, 1, 4, 2000, 2023, 5_879_610, 5_879_611] {
                let ok = match doy {
                    Some(n) => cand != 0 && n >= 1 && cal::day_from_year_doy(cal::astro_year(cand), n as u32).map(|t| (cal::MIN_DAY..=cal::MAX_DAY).contains(&t)).unwrap_or(false),
                    None => m >= 1 && d >= 1 && cal::day_of_display(cand, m as u32, d as u32).is_some(),
                };
                if ok && !inside(cand as i128) {
                    return Err(format!("year {} would be accepted but is outside the stated range", cand));
                }
            }
            Ok(())
        }
        "month" => {
            if inside(m as i128) {
                return Err(format!("rejected month {} lies inside the stated range", m));
            }
            for cand in 1..=12i64 {
                if y != 0 && d >= 1 && d <= 31 && cal::day_of_display(y, cand as u32, d as u32).is_some() && !inside(cand as i128) {
                    return Err(format!("month {} would be accepted but is outside the stated range", cand));
                }
            }
            Ok(())
        }
        "day" => {
            if inside(d as i128) {
                return Err(format!("rejected day {} lies inside the stated range", d));
            }
            for cand in 1..=31i64 {
                if y != 0 && (1..=12).contains(&m) && cal::day_of_display(y, m as u32, cand as u32).is_some() && !inside(cand as i128) {
                    return Err(format!("day {} would be accepted but is outside the stated range", cand));
                }
            }
            Ok(())
        }
        "day of year" => {
            let n = doy.unwrap_or(-1);
            if inside(n as i128) {
                return Err(format!("rejected day of year {} lies inside the stated range", n));
            }
            if y != 0 && y.abs() <= 5_879_611 {
                let ay = cal::astro_year(y);
                for cand in 1..=366u32 {
                    let ok = cal::day_from_year_doy(ay, cand).map(|t| (cal::MIN_DAY..=cal::MAX_DAY).contains(&t)).unwrap_or(false);
                    if ok && !inside(cand as i128) {
                        return Err(format!("day of year {} would be accepted but is outside the stated range", cand));
                    }
                }
            }
            Ok(())
        }
        _ => Ok(()),
    }
}

fn time_range_check(name: &str, a: i128, b: i128, h: u32, mi: u32, s: u32) -> Result<(), String> {
    let (v, max) = match name {
        "hour" => (h, 23),
        "minute" => (mi, 59),
        "second" => (s, 59),
        _ => return Ok(()),
    };
    if (v as i128) >= a && (v as i128) <= b {
        return Err(format!("rejected {} {} lies inside the stated range", name, v));
    }
    if a > 0 || b < max {
        return Err(format!("stated range does not contain every accepted {} (0..={})", name, max));
    }
    Ok(())
}

fn boundary_u32(rng: &mut Rng, max: u32) -> u32 {
    match rng.below(10) {
        0 => 0,
        1 => 1,
        2 => max.saturating_sub(1),
        3 => max,
        4 => max.saturating_add(1),
        5 => (1u32 << 31) - 1,
        6 => 1u32 << 31,
        7 => u32::MAX - rng.below(2) as u32,
        8 => rng.next() as u32,
        _ => rng.below(max as u64 + 1) as u32,
    }
}

fn boundary_year(rng: &mut Rng) -> i64 {
    match rng.below(8) {
        0 => 0,
        1 => *rng.pick(&[-5_879_612i64, -5_879_611, -5_879_610, 5_879_610, 5_879_611, 5_879_612]),
        2 => *rng.pick(&[i32::MIN as i64, i32::MAX as i64, i32::MIN as i64 + 1, i32::MAX as i64 - 1]),
        3 => *rng.pick(&[-1i64, 1, -4, -5, 4, 1900, 2000, 2023, 2024, -400, -401, -100, -101]),
        4 => rng.range_i64(i32::MIN as i64, i32::MAX as i64),
        _ => rng.range_i64(-5_879_611, 5_879_611),
    }
}

fn judge_from_ymd(rec: &mut Rec, y: i64, m: u32, d: u32, on_dt: bool, hms: Option<(u32, u32, u32)>) {
    rec.eval();
    let api: &'static str = match (on_dt, hms.is_some()) {
        (false, _) => "Date::from_ymd",
        (true, false) => "DateTime::from_ymd",
        (true, true) => "DateTime::from_ymdhms",
    };
    rec.api(api);
    let (h, mi, s) = hms.unwrap_or((0, 0, 0));
    let day = cal::day_of_display(y, m, d);
    let time_ok = h <= 23 && mi <= 59 && s <= 59;
    let expect = day.is_some() && time_ok;
    rec.bin(if expect { "ctor/valid" } else { "ctor/invalid" });
    rec.nontrivial(hash_i128s(&[y as i128, m as i128, d as i128, h as i128, mi as i128, s as i128, on_dt as i128]));
    let want_day = day.unwrap_or(0);
    let want_i = want_day as i128 * D + (h as i128 * 3600 + mi as i128 * 60 + s as i128) * NS;
    let r = trap(|| match (on_dt, hms) {
        (false, _) => Date::from_ymd(y as i32, m, d).map(|x| cmp_date(&x, want_day)),
        (true, None) => DateTime::from_ymd(y as i32, m, d).map(|x| cmp_dt(&x, want_i, 0)),
        (true, Some(_)) => DateTime::from_ymdhms(y as i32, m, d, h, mi, s).map(|x| and_reads_back(cmp_dt(&x, want_i, 0), x.as_ymdhms() == (y as i32, m, d, h, mi, s) && x.as_hms() == (h, mi, s), format!("as_ymdhms()/as_hms() read {:?} / {:?}, not the arguments", x.as_ymdhms(), x.as_hms()))),
    });
    note_skip(rec, &r);
    let v = judge_result(r, expect, |c| c.0 != 0, |name, a, b| {
        date_range_check(name, a, b, y, m as i64, d as i64, None)?;
        time_range_check(name, a, b, h, mi, s)
    });
    report(rec, api, format!("{}({}, {}, {}{})", api, y, m, d, hms.map(|(h, m, s)| format!(", {}, {}, {}", h, m, s)).unwrap_or_default()), v);
    if rec.want_sample() {
        rec.sample(|| json!({"call": format!("{}({}, {}, {})", api, y, m, d), "hms": format!("{:?}", hms), "model_accepts": expect}));
    }
}

fn judge_from_hms(rec: &mut Rec, h: u32, mi: u32, s: u32, kind: u8) {
    rec.eval();
    let api: &'static str = match kind {
        0 => "Time::from_hms",
        1 => "DateTime::from_hms",
        _ => "Offset::from_hms(+)",
    };
    rec.api(api);
    let expect = h <= 23 && mi <= 59 && s <= 59;
    rec.bin(if expect { "ctor/valid" } else { "ctor/invalid" });
    rec.nontrivial(hash_i128s(&[h as i128, mi as i128, s as i128, 50 + kind as i128]));
    let secs = h as i64 * 3600 + mi as i64 * 60 + s as i64;
    let r = trap(|| match kind {
        0 => Time::from_hms(h, mi, s).map(|t| cmp_time(&t, (secs as i128 * NS).clamp(0, DN as i128 - 1) as u64, 0)),
        1 => DateTime::from_hms(h, mi, s).map(|t| and_reads_back(cmp_dt(&t, secs as i128 * NS, 0), t.as_hms() == (h, mi, s), format!("as_hms() reads {:?}, not the arguments", t.as_hms()))),
        _ => Offset::from_hms(h.min(i32::MAX as u32) as i32, mi, s).map(|o| ((o.resolve() as i128 * NS == secs as i128 * NS) as i8, format!("resolves to {}", o.resolve()))),
    });
    note_skip(rec, &r);
    let v = judge_result(r, expect, |c| c.0 != 0, |name, a, b| time_range_check(name, a, b, h, mi, s));
    report(rec, api, format!("{}({}, {}, {})", api, h, mi, s), v);
}

fn judge_scalar(rec: &mut Rec, kind: u8, x: i128) {
    rec.eval();
    let (api, expect): (&'static str, bool) = match kind {
        0 => ("Time::from_seconds", (0..86_400).contains(&x)),
        1 => ("Time::from_nanos", (0..DN as i128).contains(&x)),
        _ => ("Offset::from_seconds", x.abs() <= 86_399),
    };
    rec.api(api);
    rec.bin(if expect { "ctor/valid" } else { "ctor/invalid" });
    rec.nontrivial(hash_i128s(&[x, 60 + kind as i128]));
    let want = match kind {
        0 => x * NS,
        _ => x,
    };
    let wn = want.clamp(0, DN as i128 - 1) as u64;
    let r = trap(|| match kind {
        0 => Time::from_seconds(x as u32).map(|t| cmp_time(&t, wn, 0)),
        1 => Time::from_nanos(x as u64).map(|t| cmp_time(&t, wn, 0)),
        _ => Offset::from_seconds(x as i32).map(|o| ((o.resolve() as i128 == want) as i8, format!("resolves to {}", o.resolve()))),
    });
    note_skip(rec, &r);
    let (lo, hi) = match kind {
        0 => (0i128, 86_399i128),
        1 => (0, DN as i128 - 1),
        _ => (-86_399, 86_399),
    };
    let v = judge_result(r, expect, |c| c.0 != 0, |_name, a, b| {
        if x >= a && x <= b {
            return Err(format!("rejected value {} lies inside the stated range", x));
        }
        if a > lo || b < hi {
            return Err(format!("stated range does not contain every accepted value ({}..={})", lo, hi));
        }
        Ok(())
    });
    report(rec, api, format!("{}({})", api, x), v);
}

fn judge_dt_setter(rec: &mut Rec, i: i128, off: i32, f: usize, v: i64, at_end: bool) {
    rec.eval();
    let api = DT_SETTERS[f];
    rec.api(match f { 0 => "DateTime::set_year", 1 => "DateTime::set_month", 2 => "DateTime::set_day", 3 => "DateTime::set_day_of_year", 4 => "DateTime::set_hour", 5 => "DateTime::set_minute", 6 => "DateTime::set_second", 7 => "DateTime::set_milli", 8 => "DateTime::set_micro", _ => "DateTime::set_nano" });
    let local = i + off as i128 * NS;
    let m = model_set(local, f, v);
    let expect = match m {
        Ok(l) => representable(l) && representable(l - off as i128 * NS),
        Err(()) => false,
    };
    rec.bin(if expect { "setter/valid" } else if m.is_ok() { "setter/result-not-representable" } else { "setter/invalid" });
    if at_end {
        rec.bin("setter/at-range-end-with-offset");
    }
    rec.nontrivial(hash_i128s(&[i, off as i128, f as i128, v as i128, 70]));
    let fl = fields(local);
    let want = m.map(|l| l - off as i128 * NS).unwrap_or(0);
    let Some((start, _)) = sane_value(i, off) else {
        rec.bin(SKIP_START);
        return;
    };
    let r = trap(|| apply_dt_setter(&start, f, v).map(|x| if expect { cmp_dt(&x, want, off) } else { (1, String::new()) }));
    note_skip(rec, &r);
    let verdict = judge_result(r, expect, |c| c.0 != 0, |name, a, b| {
        if f < 4 {
            // the tuple the call tried to build
            let (y, mo, d, doy) = match f {
                0 => (v, fl.month as i64, fl.dom as i64, None),
                1 => (fl.year, v, fl.dom as i64, None),
                2 => (fl.year, fl.month as i64, v, None),
                _ => (fl.year, 0, 0, Some(v)),
            };
            date_range_check(name, a, b, y, mo, d, doy)
        } else if name == "value" {
            let max = [23i128, 59, 59, 999, 999_999, 999_999_999][f - 4];
            if (v as i128) >= a && (v as i128) <= b {
                return Err(format!("rejected value {} lies inside the stated range", v));
            }
            if a > 0 || b < max {
                return Err(format!("stated range does not contain every accepted value (0..={})", max));
            }
            Ok(())
        } else {
            Ok(())
        }
    });
    report(rec, &format!("DateTime::{}", api), format!("{} at {} offset {}: {}({})", "DateTime", show(i), off, api, v), verdict);
    if rec.want_sample() {
        rec.sample(|| json!({"value_utc": show(i), "offset": off, "call": format!("{}({})", api, v), "model_accepts": expect}));
    }
}

fn judge_time_setter(rec: &mut Rec, n: u64, off: i32, f: usize, v: u32) {
    rec.eval();
    rec.api("Time::set_*");
    let tm = TModel { n, off };
    let m = model_set_time_field(tm.local(), f, v).map(|l| tm.from_local(l));
    rec.bin(if m.is_some() { "setter/valid" } else { "setter/invalid" });
    rec.nontrivial(hash_i128s(&[n as i128, off as i128, f as i128, v as i128, 80]));
    let Some((start, _)) = sane_time(n, off) else {
        rec.bin(SKIP_START);
        return;
    };
    let r = trap(|| super::c08::apply_time_setter(&start, f, v).map(|t| match m {
        Some(e) => cmp_time(&t, e, off),
        None => (1, String::new()),
    }));
    note_skip(rec, &r);
    let verdict = judge_result(r, m.is_some(), |c| c.0 != 0, |name, a, b| {
        if name != "value" {
            return Ok(());
        }
        let max = [23i128, 59, 59, 999, 999_999, 999_999_999][f];
        if (v as i128) >= a && (v as i128) <= b {
            return Err(format!("rejected value {} lies inside the stated range", v));
        }
        if a > 0 || b < max {
            return Err(format!("stated range does not contain every accepted value (0..={})", max));
        }
        Ok(())
    });
    report(rec, &format!("Time::{}", super::c08::SETTERS[f]), format!("Time {} ns offset {}: {}({})", n, off, super::c08::SETTERS[f], v), verdict);
}

fn judge_date_setter(rec: &mut Rec, day: i64, f: usize, v: i64) {
    rec.eval();
    rec.api("Date::set_*");
    let local = day as i128 * D;
    let m = model_set(local, f, v);
    let expect = m.map(|l| (cal::MIN_DAY as i128..=cal::MAX_DAY as i128).contains(&l.div_euclid(D))).unwrap_or(false);
    rec.bin(if expect { "setter/valid" } else { "setter/invalid" });
    rec.nontrivial(hash_i128s(&[day as i128, f as i128, v as i128, 90]));
    let fl = fields(local);
    let want = m.map(|l| l.div_euclid(D) as i64).unwrap_or(0);
    let Some(d) = sane_date(day) else {
        rec.bin(SKIP_START);
        return;
    };
    let r = trap(|| {
        match f {
            0 => d.set_year(v as i32),
            1 => d.set_month(v as u32),
            2 => d.set_day(v as u32),
            _ => d.set_day_of_year(v as u32),
        }
        .map(|x| if expect { cmp_date(&x, want) } else { (1, String::new()) })
    });
    note_skip(rec, &r);
    let verdict = judge_result(r, expect, |c| c.0 != 0, |name, a, b| {
        let (y, mo, d, doy) = match f {
            0 => (v, fl.month as i64, fl.dom as i64, None),
            1 => (fl.year, v, fl.dom as i64, None),
            2 => (fl.year, fl.month as i64, v, None),
            _ => (fl.year, 0, 0, Some(v)),
        };
        date_range_check(name, a, b, y, mo, d, doy)
    });
    report(rec, &format!("Date::{}", DT_SETTERS[f]), format!("Date day {}: {}({})", day, DT_SETTERS[f], v), verdict);
}

fn setter_value(rng: &mut Rng, f: usize) -> i64 {
    match f {
        0 => boundary_year(rng),
        1 => boundary_u32(rng, 12) as i64,
        2 => boundary_u32(rng, 31) as i64,
        3 => boundary_u32(rng, 366) as i64,
        _ => boundary_u32(rng, [23u32, 59, 59, 999, 999_999, 999_999_999][f - 4]) as i64,
    }
}

pub fn run(ctx: &Ctx) -> PropResult {
    let mut wls = vec![];
    wls.push(Workload::cases("from_ymd_boundary_grid", 1, |rec, _, _| {
        let years = [i32::MIN as i64, -5_879_612, -5_879_611, -5_879_610, -401, -400, -101, -100, -5, -4, -1, 0, 1, 4, 100, 1900, 2000, 2023, 2024, 5_879_610, 5_879_611, 5_879_612, i32::MAX as i64];
        let months = [0u32, 1, 2, 5, 6, 7, 8, 11, 12, 13, 255, 256, (1 << 31) - 1, 1 << 31, u32::MAX - 1, u32::MAX];
        let days = [0u32, 1, 11, 12, 13, 22, 23, 24, 27, 28, 29, 30, 31, 32, 33, 255, 256, (1 << 31) - 1, 1 << 31, u32::MAX];
        for &y in years.iter() {
            for &m in months.iter() {
                for &d in days.iter() {
                    judge_from_ymd(rec, y, m, d, false, None);
                    judge_from_ymd(rec, y, m, d, true, None);
                }
            }
        }
    }));
    wls.push(Workload::cases("from_ymd(hms)_random", ctx.count(150_000, 5_000_000), |rec, idx, rng| {
        let y = boundary_year(rng);
        let m = boundary_u32(rng, 12);
        let d = boundary_u32(rng, 31);
        // pairwise for the 6-parameter constructor: at most two parameters off the beaten path
        let hms = if idx % 2 == 0 { Some((boundary_u32(rng, 23), if rng.chance(1, 3) { boundary_u32(rng, 59) } else { rng.below(60) as u32 }, if rng.chance(1, 3) { boundary_u32(rng, 59) } else { rng.below(60) as u32 })) } else { None };
        let (y, m, d) = if hms.is_some() && rng.chance(1, 2) {
            // a valid date, so that the time arguments decide
            let n = rng.range_i64(cal::MIN_DAY, cal::MAX_DAY);
            let e = cal::ymd(n);
            (e.0, e.1, e.2)
        } else {
            (y, m, d)
        };
        judge_from_ymd(rec, y, m, d, idx % 3 != 0 || hms.is_some(), hms);
    }));
    // dates with a history of special treatment in other libraries and standards (leap-second days, calendar-reform
    // gaps, well-known epochs and roll-overs): every field combination around them, with seconds 59/60/61 and hours
    // 23/24 — a constructor must treat them like any other date
    wls.push(Workload::cases("notable_dates_x_boundary_times", 1, |rec, _, _| {
        let mut dates: Vec<(i64, u32, u32)> = vec![];
        for (y, june) in [(1972, true), (1972, false), (1973, false), (1974, false), (1975, false), (1976, false), (1977, false), (1978, false), (1979, false), (1981, true), (1982, true), (1983, true), (1985, true), (1987, false), (1989, false), (1990, false), (1992, true), (1993, true), (1994, true), (1995, false), (1997, true), (1998, false), (2005, false), (2008, false), (2012, true), (2015, true), (2016, false)] {
            dates.push(if june { (y, 6, 30) } else { (y, 12, 31) });
        }
        for d in 3..=16u32 {
            dates.push((1582, 10, d));
            dates.push((1752, 9, d));
        }
        dates.extend_from_slice(&[(1712, 2, 29), (1712, 2, 30), (1900, 2, 28), (1900, 2, 29), (1900, 3, 1), (1970, 1, 1), (1969, 12, 31), (2000, 2, 29), (2038, 1, 19), (2038, 1, 20), (1601, 1, 1), (1904, 1, 1), (1980, 1, 6), (2001, 9, 9), (2286, 11, 20), (2106, 2, 7), (1, 1, 1), (-1, 12, 31), (9999, 12, 31), (10000, 1, 1), (-4713, 11, 24), (1858, 11, 17), (2262, 4, 11), (1677, 9, 21), (292_277_026_596i64.min(5_879_611), 7, 12)]);
        for (y, m, d) in dates {
            judge_from_ymd(rec, y, m, d, true, None);
            for h in [0u32, 23, 24] {
                for mi in [0u32, 59, 60] {
                    for s in [0u32, 58, 59, 60, 61] {
                        judge_from_ymd(rec, y, m, d, true, Some((h, mi, s)));
                    }
                }
            }
        }
        rec.bin("ctor/notable-dates");
    }));
    wls.push(Workload::cases("from_hms_grid", 1, |rec, _, _| {
        let hs = [0u32, 1, 22, 23, 24, 25, 255, 256, 1_193_046, 1_193_047, (1 << 31) - 1, 1 << 31, u32::MAX - 1, u32::MAX];
        let ms = [0u32, 1, 58, 59, 60, 61, 255, 256, 71_582_788, 71_582_789, (1 << 31) - 1, 1 << 31, u32::MAX];
        for &h in hs.iter() {
            for &m in ms.iter() {
                for &s in ms.iter() {
                    for kind in 0..3 {
                        judge_from_hms(rec, h, m, s, kind);
                    }
                }
            }
        }
        for x in [0i128, 1, 86_398, 86_399, 86_400, 86_401, (1 << 31) - 1, 1 << 31, u32::MAX as i128] {
            judge_scalar(rec, 0, x);
        }
        for x in [0i128, 1, DN as i128 - 1, DN as i128, DN as i128 + 1, u32::MAX as i128, 1 << 32, 1 << 63, u64::MAX as i128] {
            judge_scalar(rec, 1, x);
        }
        // nanosecond counts whose number of whole seconds / milliseconds / minutes wraps a 32-bit
        // intermediate back into the day (k·2^32 units + an in-day remainder)
        for unit in [1_000_000_000i128, 1_000_000, 1_000, 60_000_000_000] {
            for k in 1..=4i128 {
                for r in [0i128, 1, 43_200_000_000_000, DN as i128 - 1] {
                    let x = k * (1i128 << 32) * unit + r;
                    if x <= u64::MAX as i128 {
                        judge_scalar(rec, 1, x);
                    }
                }
            }
        }
        for k in 1..=3i128 {
            // second counts that wrap a 16-bit / 17-bit intermediate
            judge_scalar(rec, 0, k * 65_536);
            judge_scalar(rec, 0, k * 131_072 + 5);
        }
        for x in [i32::MIN as i128, -86_401, -86_400, -86_399, -1, 0, 1, 86_399, 86_400, 86_401, i32::MAX as i128] {
            judge_scalar(rec, 2, x);
        }
    }));
    wls.push(Workload::cases("scalars_random", ctx.count(60_000, 1_000_000), |rec, idx, rng| {
        let kind = (idx % 3) as u8;
        let x: i128 = match kind {
            0 => match rng.below(3) { 0 => rng.next() as u32 as i128, _ => rng.below(2 * 86_400) as i128 },
            1 => match rng.below(4) {
                0 => rng.next() as i128,
                1 => {
                    // k·2^32 whole units (s, ms, µs, min) + an in-day remainder
                    let unit = *rng.pick(&[1_000_000_000i128, 1_000_000, 1_000, 60_000_000_000]);
                    let x = rng.range_i128(1, 4) * (1i128 << 32) * unit + rng.below(DN) as i128;
                    x.min(u64::MAX as i128)
                }
                _ => rng.below(2 * DN) as i128,
            },
            _ => match rng.below(3) { 0 => rng.next() as i32 as i128, _ => rng.range_i64(-2 * 86_400, 2 * 86_400) as i128 },
        };
        judge_scalar(rec, kind, x);
    }));
    wls.push(Workload::cases("datetime_setters", ctx.count(200_000, 8_000_000), |rec, idx, rng| {
        let f = (idx % 10) as usize;
        let (i, off, at_end) = if rng.chance(1, 3) {
            // the very ends of the range, with an offset whose local time is still inside
            if rng.chance(1, 2) {
                let off = rng.range_i64(0, 86_399) as i32;
                (MIN_INSTANT + rng.range_i128(0, 2 * D), off, true)
            } else {
                let off = -(rng.range_i64(0, 86_399) as i32);
                (MAX_INSTANT - rng.range_i128(0, 2 * D), off, true)
            }
        } else {
            let i = gen_c09_instant(rng);
            (i, gen_c09_offset(rng, i), false)
        };
        judge_dt_setter(rec, i, off, f, setter_value(rng, f), at_end);
    }));
    // result-directed: the *result* of the call is drawn next to a range end (two days either side, so just inside and
    // just outside), the receiver is that local reading with the one field replaced by some other valid value, the
    // argument is the field's value in the result.  Receivers are then anywhere (any year for set_year, any month for
    // set_month …) — only the result is extreme; a setter that checks representability on the wrong side of its
    // arithmetic, or reports the refusal with a range that contains the argument, shows here.
    wls.push(Workload::cases("setters_whose_result_lies_at_a_range_end", ctx.count(120_000, 3_000_000), |rec, idx, rng| {
        let f = if idx % 3 == 0 { (idx / 3 % 10) as usize } else { (idx % 4) as usize };
        let upper = rng.chance(1, 2);
        let off = if rng.chance(1, 4) { *rng.pick(&[0i32, 1, -1, 59, -59, 3_600, -3_600, 43_200, -43_200, 86_399, -86_399]) } else { rng.range_i64(-86_399, 86_399) as i32 };
        let jitter = match rng.below(3) { 0 => rng.range_i128(-2 * D, 2 * D), 1 => rng.range_i128(-(off.unsigned_abs() as i128 + 2) * NS, (off.unsigned_abs() as i128 + 2) * NS), _ => rng.range_i128(-3_600 * NS, 3_600 * NS) };
        let r = if upper { MAX_INSTANT + jitter } else { MIN_INSTANT + jitter };
        let lt = r + off as i128 * NS;
        let fl = fields(lt);
        let a = cal::astro_year(fl.year);
        let v: i64 = match f {
            0 => fl.year,
            1 => fl.month as i64,
            2 => fl.dom as i64,
            3 => fl.day - cal::days_from_civil(a, 1, 1) + 1,
            4 => fl.hour as i64,
            5 => fl.minute as i64,
            6 => fl.second as i64,
            7 => (fl.subsec / 1_000_000) as i64,
            8 => (fl.subsec / 1_000) as i64,
            _ => fl.subsec as i64,
        };
        for _ in 0..8 {
            let v0: i64 = match f {
                0 => match rng.below(3) { 0 => rng.range_i64(-5_879_610, 5_879_610), 1 => fl.year - fl.year.signum() * rng.range_i64(1, 3), _ => rng.range_i64(1, 9_999) },
                1 => rng.range_i64(1, 12),
                2 => rng.range_i64(1, 28),
                3 => rng.range_i64(1, 365),
                4 => rng.range_i64(0, 23),
                5 | 6 => rng.range_i64(0, 59),
                7 => rng.range_i64(0, 999),
                8 => rng.range_i64(0, 999_999),
                _ => rng.range_i64(0, 999_999_999),
            };
            if v0 == v {
                continue;
            }
            if let Ok(l0) = model_set(lt, f, v0) {
                let i0 = l0 - off as i128 * NS;
                if representable(l0) && representable(i0) {
                    rec.bin(if representable(r) && representable(lt) { "result-directed/result-just-inside" } else { "result-directed/result-just-outside" });
                    judge_dt_setter(rec, i0, off, f, v, true);
                    // and the Date setter for the same local date
                    if f < 4 && off == 0 || rng.chance(1, 4) && f < 4 {
                        let d0 = l0.div_euclid(D) as i64;
                        if (cal::MIN_DAY..=cal::MAX_DAY).contains(&d0) {
                            judge_date_setter(rec, d0, f, v);
                        }
                    }
                    return;
                }
            }
        }
        rec.bin("result-directed/no-receiver-found");
    }));
    // the one non-argument input a setter has: the zone an Offset::Local value resolves to.  It must be the zone file as
    // it is NOW (also when it changed behind the same name), and no environment may make a setter panic.
    wls.push(Workload::cases("setters_on_local_values_after_the_zone_changed_behind_the_same_name", ctx.count(400, 10_000), |rec, _, rng| super::localzone::same_name_case(rec, rng, "C15")));
    wls.push(Workload::cases("setters_on_local_values_under_hostile_process_environments", super::envprobe::env_cases(), |rec, idx, _| super::envprobe::judge_env(rec, "C15", idx)));
    wls.push(Workload::cases("date_and_time_setters", ctx.count(100_000, 3_000_000), |rec, idx, rng| {
        if idx % 2 == 0 {
            let day = match rng.below(4) {
                0 => rng.range_i64(cal::MIN_DAY, cal::MIN_DAY + 400),
                1 => rng.range_i64(cal::MAX_DAY - 400, cal::MAX_DAY),
                _ => gen_c09_instant(rng).div_euclid(D) as i64,
            };
            let f = ((idx / 2) % 4) as usize;
            judge_date_setter(rec, day, f, setter_value(rng, f));
        } else {
            let n = gen_c09_instant(rng).rem_euclid(D) as u64;
            let f = ((idx / 2) % 6) as usize;
            judge_time_setter(rec, n, gen_c09_offset(rng, n as i128), f, setter_value(rng, f + 4) as u32);
        }
    }));
    // receivers that are themselves results of earlier operations (month/year shifts with clamping, arithmetic,
    // offset changes): a setter must accept/refuse by the value it is given, not by how that value came about
    wls.push(Workload::cases("date_setters_on_results_of_earlier_operations(api_walks)", ctx.count(20_000, 800_000), |rec, _, rng| super::walk::walk_date(rec, rng, "C15", super::walk::Family::SetClear)));
    wls.push(Workload::cases("setters_on_results_of_earlier_operations(api_walks)", ctx.count(40_000, 1_500_000), |rec, _, rng| super::walk::walk(rec, rng, "C15", super::walk::Family::SetClear)));
    let out = run_workloads(ctx, wls);
    let mut meta = PropMeta::default();
    meta.rule = "boundary-dense argument tuples: every parameter from {0, 1, max−1, max, max+1, 2^31−1, 2^31, 2^32−1(−1), values whose product with the unit would wrap u32, random, and for from_nanos k·2^32 whole seconds/milliseconds/microseconds/minutes + an in-day remainder}; cartesian grids for from_ymd (23 years x 16 months x 20 days, Date and DateTime), from_hms (Time, DateTime, Offset) and the scalar constructors; pairwise-style random tuples for from_ymdhms; all set_* of DateTime (incl. values at the very ends of the range carrying an offset), Date and Time. Oracle: documented ranges + calendar existence + representability ⇒ Ok with exactly the modelled value; otherwise Err(OutOfRange) — never a panic — and when the message has the shape \"<name> must be in the range a..=b\" the range must exclude the offending component and contain every value of that component the model would accept given the other arguments. Every case non-trivial; distinct by input hash. API walks: setters applied to receivers that are themselves results of earlier operations (clamped month/year shifts, arithmetic, offset changes), accept/refuse judged against the model. The message is read through Display, String::from(&e) and String::from(e) and must be the same text. Notable dates (the 27 leap-second days, the 1582 and 1752 reform gaps, well-known epochs and roll-overs) x hours 0/23/24 x minutes 0/59/60 x seconds 0/58/59/60/61. Date API walks. Result-directed setter cases: the result is drawn within two days (or within one offset) of a range end, inside or outside, the receiver is that reading with the one field replaced (any year for set_year, any month for set_month …), the argument is the result's field value; all ten DateTime setters under any offset, the four Date setters. Setters on Offset::Local values after the zone file changed behind the same name (compared with the Fixed twin), and the whole Local battery in child processes started with hostile environments (TZ / TZDIR / LANG / LC_* / HOME / TMPDIR unset, empty, colon, multi-byte, 5000 characters, nonexistent paths): every call must return.".into();
    meta.required_bins = vec![
        "ctor/notable-dates",
        "date-walk/with-judged-steps","ctor/valid", "ctor/invalid", "setter/valid", "setter/invalid", "setter/result-not-representable", "setter/at-range-end-with-offset", "result-directed/result-just-inside", "result-directed/result-just-outside", "same-name/followed-the-file", "environment/child-ok"];
    meta.assumptions = vec!["which parameter an error names when several are invalid, and the wording, are not judged".into()];
    let _ = (TimeUtilities::hour(&Time::default()), OffsetUtilities::get_offset(&Time::default()));
    Ok((meta, out))
}
