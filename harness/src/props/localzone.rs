//! Values carrying `Offset::Local`.  With the hooks (`set_localtime_path`, `pin_now`) the "system zone" of the
//! current thread can be made to resolve to any offset `o`; the crate defines `Offset::Local` as *the offset the
//! system zone has now*, so a value carrying `Offset::Local` must then behave, in every operation and read-out,
//! exactly like the same instant carrying `Offset::Fixed(o)` (only `get_offset()` differs).  Each property whose
//! statement quantifies over "every offset" / "every DateTime" gets a twin workload: the operation is run on both
//! twins inside the hooked zone and the two outcomes are compared through all read-out routes.  No model is
//! involved: the Fixed twin is what the rest of the property's monitor judges against the model.
use super::c18::verif_root;
use super::walk::{gen_step, Family, Step};
use crate::core::*;
use crate::model::instant::*;
use crate::model::tzif_gen::Synth;
use astrolabe::{DateTime, DateUtilities, Offset, OffsetUtilities, TimeUtilities};
use serde_json::json;
use std::path::PathBuf;

/// Restores the hooks when dropped (also on unwinding).
struct ZoneGuard;
impl Drop for ZoneGuard {
    fn drop(&mut self) {
        astrolabe::verif::pin_now(None);
        astrolabe::verif::set_localtime_path(None);
    }
}

fn zone_dir() -> PathBuf {
    let d = verif_root().join("harness/target/out/tzlocal");
    let _ = std::fs::create_dir_all(&d);
    d
}

/// A TZif file (v2, no transitions, one type, fixed footer) whose offset is `off` at every instant.
fn fixed_zone_file(off: i32) -> PathBuf {
    let p = zone_dir().join(format!("fixed_{}_{}.tzif", std::process::id(), off));
    if !p.exists() {
        let a = off.unsigned_abs();
        let footer = format!("LCL{}{}:{:02}:{:02}", if off > 0 { "-" } else { "" }, a / 3600, a / 60 % 60, a % 60);
        let s = Synth { version: 2, transitions: vec![], type_idx: vec![], types: vec![(off, false)], footer, desigs: None };
        let tmp = zone_dir().join(format!("fixed_{}_{}_{:?}.tmp", std::process::id(), off, std::thread::current().id()));
        let _ = std::fs::write(&tmp, s.bytes());
        let _ = std::fs::rename(&tmp, &p);
    }
    p
}

pub static ZONE_FILE_MISSING: std::sync::atomic::AtomicU64 = std::sync::atomic::AtomicU64::new(0);

pub struct Zone {
    pub what: String,
    path: PathBuf,
    now_ts: i64,
    /// (transition instant, offset before, offset after) of the zone's own table from 1975 on (real zones only)
    pub jumps: Vec<(i64, i32, i32)>,
}

/// Offsets for the synthetic fixed zones, and real zones with daylight saving (the pinned "now" is in summer or in
/// winter, the value's own instant may be on the other side of a transition: Local still means the offset *now*).
pub fn gen_zone(rng: &mut Rng) -> Zone {
    if rng.chance(1, 3) {
        let (name, sub) = *rng.pick(&[("Europe__Paris", "fat"), ("Europe__Vienna", "slim"), ("America__Chicago", "fat"), ("America__Los_Angeles", "fat"), ("Australia__LHI", "fat"), ("Australia__Melbourne", "slim"), ("Europe__Madrid", "slim"), ("Asia__Calcutta", "slim")]);
        let p = verif_root().join("corpus/tzif").join(sub).join(name);
        if !p.exists() {
            ZONE_FILE_MISSING.fetch_add(1, std::sync::atomic::Ordering::Relaxed);
        }
        if p.exists() {
            let mut jumps = vec![];
            if let Ok(bytes) = std::fs::read(&p) {
                if let Ok(r) = crate::model::tzif_ref::parse(&bytes) {
                    for k in 1..r.transitions.len() {
                        let t = r.transitions[k];
                        if t > 157_766_400 {
                            let (b, a) = (r.types[r.type_idx[k - 1] as usize].0, r.types[r.type_idx[k] as usize].0);
                            if a != b {
                                jumps.push((t, b, a));
                            }
                        }
                    }
                }
            }
            // the clock: a few fixed instants, or — half of the time — on the day of one of the zone's own transitions
            let now_ts = if !jumps.is_empty() && rng.chance(1, 2) {
                let (t, _, _) = *rng.pick(&jumps);
                t + *rng.pick(&[-1i64, 0, 1, 3_600, -3_600, 43_200, -43_200, 7_200, -7_200, 600])
            } else {
                *rng.pick(&[1_720_000_000i64, 1_705_000_000, 1_711_846_800 - 1, 1_711_846_800, 1_729_990_800, 946_684_800])
            };
            return Zone { what: format!("{}/{} with the clock at unix {}", sub, name, now_ts), path: p, now_ts, jumps };
        }
    }
    let off = match rng.below(5) {
        0 => *rng.pick(&[0i32, 3600, -3600, 7200, -18_000, 19_800, 45_900, -12_600]),
        1 => *rng.pick(&[1i32, -1, 59, -59, 86_399, -86_399, 43_200, -43_200]),
        2 => rng.range_i64(-23, 23) as i32 * 3600,
        3 => rng.range_i64(-95, 95) as i32 * 900,
        _ => *rng.pick(&[3723i32, -3723, 30, -30, 12_345, -54_321, 5_400, -1_800]),
    };
    Zone { what: format!("synthetic zone with the fixed offset {} s", off), path: fixed_zone_file(off), now_ts: 1_700_000_000, jumps: vec![] }
}

/// Runs `f` with the thread's system zone redirected to `z` and the clock pinned; `f` gets the offset the crate
/// itself resolves `Offset::Local` to there.
pub fn in_zone<R>(z: &Zone, f: impl FnOnce(i32) -> R) -> R {
    let _g = ZoneGuard;
    astrolabe::verif::set_localtime_path(Some(z.path.clone()));
    astrolabe::verif::pin_now(Some(DateTime::from_timestamp(z.now_ts)));
    let o = Offset::Local.resolve();
    f(o)
}

/// Runs `f` with the thread's system zone redirected to `z` and the clock pinned at an arbitrary instant (the ends of the
/// range, the era boundary, 2^k units from the epochs …): the ambient state every clock- or zone-reading code path
/// depends on, under the caller's control.  `None` when the instant cannot be built.
pub fn in_ambient<R>(z: &Zone, now: i128, f: impl FnOnce() -> R) -> Option<R> {
    let (dt, _) = sane_value(now, 0)?;
    let _g = ZoneGuard;
    astrolabe::verif::set_localtime_path(Some(z.path.clone()));
    astrolabe::verif::pin_now(Some(dt));
    Some(f())
}

/// A clock reading for `in_ambient`: the very ends of the range (the last / first seconds, within an offset of the
/// end), around 0001-01-01, around the unix epoch, year 9999/10000, 2^k units from the epochs, today, anywhere.
pub fn gen_clock(rng: &mut Rng) -> (i128, &'static str) {
    match rng.below(8) {
        0 => (MAX_INSTANT - rng.range_i128(0, 2 * D), "clock/upper-range-end"),
        1 => (MIN_INSTANT + rng.range_i128(0, 2 * D), "clock/lower-range-end"),
        2 => (rng.range_i128(-2 * D, 2 * D), "clock/around-0001-01-01"),
        3 => (UNIX_EPOCH_INSTANT + rng.range_i128(-2 * D, 2 * D), "clock/around-1970"),
        4 => (crate::model::calendar::days_from_civil(10_000, 1, 1) as i128 * D + rng.range_i128(-2 * D, 2 * D), "clock/around-year-10000"),
        5 => (crate::model::magic::gen_instant_at(rng, MIN_INSTANT + D, MAX_INSTANT - D), "clock/2^k-units-from-an-epoch"),
        6 => (UNIX_EPOCH_INSTANT + 1_760_000_000i128 * NS + rng.range_i128(-400 * D, 400 * D), "clock/today"),
        _ => (rng.range_i128(MIN_INSTANT, MAX_INSTANT), "clock/anywhere"),
    }
}

/// Everything a DateTime shows, with the offset normalised to the seconds it resolves to.
fn summary(d: &DateTime) -> String {
    format!(
        "ns={} ts={} nano={} off={} utc={:?} local=({},{},{},doy {},wd {},{},{},{},{},{},{}) fmt={}",
        read(d), d.timestamp(), d.nano(), d.get_offset().resolve(), d.as_ymdhms(), d.year(), d.month(), d.day(), d.day_of_year(), d.weekday(), d.hour(), d.minute(), d.second(), d.milli(), d.micro(), d.nano(),
        d.format("yyyy-MM-dd HH:mm:ss.nnnnn xxxxx e w")
    )
}

fn outcome<T>(r: Result<T, Panic>, show: impl Fn(&T) -> String) -> String {
    match r {
        Ok(v) => show(&v),
        Err(p) => format!("PANIC {}", p.class),
    }
}

/// One twin case for a one-operand family (C04 arithmetic, C05 months, C09 set/clear).
pub fn twin_case(rec: &mut Rec, rng: &mut Rng, prop: &'static str, family: Family) {
    rec.eval();
    let z = gen_zone(rng);
    let (mut i, _) = gen_instant(rng, 400);
    if rng.chance(1, 2) {
        i = super::c09::gen_c09_instant(rng);
    }
    if !(MIN_INSTANT + 400 * D..MAX_INSTANT - 400 * D).contains(&i) {
        i = i.clamp(MIN_INSTANT + 400 * D, MAX_INSTANT - 400 * D);
    }
    // real zones: half of the time the value sits within a few hours of one of the zone's own transitions, or on the
    // same wall-clock time some days / months away from it (so that a date setter can land on the transition day) —
    // where an implementation that consults the zone at the VALUE's instant or wall time, instead of now, differs
    let mut directed: Option<(usize, i64)> = None;
    if !z.jumps.is_empty() && rng.chance(1, 2) {
        let (t, b, a) = *rng.pick(&z.jumps);
        let wall = t + b.min(a) as i64 + rng.range_i64(0, (a - b).unsigned_abs() as i64 + 3_600) - 1_800;
        // the instant whose reading under the CURRENT offset is that wall time is not known before the zone is
        // entered; use the unix instant of the wall time minus the larger of the two offsets as an approximation
        let base = (wall - a.max(b) as i64 + crate::model::calendar::DAYS_TO_1970 * 86_400) as i128 * NS + rng.range_i128(0, NS - 1);
        let k = match rng.below(4) {
            0 => 0,
            1 => rng.range_i64(-27, 27),
            2 => *rng.pick(&[-365i64, 365, -366, 366, 30, -30, 31, -31, 61, -61]),
            _ => rng.range_i64(-400, 400),
        };
        i = base + k as i128 * D;
        if family == Family::SetClear && k != 0 {
            // a date setter that brings the value to the transition day: set_day / set_month / set_year / set_day_of_year
            let target = fields(base + a.max(b) as i128 * NS);
            let which = rng.below(4) as usize;
            let v = match which { 0 => target.year, 1 => target.month as i64, 2 => target.dom as i64, _ => crate::model::calendar::day_of_year(target.day) as i64 };
            directed = Some((which, v));
        }
        rec.bin("local-twin/value-near-a-transition-of-the-zone");
    }
    let r = trap(|| {
        in_zone(&z, |o| {
            // a step of the wanted family, generated for the Fixed twin (i, o)
            let mut step = None;
            if let Some((f, v)) = directed {
                let desc = format!("{}({})", super::c09::DT_SETTERS[f], v);
                let fb: Box<dyn Fn(&DateTime) -> Option<DateTime>> = Box::new(move |x| super::c09::apply_dt_setter(x, f, v).ok());
                step = Some((desc, fb));
            }
            for _ in 0..40 {
                if step.is_some() {
                    break;
                }
                let Step::Op(desc, fam, _, f) = gen_step(rng, i, o);
                if fam == family {
                    step = Some((desc, f));
                    break;
                }
            }
            let (desc, f) = step?;
            let a = mk(i).set_offset(Offset::Fixed(o));
            let b = mk(i).set_offset(Offset::Local);
            let before = (summary(&a), summary(&b));
            let ra = outcome(trap(|| f(&a).map(|x| summary(&x))), |v| v.clone().unwrap_or_else(|| "refused".into()));
            let rb = outcome(trap(|| f(&b).map(|x| summary(&x))), |v| v.clone().unwrap_or_else(|| "refused".into()));
            Some((o, desc, before, ra, rb))
        })
    });
    rec.api("Offset::Local twin");
    match r {
        Err(p) => rec.violation(format!("{}|local-twin|setup|panic|{},{}", prop, p.class, p.site()), || json!({"zone": z.what, "instant": show(i), "panic": p.to_json()})),
        Ok(None) => {}
        Ok(Some((o, desc, before, ra, rb))) => {
            rec.bin("local-twin/judged");
            rec.bin(if z.what.starts_with("synthetic") { "local-twin/synthetic-fixed-zone" } else { "local-twin/real-zone-with-transitions" });
            rec.nontrivial(hash_str(&format!("{}{}{}", z.what, i, desc)));
            let opname: String = desc.split('(').next().unwrap_or("").trim().to_string();
            let opname = if opname.starts_with('+') || opname.starts_with('-') { "operator".to_string() } else { opname };
            if before.0 != before.1 {
                // the twins already read differently: that is C10/C18 territory, not this property's operation
                rec.bin("local-twin/twins-differ-before-the-operation(other-property)");
            } else if ra != rb {
                rec.violation(format!("{}|local-twin|{}|Offset::Local-value-behaves-unlike-its-fixed-offset-twin", prop, opname), || {
                    json!({"zone": z.what, "Offset::Local resolves to": o, "instant": show(i), "operation": desc, "on the value carrying Offset::Fixed": ra, "on the value carrying Offset::Local": rb})
                });
            }
            if rec.want_sample() {
                rec.sample(|| json!({"zone": z.what, "resolves_to": o, "instant": show(i), "operation": desc, "both twins": ra}));
            }
        }
    }
}

/// Twin case for `Time` values: setters, clears, add_/sub_ and the read-outs of a Time carrying Offset::Local against
/// the Time carrying Offset::Fixed(o) (C08 arithmetic, C09 setters/clears).
pub fn twin_time_case(rec: &mut Rec, rng: &mut Rng, prop: &'static str, setters: bool) {
    use astrolabe::Time;
    rec.eval();
    let z = gen_zone(rng);
    let n: u64 = match rng.below(4) {
        0 => *rng.pick(&[0u64, 1, 86_399_999_999_999, 43_200_000_000_000, 3_600_000_000_000, 82_800_000_000_000, 7_200_000_000_000]),
        1 => rng.below(86_400) * 1_000_000_000,
        _ => rng.below(86_400_000_000_000),
    };
    let tsum = |t: &Time| format!("as_nanos={} off={} hms={:?} local=({},{},{},{},{},{}) fmt={}", t.as_nanos(), t.get_offset().resolve(), t.as_hms(), t.hour(), t.minute(), t.second(), t.milli(), t.micro(), t.nano(), t.format("HH:mm:ss.nnnnn xxxxx a"));
    let (desc, op): (String, Box<dyn Fn(&Time) -> Option<Time>>) = if setters {
        let f = rng.below(12) as usize;
        if f < 6 {
            let v: u32 = match f { 0 => rng.below(25) as u32, 1 | 2 => rng.below(61) as u32, 3 => rng.below(1_001) as u32, 4 => rng.below(1_000_001) as u32, _ => rng.below(1_000_000_001) as u32 };
            (format!("Time::{}({})", super::c08::SETTERS[f], v), Box::new(move |t| super::c08::apply_time_setter(t, f, v).ok()))
        } else {
            (format!("Time::{}()", super::c08::CLEARS[f - 6]), Box::new(move |t| Some(super::c08::apply_time_clear(t, f - 6))))
        }
    } else {
        let m = rng.below(12) as usize;
        let c = match rng.below(3) { 0 => rng.below(100) as u32, 1 => rng.below(1 << 20) as u32, _ => rng.next() as u32 };
        (format!("Time::{}({})", super::c08::TMETHODS[m].0, c), Box::new(move |t| Some(super::c08::apply_tmethod(t, m, c))))
    };
    let r = trap(|| {
        in_zone(&z, |o| {
            let a = Time::from_nanos(n).unwrap().set_offset(Offset::Fixed(o));
            let b = Time::from_nanos(n).unwrap().set_offset(Offset::Local);
            let before = (tsum(&a), tsum(&b));
            let ra = outcome(trap(|| op(&a).map(|x| tsum(&x))), |v| v.clone().unwrap_or_else(|| "refused".into()));
            let rb = outcome(trap(|| op(&b).map(|x| tsum(&x))), |v| v.clone().unwrap_or_else(|| "refused".into()));
            (o, before, ra, rb)
        })
    });
    rec.api("Offset::Local twin (Time)");
    match r {
        Err(p) => rec.violation(format!("{}|local-twin|setup|panic|{},{}", prop, p.class, p.site()), || json!({"zone": z.what, "time_as_nanos": n, "panic": p.to_json()})),
        Ok((o, before, ra, rb)) => {
            rec.bin("local-twin/time-judged");
            rec.nontrivial(hash_str(&format!("{}{}{}", z.what, n, desc)));
            let opname: String = desc.split('(').next().unwrap_or("").trim().to_string();
            if before.0 != before.1 {
                rec.violation(format!("{}|local-twin|Time read-outs|Offset::Local-value-reads-unlike-its-fixed-offset-twin", prop), || json!({"zone": z.what, "Offset::Local resolves to": o, "time_as_nanos": n, "Fixed twin": before.0, "Local twin": before.1}));
            } else if ra != rb {
                rec.violation(format!("{}|local-twin|{}|Offset::Local-value-behaves-unlike-its-fixed-offset-twin", prop, opname), || json!({"zone": z.what, "Offset::Local resolves to": o, "time_as_nanos": n, "operation": desc, "on the Time carrying Offset::Fixed": ra, "on the Time carrying Offset::Local": rb}));
            }
        }
    }
}

/// One twin case for the two-operand relations (C03 ordering, C06 differences, C07 months/years).
pub fn twin_pair_case(rec: &mut Rec, rng: &mut Rng, prop: &'static str) {
    rec.eval();
    let z = gen_zone(rng);
    let lo = MIN_INSTANT + 400 * D;
    let hi = MAX_INSTANT - 400 * D;
    let i = super::c09::gen_c09_instant(rng).clamp(lo, hi);
    let j = match rng.below(4) {
        0 => i,
        1 => (i + rng.range_i128(-2 * D, 2 * D)).clamp(lo, hi),
        2 => {
            // an anniversary ± a few hours: where the local and the UTC calendar date may disagree
            let day = i.div_euclid(D) as i64;
            let t = crate::model::calendar::shift_months(day, rng.range_i64(-30, 30)) as i128 * D + i.rem_euclid(D) + rng.range_i128(-4 * 3600 * NS, 4 * 3600 * NS);
            t.clamp(lo, hi)
        }
        _ => super::c09::gen_c09_instant(rng).clamp(lo, hi),
    };
    let rel = |a: &DateTime, b: &DateTime| -> String {
        match prop {
            "C03" => format!("eq={} cmp={:?} lt={} ge={}", a == b, a.cmp(b), a < b, a >= b),
            "C06" => format!("ns={} us={} ms={} s={} min={} h={} d={} between={:?}", a.nanos_since(b), a.micros_since(b), a.millis_since(b), a.seconds_since(b), a.minutes_since(b), a.hours_since(b), a.days_since(b), a.duration_between(b)),
            _ => format!("months={} years={}", a.months_since(b), a.years_since(b)),
        }
    };
    let r = trap(|| {
        in_zone(&z, |o| {
            let (af, bf) = (mk(i).set_offset(Offset::Fixed(o)), mk(j).set_offset(Offset::Fixed(o)));
            let (al, bl) = (mk(i).set_offset(Offset::Local), mk(j).set_offset(Offset::Local));
            let same_before = summary(&af) == summary(&al) && summary(&bf) == summary(&bl);
            let rf = outcome(trap(|| rel(&af, &bf)), |v| v.clone());
            let rl = outcome(trap(|| rel(&al, &bl)), |v| v.clone());
            let rm = outcome(trap(|| rel(&al, &bf)), |v| v.clone());
            (o, same_before, rf, rl, rm)
        })
    });
    rec.api("Offset::Local twin (pairs)");
    match r {
        Err(p) => rec.violation(format!("{}|local-twin|setup|panic|{},{}", prop, p.class, p.site()), || json!({"zone": z.what, "panic": p.to_json()})),
        Ok((o, same_before, rf, rl, rm)) => {
            rec.bin("local-twin/judged");
            rec.bin(if z.what.starts_with("synthetic") { "local-twin/synthetic-fixed-zone" } else { "local-twin/real-zone-with-transitions" });
            rec.nontrivial(hash_str(&format!("{}{}{}", z.what, i, j)));
            if !same_before {
                rec.bin("local-twin/twins-differ-before-the-operation(other-property)");
            } else if rf != rl || rf != rm {
                rec.violation(format!("{}|local-twin|relation|Offset::Local-values-relate-unlike-their-fixed-offset-twins", prop), || {
                    json!({"zone": z.what, "Offset::Local resolves to": o, "a": show(i), "b": show(j), "both Fixed": rf, "both Local": rl, "a Local, b Fixed": rm})
                });
            }
            if rec.want_sample() {
                rec.sample(|| json!({"zone": z.what, "resolves_to": o, "a": show(i), "b": show(j), "relation": rf}));
            }
        }
    }
}

/// The reading of a value carrying Offset::Local follows the system zone: formatted (and read) under zone A and
/// then, on the same thread, under zone B, it must show what its Fixed(o_B) twin shows (C11: "for every … DateTime
/// (with any offset)"; C20 Display).  `patterns` are formatted besides the fixed read-out summary.
pub fn zone_switch_case(rec: &mut Rec, rng: &mut Rng, prop: &'static str) {
    rec.eval();
    let (za, zb) = (gen_zone(rng), gen_zone(rng));
    let i = super::c09::gen_c09_instant(rng).clamp(MIN_INSTANT + 400 * D, MAX_INSTANT - 400 * D);
    let pat = *rng.pick(&["yyyy-MM-dd HH:mm:ss", "HH:mm xxx", "yyyy/MM/dd HH:mm:ss", "e w D h a", "yyyy-MM-dd'T'HH:mm:ss.nnnXXX"]);
    let in_rfc_years = (0..crate::model::calendar::days_from_civil(9999, 12, 30) as i128 * D).contains(&(i - 2 * D));
    let shown = |d: &DateTime| format!("{} | {} | {} | {}", summary(d), d.format(pat), d, if in_rfc_years { d.format_rfc3339(astrolabe::Precision::Millis) } else { String::new() });
    let r = trap(|| {
        let b = mk(i).set_offset(Offset::Local);
        // first the bare sequence — the same call on the same value, only the system zone changes in between
        // (nothing else is formatted in between, so a one-entry "last result" memo would still hold the first text)
        let f1 = in_zone(&za, |_| (b.format(pat), b.to_string()));
        let f2 = in_zone(&zb, |_| (b.format(pat), b.to_string()));
        let first = in_zone(&za, |oa| {
            let fx = mk(i).set_offset(Offset::Fixed(oa));
            let want = (fx.format(pat), fx.to_string());
            (oa, format!("{} | {:?}", shown(&b), f1), format!("{} | {:?}", shown(&fx), want))
        });
        let second = in_zone(&zb, |ob| {
            let fx = mk(i).set_offset(Offset::Fixed(ob));
            let want = (fx.format(pat), fx.to_string());
            (ob, format!("{} | {:?}", shown(&b), f2), format!("{} | {:?}", shown(&fx), want))
        });
        (first, second)
    });
    rec.api("Offset::Local under a changing system zone");
    match r {
        Err(p) => rec.violation(format!("{}|local-twin|zone-switch|panic|{},{}", prop, p.class, p.site()), || json!({"zones": [za.what, zb.what], "instant": show(i), "panic": p.to_json()})),
        Ok(((oa, la, fa), (ob, lb, fb))) => {
            rec.bin("local-twin/zone-switch-judged");
            rec.nontrivial(hash_str(&format!("{}{}{}", za.what, zb.what, i)));
            if la != fa || lb != fb {
                rec.violation(format!("{}|local-twin|format/read-out|Offset::Local-value-does-not-follow-the-system-zone", prop), || {
                    json!({"instant": show(i), "pattern": pat, "first zone": za.what, "resolves to": oa, "Local value shows": la, "Fixed twin shows": fa, "second zone": zb.what, "then resolves to": ob, "Local value then shows": lb, "Fixed twin then shows": fb})
                });
            }
        }
    }
}

/// Removes this process's synthetic zone files (called once at the end of a run).
fn fixed_zone_bytes(off: i32) -> Vec<u8> {
    let a = off.unsigned_abs();
    // fixed-width footer so that files for different offsets have the same size
    let footer = format!("LCL{}{:02}:{:02}:{:02}", if off > 0 { "-" } else { "+" }, a / 3600, a / 60 % 60, a % 60);
    Synth { version: 2, transitions: vec![], type_idx: vec![], types: vec![(off, false)], footer, desigs: None }.bytes()
}

/// The zone changes *behind the same name*: what tzdata updates, `timedatectl set-timezone` and container images do
/// to /etc/localtime.  (0) a regular file rewritten in place; (1) rewritten in place with the same size and the old
/// modification time put back (package managers and rsync -t preserve mtimes); (2) a symlink whose target file is
/// replaced by rename; (3) a symlink re-pointed to another file; (4) the file removed and created again.  Before and
/// after, `Offset::Local` is resolved on this thread and read through a value: it must follow the file every time —
/// the crate documents Local as the offset the system zone has *now*.
pub fn same_name_case(rec: &mut Rec, rng: &mut Rng, prop: &'static str) {
    rec.eval();
    rec.api("Offset::Local.resolve (zone replaced behind the same name)");
    let dir = zone_dir().join(format!("samename_{}_{}", std::process::id(), mix64(hash_str(&format!("{:?}", std::thread::current().id())))));
    let _ = std::fs::create_dir_all(&dir);
    let pick = |rng: &mut Rng| -> i32 { match rng.below(3) { 0 => *rng.pick(&[3_600i32, -3_600, 7_200, 19_800, -18_000, 0]), 1 => rng.range_i64(-23, 23) as i32 * 3_600, _ => rng.range_i64(-86_399, 86_399) as i32 } };
    let oa = pick(rng);
    let mut ob = pick(rng);
    if ob == oa {
        ob = if oa == 3_600 { -3_600 } else { 3_600 };
    }
    let variant = rng.below(5);
    let name = ["regular-file-rewritten", "regular-file-rewritten-same-size-and-mtime", "symlink-target-replaced", "symlink-repointed", "file-removed-and-recreated"][variant as usize];
    rec.bin(match variant { 0 => "same-name/regular-file-rewritten", 1 => "same-name/same-size-and-mtime", 2 => "same-name/symlink-target-replaced", 3 => "same-name/symlink-repointed", _ => "same-name/removed-and-recreated" });
    rec.nontrivial(hash_i128s(&[oa as i128, ob as i128, variant as i128, 0x5A]));
    let p = dir.join("localtime");
    let f1 = dir.join("zoneA");
    let f2 = dir.join("zoneB");
    for x in [&p, &f1, &f2] {
        let _ = std::fs::remove_file(x);
    }
    let (ba, bb) = (fixed_zone_bytes(oa), fixed_zone_bytes(ob));
    let symlink = variant == 2 || variant == 3;
    let setup = (|| -> std::io::Result<()> {
        if symlink {
            std::fs::write(&f1, &ba)?;
            std::fs::write(&f2, &bb)?;
            std::os::unix::fs::symlink("zoneA", &p)?;
        } else {
            std::fs::write(&p, &ba)?;
        }
        Ok(())
    })();
    if setup.is_err() {
        rec.bin("same-name/setup-failed(skipped)");
        return;
    }
    let now = DateTime::from_timestamp(1_700_000_000 + rng.below(10_000_000) as i64);
    // a value half an hour before a month end: whether set_day(31) / set_month(2) / set_day_of_year(60) are accepted
    // depends on which side of midnight the local reading is
    let month_end = 1_675_207_800i64 + *rng.pick(&[0i64, 3_600, -3_600, 1_800]); // 2023-01-31T23:30Z ± …
    let setters = |d: &DateTime| -> String {
        let f = |r: Result<DateTime, astrolabe::errors::AstrolabeError>| r.map(|x| (x.timestamp(), x.day(), x.hour())).map_err(|_| "Err");
        format!("{:?}", (f(d.set_day(31)), f(d.set_day(29)), f(d.set_month(2)), f(d.set_day_of_year(32)), f(d.set_hour(0)), d.month(), d.day()))
    };
    let read = |p: &PathBuf| -> Result<(i32, u32, String, String), Panic> {
        trap(|| {
            let _g = ZoneGuard;
            astrolabe::verif::set_localtime_path(Some(p.clone()));
            astrolabe::verif::pin_now(Some(now));
            let d = DateTime::from_timestamp(1_650_000_000).set_offset(Offset::Local);
            let e = DateTime::from_timestamp(month_end).set_offset(Offset::Local);
            (Offset::Local.resolve(), d.hour() * 3_600 + d.minute() * 60 + d.second(), d.format("HH:mm:ss xxxxx"), setters(&e))
        })
    };
    // resolve once or several times before the change (a cache would be warm)
    let mut before = read(&p);
    for _ in 0..rng.below(3) {
        before = read(&p);
    }
    let change = (|| -> std::io::Result<()> {
        match variant {
            0 => std::fs::write(&p, &bb),
            1 => {
                let mtime = std::fs::metadata(&p)?.modified()?;
                std::fs::write(&p, &bb)?;
                let f = std::fs::OpenOptions::new().write(true).open(&p)?;
                f.set_modified(mtime)
            }
            2 => {
                let tmp = dir.join("zoneA.new");
                std::fs::write(&tmp, &bb)?;
                std::fs::rename(&tmp, &f1)
            }
            3 => {
                std::fs::remove_file(&p)?;
                std::os::unix::fs::symlink("zoneB", &p)
            }
            _ => {
                std::fs::remove_file(&p)?;
                std::fs::write(&p, &bb)
            }
        }
    })();
    if change.is_err() {
        rec.bin("same-name/change-failed(skipped)");
        return;
    }
    let after = read(&p);
    let wit = |obs: serde_json::Value| json!({"variant": name, "offset_of_the_first_zone": oa, "offset_of_the_second_zone": ob, "observed": obs});
    match (before, after) {
        (Ok(b), Ok(a)) => {
            let model = |o: i32| (1_650_000_000i64 + o as i64).rem_euclid(86_400) as u32;
            if b.0 != oa || b.1 != model(oa) {
                rec.violation(format!("{}|local-same-name|Offset::Local|first-zone-not-applied", prop), || wit(json!({"resolve": b.0, "local_second_of_day": b.1, "format": b.2})));
            } else if a.0 != ob || a.1 != model(ob) {
                rec.violation(format!("{}|local-same-name|Offset::Local|stale-zone-after-the-file-changed|{}", prop, name), || wit(json!({"resolve_before": b.0, "resolve_after": a.0, "local_second_of_day_after": a.1, "expected": model(ob), "format_after": a.2})));
            } else if trap(|| setters(&DateTime::from_timestamp(month_end).set_offset(Offset::Fixed(ob)))).map(|t| t != a.3).unwrap_or(false) {
                rec.violation(format!("{}|local-same-name|set_* on an Offset::Local value|differs-from-the-Fixed-twin-after-the-file-changed|{}", prop, name), || wit(json!({"setters_on_the_local_value": a.3})));
            } else {
                rec.bin("same-name/followed-the-file");
            }
        }
        (Err(pn), _) | (_, Err(pn)) => rec.violation(format!("{}|local-same-name|Offset::Local|panic|{},{}", prop, pn.class, pn.site()), || wit(pn.to_json())),
    }
    for x in [&p, &f1, &f2] {
        let _ = std::fs::remove_file(x);
    }
}

pub fn cleanup() {
    if let Ok(rd) = std::fs::read_dir(zone_dir()) {
        let pre = format!("fixed_{}_", std::process::id());
        let pre2 = format!("samename_{}_", std::process::id());
        for e in rd.flatten() {
            if e.file_name().to_string_lossy().starts_with(&pre) {
                let _ = std::fs::remove_file(e.path());
            }
            if e.file_name().to_string_lossy().starts_with(&pre2) {
                let _ = std::fs::remove_dir_all(e.path());
            }
        }
    }
}
