//! C19 — malformed or hostile timezone data is rejected, never a crash.

use super::c18::{corpus_files, verif_root};
use super::PropResult;
use crate::core::*;
use crate::model::calendar as cal;
use crate::model::instant::{MAX_TS, MIN_TS};
use crate::model::tzif_gen::{gen_footer, gen_synth};
use astrolabe::verif::VerifTz;
use astrolabe::{DateTime, DateUtilities, Offset};
use serde_json::{json, Value};

/// Byte layout of a TZif file, as far as it can be followed.
#[derive(Clone, Debug, Default)]
struct Layout {
    /// offsets of the (1 or 2) headers
    headers: Vec<usize>,
    /// per header: (offset of the transition-type array, transition count, type count)
    type_arrays: Vec<(usize, usize, usize)>,
    /// offset of the footer's leading newline (v2+)
    footer: Option<usize>,
}

fn be32(b: &[u8], p: usize) -> Option<usize> {
    b.get(p..p + 4).map(|s| u32::from_be_bytes([s[0], s[1], s[2], s[3]]) as usize)
}

fn layout(b: &[u8]) -> Layout {
    let mut l = Layout::default();
    let mut p = 0usize;
    for round in 0..2 {
        if b.get(p..p + 4) != Some(b"TZif") {
            break;
        }
        let ver = b.get(p + 4).copied().unwrap_or(0);
        let (isut, isstd, leap, time, typ, chr) = match (be32(b, p + 20), be32(b, p + 24), be32(b, p + 28), be32(b, p + 32), be32(b, p + 36), be32(b, p + 40)) {
            (Some(a), Some(c), Some(d), Some(e), Some(f), Some(g)) => (a, c, d, e, f, g),
            _ => break,
        };
        l.headers.push(p);
        let tsz = if round == 0 { 4 } else { 8 };
        let data = p + 44;
        l.type_arrays.push((data + time * tsz, time, typ));
        let end = data + time * tsz + time + typ * 6 + chr + leap * (tsz + 4) + isstd + isut;
        if end > b.len() {
            break;
        }
        p = end;
        if ver == 0 {
            return l;
        }
        if round == 1 {
            l.footer = Some(p);
        }
    }
    l
}

fn lookup_timestamps(rng: &mut Rng) -> Vec<i64> {
    let ys = |y: i64, m: u32, d: u32| (cal::days_from_civil(y, m, d) - cal::DAYS_TO_1970) * 86_400;
    // ordinary timestamps first, the range ends last: the first panic reported per zone is then honest
    let mut v = vec![0, -1, 1 << 31, -(1 << 31), (1 << 31) - 1];
    for y in [2024i64, 2025, 1900, 2000, 2100, 1, -1, 9999] {
        v.push(ys(y, 2, 28) + 43_200);
        v.push(ys(y, 3, 1));
        v.push(ys(y, 12, 31) + 86_399);
        v.push(ys(y, 1, 1));
        if cal::is_leap_astro(y) {
            v.push(ys(y, 2, 29) + 3_600);
        }
    }
    for _ in 0..40 {
        v.push(match rng.below(3) {
            0 => rng.range_i64(ys(1970, 1, 1), ys(2100, 1, 1)),
            1 => rng.range_i64(ys(-5000, 1, 1), ys(12_000, 1, 1)),
            _ => rng.range_i64(MIN_TS + 86_400 * 800, MAX_TS - 86_400 * 800),
        });
    }
    v.extend_from_slice(&[MIN_TS / 2, MAX_TS / 2, MIN_TS + 86_400 * 200, MAX_TS - 86_400 * 200, MIN_TS + 1, MAX_TS - 1, MIN_TS, MAX_TS]);
    v
}

const HOSTILE_FOOTERS: [&str; 64] = [
    "", "\n", "CET", "CET-", "CET-1CEST", "CET-1CEST,", "CET-1CEST,M", "CET-1CEST,M3", "CET-1CEST,M3.", "CET-1CEST,M3.5", "CET-1CEST,M3.5.", "CET-1CEST,M3.5.0", "CET-1CEST,M3.5.0,",
    "CET-1CEST,M0.1.0,M10.5.0", "CET-1CEST,M13.1.0,M10.5.0", "CET-1CEST,M99.1.0,M10.5.0", "CET-1CEST,M3.0.0,M10.5.0", "CET-1CEST,M3.6.0,M10.5.0", "CET-1CEST,M3.9.0,M10.5.0", "CET-1CEST,M3.5.7,M10.5.0",
    "CET-1CEST,M3.5.9,M10.5.0", "CET-1CEST,M3.5.0,M10.5.255", "CET-1CEST,M256.5.0,M10.5.0", "CET-1CEST,M3.256.0,M10.5.0", "CET-1CEST,J0,J200", "CET-1CEST,J366,J200", "CET-1CEST,J100,J999",
    "CET-1CEST,365,100", "CET-1CEST,366,100", "CET-1CEST,100,366", "CET-1CEST,999999999999,100", "CET-1CEST,J999999999999,J100", "CET-1CEST,M999999999999.1.0,M10.5.0", "CET-1CEST,M3.999999999999.0,M10.5.0",
    "CET-1CEST,M3.5.999999999999,M10.5.0", "CET-999999999999", "CET-1:999999999999", "CET-1:0:999999999999", "CET-1CEST,M3.5.0/999999999999,M10.5.0", "CET-1CEST,M3.5.0/1:999999999999,M10.5.0",
    "<CET", "<CET>", "<>-1", "<CET>-1<", "CET24", "CET25", "CET-24", "CET-25", "CET-1CEST,M3.5.0/24,M10.5.0", "CET-1CEST,M3.5.0/25,M10.5.0", "CET-1CEST,M3.5.0/167,M10.5.0/-167", "CET-1CEST,M3.5.0/168,M10.5.0",
    "CET-1CEST,M3.5.0/-168,M10.5.0", "CET-1CEST-60,M3.5.0,M10.5.0", ":character", "CET-1\0", "CET-1CEST,J60,J61", "CET-1CEST,59,60", "CET-1CEST,J365,J1", "CET-1CEST,0,365", "CET-1CEST,M2.5.1,M2.5.1", "CET-1CEST,M12.5.6/167,M1.1.0/-167",
    "CET-1CEST,J1/-167,J365/167", "CET+1+1+1",
];

/// Decimal strings around every power of ten and of two up to beyond 2^64, and around the values at which a
/// product with 60 / 3600 / 86400 / 604800 crosses 2^31, 2^32, 2^63, 2^64 (a number that fits its integer type
/// but whose conversion to seconds does not is the shape a "parse, then multiply" reader gets wrong).
fn number_ladder() -> Vec<String> {
    let mut v: Vec<u128> = vec![];
    let mut p10: u128 = 1;
    for _ in 1..=22 {
        p10 *= 10;
        v.extend_from_slice(&[p10 - 1, p10, p10 + 1]);
    }
    for k in 7..=66u32 {
        let p2: u128 = 1 << k;
        v.extend_from_slice(&[p2 - 1, p2, p2 + 1]);
    }
    for b in [1u128 << 31, 1 << 32, 1 << 63, 1 << 64, 1 << 15, 1 << 16] {
        for d in [60u128, 3_600, 86_400, 604_800, 24, 7, 12, 365] {
            v.extend_from_slice(&[(b / d).saturating_sub(1), b / d, b / d + 1]);
        }
    }
    v.sort();
    v.dedup();
    let mut out: Vec<String> = v.iter().map(|x| x.to_string()).collect();
    out.push("0000000000000000000000000000000001".into());
    out.push("00000000000000000000000000000000000000000000000000000000000000000".into());
    out
}

const LADDER_TEMPLATES: [&str; 6] = [
    "AAA-1:2:3BBB-2:3:4,M3.5.0/1:2:3,M10.5.0/-1:2:3",
    "AAA1BBB,J60/2,J300/2",
    "AAA1BBB,59/2,300/2",
    "AAA5",
    "<+03>-3:30<+04>-4:30,M3.2.0,M11.1.0",
    "AAA+1:2:3BBB,M3.5.0,M10.5.0",
];

fn digit_runs(bytes: &[u8]) -> Vec<(usize, usize)> {
    let mut v = vec![];
    let mut i = 0;
    while i < bytes.len() {
        if bytes[i].is_ascii_digit() {
            let s = i;
            while i < bytes.len() && bytes[i].is_ascii_digit() {
                i += 1;
            }
            v.push((s, i));
        } else {
            i += 1;
        }
    }
    v
}

fn mutate_footer(rng: &mut Rng) -> Vec<u8> {
    match rng.below(6) {
        0 | 1 => rng.pick(&HOSTILE_FOOTERS).as_bytes().to_vec(),
        2 => {
            // a valid footer with one numeric slot replaced
            let v3 = rng.chance(1, 2);
            let (text, _) = gen_footer(rng, v3);
            let bytes = text.into_bytes();
            let digit_runs = digit_runs(&bytes);
            if digit_runs.is_empty() {
                return bytes;
            }
            let (s, e) = *rng.pick(&digit_runs);
            let ladder_pick;
            let repl: &str = if rng.chance(1, 3) {
                let l = number_ladder();
                ladder_pick = rng.pick(&l).clone();
                &ladder_pick
            } else {
                *rng.pick(&["0", "00", "6", "7", "13", "24", "25", "59", "60", "99", "167", "168", "255", "256", "365", "366", "367", "999999999999", "4294967296", "18446744073709551616", ""])
            };
            let mut out = bytes[..s].to_vec();
            out.extend_from_slice(repl.as_bytes());
            out.extend_from_slice(&bytes[e..]);
            out
        }
        3 => {
            // byte-level damage, possibly non-UTF-8
            let (text, _) = gen_footer(rng, true);
            let mut b = text.into_bytes();
            for _ in 0..1 + rng.below(3) {
                if b.is_empty() {
                    break;
                }
                let p = rng.below(b.len() as u64) as usize;
                match rng.below(4) {
                    0 => b[p] = *rng.pick(&[0xFFu8, 0xC0, 0x80, 0x00, b'<', b'>', b',', b'.', b'/', b'-', b'+', b':', b'J', b'M']),
                    1 => {
                        b.remove(p);
                    }
                    2 => b.insert(p, *rng.pick(&[b',', b'.', b'/', b'<', b'9', b'M', b'J', 0xE9])),
                    _ => b.truncate(p),
                }
            }
            b
        }
        4 => {
            let (text, _) = gen_footer(rng, true);
            text.into_bytes()
        }
        _ => {
            // two rules that collide or sit at the year boundary (outside IANA shapes, but must not crash)
            let r = |rng: &mut Rng| match rng.below(3) {
                0 => format!("J{}", rng.range_i64(1, 365)),
                1 => format!("{}", rng.range_i64(0, 365)),
                _ => format!("M{}.{}.{}", rng.range_i64(1, 12), rng.range_i64(1, 5), rng.range_i64(0, 6)),
            };
            let (o, r1, t1, r2, t2) = (rng.range_i64(-24, 24), r(rng), rng.range_i64(-167, 167), r(rng), rng.range_i64(-167, 167));
            format!("AAA{}BBB,{}/{},{}/{}", o, r1, t1, r2, t2).into_bytes()
        }
    }
}

fn with_footer(base: &[u8], l: &Layout, footer: &[u8], newline_style: u64) -> Vec<u8> {
    let cut = l.footer.unwrap_or(base.len());
    let mut v = base[..cut].to_vec();
    match newline_style {
        0 => {
            v.extend_from_slice(footer);
        }
        1 => {
            v.push(b'\n');
            v.extend_from_slice(footer);
        }
        _ => {
            v.push(b'\n');
            v.extend_from_slice(footer);
            v.push(b'\n');
        }
    }
    v
}

fn outcome_of(rec: &mut Rec, rng: &mut Rng, bytes: &[u8], what: &str, family: &'static str, e2e_path: Option<&std::path::Path>) {
    rec.eval();
    rec.api("VerifTz::parse");
    rec.bin_s(format!("mutation/{}", family));
    rec.nontrivial(hash_bytes(bytes));
    let wit = |obs: Value| {
        let tail: Vec<u8> = bytes.iter().rev().take(60).rev().cloned().collect();
        json!({"mutation": what, "family": family, "file_len": bytes.len(), "file_tail": String::from_utf8_lossy(&tail), "file_hex_head": bytes.iter().take(48).map(|b| format!("{:02x}", b)).collect::<String>(), "observed": obs})
    };
    let parsed = trap(|| VerifTz::parse(bytes));
    let tz = match parsed {
        Err(p) => {
            rec.outcome("panic");
            rec.violation(format!("C19|parse|panic|{},{}", p.class, p.site()), || wit(p.to_json()));
            None
        }
        Ok(Err(_)) => {
            rec.outcome("error");
            None
        }
        Ok(Ok(tz)) => {
            rec.outcome("accepted");
            Some(tz)
        }
    };
    if let Some(tz) = tz {
        let mut ts = lookup_timestamps(rng);
        // where the file's own table can be read: every transition −1/0/+1 s and a point inside every interval
        // (inserted before the range-end timestamps, which stay last)
        if let Ok(Ok(r)) = trap(|| crate::model::tzif_ref::parse(bytes)) {
            let mut own: Vec<i64> = vec![];
            for w in r.transitions.iter().take(300) {
                own.extend_from_slice(&[w.saturating_sub(1), *w, w.saturating_add(1), w.saturating_add(86_400 * 20)]);
            }
            own.retain(|t| *t > MIN_TS + 86_400 * 800 && *t < MAX_TS - 86_400 * 800);
            let keep = ts.len() - 8;
            let tail = ts.split_off(keep);
            ts.extend(own);
            ts.extend(tail);
        }
        rec.api_n("VerifTz::offset", ts.len() as u64);
        let (mut inner_reported, mut edge_reported) = (false, false);
        for t in ts {
            rec.evals(1);
            let edge = t <= MIN_TS + 86_400 * 400 || t >= MAX_TS - 86_400 * 400;
            if (edge && edge_reported) || (!edge && inner_reported) {
                continue;
            }
            if let Err(p) = trap(|| tz.offset(t)) {
                let zone = if edge { "within-a-year-of-the-range-end" } else { "inside-the-range" };
                rec.violation(format!("C19|lookup|panic|{},{}|{}", p.class, p.site(), zone), || wit(json!({"timestamp": t, "panic": p.to_json()})));
                if edge {
                    edge_reported = true;
                } else {
                    inner_reported = true;
                }
            }
        }
    }
    if let Some(path) = e2e_path {
        if std::fs::write(path, bytes).is_ok() {
            rec.eval();
            rec.api("Offset::Local.resolve");
            rec.bin("end-to-end/Offset::Local-on-damaged-file");
            let t = 1_700_000_000 + rng.below(100_000_000) as i64;
            let r = trap(|| {
                astrolabe::verif::set_localtime_path(Some(path.to_path_buf()));
                astrolabe::verif::pin_now(Some(DateTime::from_timestamp(t)));
                let o = Offset::Local.resolve();
                astrolabe::verif::pin_now(None);
                astrolabe::verif::set_localtime_path(None);
                o
            });
            if let Err(p) = r {
                astrolabe::verif::pin_now(None);
                astrolabe::verif::set_localtime_path(None);
                rec.violation(format!("C19|Offset::Local|panic|{},{}", p.class, p.site()), || wit(json!({"now": t, "panic": p.to_json()})));
            }
        }
    }
    if rec.want_sample() {
        rec.sample(|| wit(json!("(see outcome counts)")));
    }
}

/// The enumerable structure-aware mutations of one base file.
fn structural_mutations(base: &[u8], l: &Layout) -> Vec<(String, &'static str, Vec<u8>)> {
    let mut out: Vec<(String, &'static str, Vec<u8>)> = vec![];
    // header counts
    for (hi, h) in l.headers.iter().enumerate() {
        for field in 0..6usize {
            let pos = h + 20 + 4 * field;
            let exact = be32(base, pos).unwrap_or(0) as u64;
            for v in [0u64, 1, exact + 1, exact.saturating_sub(1), 1 << 16, u32::MAX as u64] {
                if v == exact {
                    continue;
                }
                let mut b = base.to_vec();
                b[pos..pos + 4].copy_from_slice(&(v as u32).to_be_bytes());
                out.push((format!("header#{} count#{} {} -> {}", hi, field, exact, v), "header-count", b));
            }
        }
        // version byte
        for v in [0u8, b'2', b'3', b'4', 0xFF, b'1'] {
            if base[h + 4] == v {
                continue;
            }
            let mut b = base.to_vec();
            b[h + 4] = v;
            out.push((format!("header#{} version -> {:#x}", hi, v), "version-byte", b));
        }
    }
    // transition type indices
    for (bi, (pos, n, typ)) in l.type_arrays.iter().enumerate() {
        for k in 0..*n {
            if pos + k >= base.len() {
                break;
            }
            for v in [typ.saturating_sub(1) as u8, *typ as u8, 255u8] {
                if base[pos + k] == v {
                    continue;
                }
                let mut b = base.to_vec();
                b[pos + k] = v;
                out.push((format!("block#{} transition#{} type index -> {} (typecnt {})", bi, k, v, typ), "type-index", b));
            }
        }
    }
    // every truncation point (large files: every point of the first and last 1500 bytes, strided in between)
    for cut in 0..base.len() {
        if base.len() > 3_000 && cut > 1_500 && cut + 1_500 < base.len() && cut % 17 != 0 {
            continue;
        }
        out.push((format!("truncated to {} of {} bytes", cut, base.len()), "truncation", base[..cut].to_vec()));
    }
    out
}

pub fn run(ctx: &Ctx) -> PropResult {
    let mut gen_footers: Vec<String> = vec![];
    for rule in ["M3.5.0", "M10.1.6", "M2.5.1", "J60", "J1", "59", "0", "365", "M12.5.6"] {
        for (std, dst, delta_h) in [("-1", "", 1i32), ("-1", "-3", 2), ("0", "0", 0), ("5", "6", -1), ("-1", "-1", 0), ("3", "", 1), ("-12", "-13", 1), ("0", "-0:30", 0)] {
            for t in [0i32, 2, 23] {
                gen_footers.push(format!("AAA{}BBB{},{}/{},{}/{}", std, dst, rule, t, rule, t + delta_h));
                gen_footers.push(format!("AAA{}BBB{},{}/{},{}/{}", std, dst, rule, t + delta_h, rule, t));
            }
        }
    }
    for prefix in ["", ":", "<", "<AAA", "AAA", "AAA-1", "AAA-1BBB", "AAA-1BBB,", "AAA-1BBB,M", "AAA-1BBB,M3.", "AAA-1BBB,M3.5.0/", "AAA-1BBB,J", "AAA-1<", ":AAA-1BBB,M3.5.0,M10.5.0"] {
        for t in straddlers(300) {
            gen_footers.push(format!("{}{}", prefix, t));
        }
    }
    let gfr = &gen_footers;
    // base files: a spread of corpus files (small and large, fat and slim) and synthetic v1/v2/v3 files
    let mut bases: Vec<(String, Vec<u8>)> = vec![];
    let files = corpus_files();
    let vend: Vec<&(String, std::path::PathBuf)> = files.iter().filter(|(n, _)| !n.starts_with("system/")).collect();
    let nb = ctx.n(24, 160) as usize;
    let mut rng = Rng::new(ctx.seed ^ hash_str("C19-bases"));
    for _ in 0..nb {
        let (n, p) = *rng.pick(&vend);
        if let Ok(b) = std::fs::read(p) {
            if b.len() <= 4_000 || rng.chance(1, 8) {
                bases.push((n.clone(), b));
            }
        }
    }
    for k in 0..ctx.n(16, 80) {
        let s = gen_synth(&mut rng);
        bases.push((format!("synthetic#{}", k), s.bytes()));
    }
    // files with a full (or almost full) type table: the type index is one byte, so 254 / 255 / 256 types are where
    // "index < count" and "index <= 255" stop meaning the same thing
    for ntypes in [254usize, 255, 256] {
        for version in [1u8, 2] {
            let types: Vec<(i32, bool)> = (0..ntypes).map(|k| (((k as i32 % 27) - 13) * 1800, k % 2 == 1)).collect();
            let n_tr = 14usize;
            let transitions: Vec<i64> = (0..n_tr as i64).map(|k| -400_000_000 + k * 190_000_000 + rng.range_i64(0, 1_000_000)).collect();
            let type_idx: Vec<u8> = (0..n_tr).map(|k| if k == n_tr - 1 { 0 } else { *rng.pick(&[0u8, 1, 2, (ntypes - 1).min(255) as u8, (ntypes - 2) as u8, 100]) }).collect();
            let footer = if version >= 2 { "XXX6:30".to_string() } else { String::new() };
            let mut types = types;
            types[0] = (-23_400, false);
            let s = crate::model::tzif_gen::Synth { version, transitions, type_idx, types, footer, desigs: None };
            bases.push((format!("synthetic-v{}-with-{}-types", version, ntypes), s.bytes()));
        }
    }
    let layouts: Vec<Layout> = bases.iter().map(|(_, b)| layout(b)).collect();
    let muts: Vec<Vec<(String, &'static str, Vec<u8>)>> = bases.iter().zip(layouts.iter()).map(|((_, b), l)| structural_mutations(b, l)).collect();
    let mut offsets = vec![0u64];
    for m in muts.iter() {
        offsets.push(offsets.last().unwrap() + m.len() as u64);
    }
    let total = *offsets.last().unwrap();
    let (br, lr, mr, or) = (&bases, &layouts, &muts, &offsets);
    let out_dir = verif_root().join("harness/target/out/tzhostile");
    let _ = std::fs::create_dir_all(&out_dir);
    let od = &out_dir;
    let pid = std::process::id();
    // every numeric slot of six footer shapes x a ladder of magnitudes, under version 2 and 3 (enumerated)
    let ladder = number_ladder();
    let mut ladder_cases: Vec<(usize, usize, usize)> = vec![];
    for (ti, t) in LADDER_TEMPLATES.iter().enumerate() {
        for si in 0..digit_runs(t.as_bytes()).len() {
            for li in 0..ladder.len() {
                ladder_cases.push((ti, si, li));
            }
        }
    }
    let (ladr, lcr) = (&ladder, &ladder_cases);
    let mut wls = vec![];
    wls.push(Workload::cases("structural_mutations_enumerated", total, move |rec, idx, rng| {
        let bi = or.partition_point(|o| *o <= idx) - 1;
        let (what, family, bytes) = &mr[bi][(idx - or[bi]) as usize];
        let path = od.join(format!("hostile_{}_{}.tzif", pid, idx % 64));
        let e2e = if idx % 50 == 0 { Some(path.as_path()) } else { None };
        outcome_of(rec, rng, bytes, &format!("{}: {}", br[bi].0, what), family, e2e);
    }));
    wls.push(Workload::cases("hostile_footers", ctx.count(60_000, 4_000_000), move |rec, idx, rng| {
        let bi = rng.below(br.len() as u64) as usize;
        let (name, base) = &br[bi];
        // footers only exist in v2+; for a v1 base promote the version bytes
        let footer = mutate_footer(rng);
        let style = match rng.below(8) {
            0 => 0,
            1 => 1,
            _ => 2,
        };
        let mut bytes = with_footer(base, &lr[bi], &footer, style);
        if lr[bi].headers.len() == 2 && rng.chance(1, 2) {
            // make the footer's /time extension legal or not
            let v = *rng.pick(&[b'2', b'3']);
            bytes[4] = v;
            let h2 = lr[bi].headers[1];
            bytes[h2 + 4] = v;
        }
        let path = od.join(format!("hostile_{}_f{}.tzif", pid, idx % 64));
        let e2e = if idx % 50 == 0 { Some(path.as_path()) } else { None };
        outcome_of(rec, rng, &bytes, &format!("{}: footer replaced by {:?}", name, String::from_utf8_lossy(&footer)), "footer", e2e);
    }));
    wls.push(Workload::cases("hostile_footers_on_empty_table", HOSTILE_FOOTERS.len() as u64 * 2, |rec, idx, rng| {
        // the smallest v3 file: two all-zero headers and a footer (this shape parses in the crate's own tests)
        let f = HOSTILE_FOOTERS[(idx / 2) as usize];
        let mut header = b"TZif3".to_vec();
        header.extend_from_slice(&[0u8; 15 + 24]);
        let mut bytes = [header.clone(), header].concat();
        if idx % 2 == 1 {
            bytes[4] = b'2';
            bytes[44 + 4] = b'2';
        }
        bytes.push(b'\n');
        bytes.extend_from_slice(f.as_bytes());
        bytes.push(b'\n');
        outcome_of(rec, rng, &bytes, &format!("empty table + footer {:?}", f), "footer-on-empty-table", None);
    }));
    // generated hostile footers on the empty table: (a) both rules denoting the same instant in every year (the second
    // rule's wall-clock time shifted by exactly the difference of the two offsets; equal offsets with equal rules) —
    // the "impossible" tie in a chain of comparisons; (b) cut-position straddlers behind every footer prefix (a reader
    // that quotes part of the text in its error cuts it somewhere)
    wls.push(Workload::cases("generated_hostile_footers_on_empty_table", gen_footers.len() as u64 * 2, move |rec, idx, rng| {
        let f = &gfr[(idx / 2) as usize];
        let mut header = b"TZif3".to_vec();
        header.extend_from_slice(&[0u8; 15 + 24]);
        let mut bytes = [header.clone(), header].concat();
        if idx % 2 == 1 {
            bytes[4] = b'2';
            bytes[44 + 4] = b'2';
        }
        bytes.push(b'\n');
        bytes.extend_from_slice(f.as_bytes());
        bytes.push(b'\n');
        let path = od.join(format!("hostile_{}_g{}.tzif", pid, idx % 64));
        let e2e = if idx % 25 == 0 { Some(path.as_path()) } else { None };
        outcome_of(rec, rng, &bytes, &format!("empty table + generated footer {:?}", f.chars().take(80).collect::<String>()), "generated-footer", e2e);
    }));
    wls.push(Workload::cases("footer_number_ladder_enumerated", ladder_cases.len() as u64 * 2, move |rec, idx, rng| {
        let (ti, si, li) = lcr[(idx / 2) as usize];
        let t = LADDER_TEMPLATES[ti].as_bytes();
        let (s, e) = digit_runs(t)[si];
        let mut footer = t[..s].to_vec();
        footer.extend_from_slice(ladr[li].as_bytes());
        footer.extend_from_slice(&t[e..]);
        let v = if idx % 2 == 0 { b'3' } else { b'2' };
        let mut header = b"TZif".to_vec();
        header.push(v);
        header.extend_from_slice(&[0u8; 15 + 24]);
        let mut bytes = [header.clone(), header].concat();
        bytes.push(b'\n');
        bytes.extend_from_slice(&footer);
        bytes.push(b'\n');
        rec.bin("footer-ladder/numeric-slot-x-magnitude");
        outcome_of(rec, rng, &bytes, &format!("empty table + footer {:?}", String::from_utf8_lossy(&footer)), "footer-number-ladder", None);
    }));
    wls.push(Workload::cases("random_damage", ctx.count(60_000, 4_000_000), move |rec, idx, rng| {
        let bi = rng.below(br.len() as u64) as usize;
        let (name, base) = &br[bi];
        let mut b = base.clone();
        let n = 1 + rng.below(4);
        for _ in 0..n {
            if b.is_empty() {
                break;
            }
            let p = rng.below(b.len() as u64) as usize;
            match rng.below(5) {
                0 => b[p] = rng.next() as u8,
                1 => b[p] = *rng.pick(&[0u8, 0xFF, 0x7F, 0x80, 1]),
                2 => {
                    // damage near a header count
                    if let Some(h) = lr[bi].headers.last() {
                        let q = (h + 20 + rng.below(24) as usize).min(b.len() - 1);
                        b[q] = rng.next() as u8;
                    }
                }
                3 => {
                    b.remove(p);
                }
                _ => b.insert(p, rng.next() as u8),
            }
        }
        let path = od.join(format!("hostile_{}_r{}.tzif", pid, idx % 64));
        let e2e = if idx % 50 == 0 { Some(path.as_path()) } else { None };
        outcome_of(rec, rng, &b, &format!("{}: {} random byte edits", name, n), "random-bytes", e2e);
    }));
    // self-aligned files whose header fields were all drawn independently (see tzif_gen::gen_frankenstein)
    wls.push(Workload::cases("self_aligned_files_with_independent_header_fields", ctx.count(60_000, 3_000_000), move |rec, idx, rng| {
        let (bytes, desc) = crate::model::tzif_gen::gen_frankenstein(rng);
        let path = od.join(format!("hostile_{}_f{}.tzif", pid, idx % 64));
        let e2e = if idx % 50 == 0 { Some(path.as_path()) } else { None };
        outcome_of(rec, rng, &bytes, &desc, "independent-header-fields", e2e);
    }));
    // "cannot abort the program" — whatever the process environment says about time zones
    wls.push(Workload::cases("offset_local_under_hostile_process_environments", super::envprobe::env_cases(), |rec, idx, _| super::envprobe::judge_env(rec, "C19", idx)));
    wls.push(Workload::cases("degenerate_inputs", 1, |rec, _, rng| {
        for (what, bytes) in [
            ("empty file", vec![]),
            ("magic only", b"TZif".to_vec()),
            ("64 KiB of zeros", vec![0u8; 65_536]),
            ("1 MiB of 0xFF", vec![0xFFu8; 1 << 20]),
            ("magic + 1 MiB of 0xFF", [b"TZif2".to_vec(), vec![0xFFu8; 1 << 20]].concat()),
            ("text file", b"Europe/Berlin\n".to_vec()),
        ] {
            outcome_of(rec, rng, &bytes, what, "degenerate", None);
        }
    }));
    let out = run_workloads(ctx, wls);
    // scratch files of the end-to-end route
    if let Ok(rd) = std::fs::read_dir(&out_dir) {
        for e in rd.flatten() {
            if e.file_name().to_string_lossy().starts_with(&format!("hostile_{}_", pid)) {
                let _ = std::fs::remove_file(e.path());
            }
        }
    }
    let mut meta = PropMeta::default();
    meta.rule = format!(
        "{} base files (vendored IANA files, fat and slim, and synthetic v1/v2/v3 files). ENUMERATED per base: every header count of both headers x {{0, 1, exact±1, 2^16, 2^32−1}}, the version byte x {{0,'1','2','3','4',0xFF}}, every transition's type index x {{typecnt−1, typecnt, 255}}, every truncation point ({} mutated files). Footers: {} hand-written hostile POSIX-TZ strings (month 0/13/99/256, week 0/6/9/256, day 7/9/255, J0, J366, 365/366, 12-digit numbers in every numeric slot, missing parts, unterminated <, NUL, ':' forms, offsets 24/25/167/168 h) and grammar-aware mutations (one numeric slot replaced, byte damage incl. non-UTF-8, colliding / year-boundary rules), with and without the enclosing newlines, under version 2 and 3; ENUMERATED magnitude ladder: every numeric slot of six footer shapes x every value 10^k±1 (k ≤ 22), 2^k±1 (k ≤ 66) and ⌊2^31|2^32|2^63|2^64 / 60|3600|86400|604800⌋±1 (numbers that fit their integer type but not after conversion to seconds); random byte damage; degenerate inputs. Every parsed result is looked up at the DateTime range ends, 0, ±2^31, Feb 28–Mar 1 / Dec 31 / Jan 1 of eight years and 40 random timestamps; 1/50 of the files additionally as /etc/localtime through Offset::Local.resolve(). Outcome classes {{error, accepted, panic}} — only a panic (or a hang, caught by the watchdog) is a violation. Non-trivial = every mutated file; distinct by hash of the bytes. Bases include files with 254, 255 and 256 local time types (v1 and v2). Accepted files are additionally looked up at every transition −1/0/+1 s and inside every interval of their own table.",
        bases.len(), total, HOSTILE_FOOTERS.len()
    );
    meta.rule.push_str(" Self-aligned files whose header fields are all drawn independently (version byte of each header, 4- or 8-byte transition times in the second block, all six counts incl. leap records and unequal indicator counts, non-zero indicator bytes) with the body written to match, valid footer behind: inconsistent yet readable to the end. The Offset::Local battery (resolve, getters, setters, format, now, parse) in child processes under hostile environments (TZ, TZDIR, LANG, LC_*, HOME, TMPDIR unset / empty / colon / multi-byte / very long / nonexistent): no abort. Generated footers: both rules denoting the same instant every year (second time shifted by the offset difference; 9 rule forms x 8 offset pairs x 3 times, both orders), and cut-position straddlers behind 14 footer prefixes.");
    meta.required_bins = vec![
        "mutation/header-count", "mutation/version-byte", "mutation/type-index", "mutation/truncation", "mutation/footer", "mutation/footer-on-empty-table", "mutation/footer-number-ladder", "mutation/random-bytes", "mutation/degenerate", "mutation/independent-header-fields", "mutation/generated-footer", "environment/child-ok",
        "end-to-end/Offset::Local-on-damaged-file",
    ];
    meta.assumptions = vec!["which error is returned, and whether a malformed-but-harmless file is accepted, are not judged".into()];
    Ok((meta, out))
}
