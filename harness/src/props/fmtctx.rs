//! "Fields in random company": what one symbol prints must not depend on which other symbols share the pattern
//! (a formatter that looks at the whole pattern first — "is there a k field?", "is there any calendar field?" — and
//! then shifts the day or skips a conversion breaks exactly this).  Patterns here are 1–6 *distinct* symbols of the
//! type with random widths in random order, joined by a separator none of the renderings contains.
use crate::core::Rng;
use crate::model::fmt_spec::{Kind, DATE_SYMBOLS, TIME_SYMBOLS};

#[allow(dead_code)]
pub const SEP: char = '|';

/// (symbol, width) tokens: at least one symbol from `must` (if non-empty), the rest from the type's table.
/// `zone` = whether the zone symbols X/x may take part.
pub fn company(rng: &mut Rng, kind: Kind, must: &[char], zone: bool) -> Vec<(char, usize)> {
    let mut pool: Vec<char> = match kind {
        Kind::Date => DATE_SYMBOLS.chars().collect(),
        Kind::Time => TIME_SYMBOLS.chars().collect(),
        Kind::DateTime => DATE_SYMBOLS.chars().chain(TIME_SYMBOLS.chars()).collect(),
    };
    if !zone {
        pool.retain(|c| *c != 'X' && *c != 'x');
    }
    let mut toks: Vec<(char, usize)> = vec![];
    let width = |rng: &mut Rng| -> usize {
        match rng.below(4) {
            0 => 1,
            1 => 2,
            _ => 1 + rng.below(8) as usize,
        }
    };
    if !must.is_empty() {
        let c = *rng.pick(must);
        pool.retain(|x| *x != c);
        toks.push((c, width(rng)));
    }
    // mostly small companies: one or two other fields (the decisive conjunctions are pairs)
    let extra = match rng.below(6) {
        0 => 0,
        1 | 2 => 1,
        3 => 2,
        _ => rng.below(6),
    };
    for _ in 0..extra {
        if pool.is_empty() {
            break;
        }
        let c = pool.remove(rng.below(pool.len() as u64) as usize);
        toks.push((c, width(rng)));
    }
    for i in (1..toks.len()).rev() {
        let j = rng.below(i as u64 + 1) as usize;
        toks.swap(i, j);
    }
    toks
}

#[allow(dead_code)]
pub fn join(toks: &[(char, usize)]) -> String {
    let mut p = String::new();
    for (k, (c, w)) in toks.iter().enumerate() {
        if k > 0 {
            p.push(SEP);
        }
        for _ in 0..*w {
            p.push(*c);
        }
    }
    p
}
