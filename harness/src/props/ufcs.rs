//! Trait dispatch vs method syntax.  `a.micros_since(&b)` on a concrete type calls an *inherent* method if the type has
//! one and the trait method only otherwise; generic code (`fn f<T: TimeUtilities>(a: &T)`), trait objects and
//! `TimeUtilities::micros_since(&a, &b)` always call the trait method.  If a type grows inherent twins of its trait
//! methods (a common refactoring: "forward the trait to inherent functions"), the two routes can drift apart and every
//! monitor written in method syntax keeps testing the inherent one only.  Here the whole surface of DateUtilities,
//! TimeUtilities and OffsetUtilities is evaluated both ways on the same operands and must agree (relative check; the
//! method-syntax route is what the rest of each monitor judges against the models).
use crate::core::*;
use crate::model::instant::*;
use astrolabe::{Date, DateTime, DateUtilities, Offset, OffsetUtilities, Time, TimeUtilities};
use serde_json::json;
use std::fmt::Debug;

fn obs<R: Debug>(f: impl FnOnce() -> R + std::panic::UnwindSafe) -> String {
    match trap(f) {
        Ok(v) => format!("{:?}", v),
        Err(p) => format!("PANIC {}", p.class),
    }
}

const DATE_NAMES: [&str; 23] = ["year", "month", "day", "day_of_year", "weekday", "timestamp", "set_year", "set_month", "set_day", "set_day_of_year", "add_years", "add_months", "add_days", "sub_years", "sub_months", "sub_days", "clear_until_year", "clear_until_month", "clear_until_day", "years_since", "months_since", "days_since", "from_timestamp"];
macro_rules! date_surface {
    ($t:ty, $a:expr, $b:expr, $n:expr, $y:expr, $ts:expr) => {
        vec![
            obs(|| $a.year()), obs(|| $a.month()), obs(|| $a.day()), obs(|| $a.day_of_year()), obs(|| $a.weekday()), obs(|| $a.timestamp()),
            obs(|| $a.set_year($y)), obs(|| $a.set_month($n % 14)), obs(|| $a.set_day($n % 33)), obs(|| $a.set_day_of_year($n % 368)),
            obs(|| $a.add_years($n)), obs(|| $a.add_months($n)), obs(|| $a.add_days($n)), obs(|| $a.sub_years($n)), obs(|| $a.sub_months($n)), obs(|| $a.sub_days($n)),
            obs(|| $a.clear_until_year()), obs(|| $a.clear_until_month()), obs(|| $a.clear_until_day()),
            obs(|| $a.years_since(&$b)), obs(|| $a.months_since(&$b)), obs(|| $a.days_since(&$b)), obs(|| <$t>::from_timestamp($ts)),
        ]
    };
}
const TIME_NAMES: [&str; 36] = ["hour", "minute", "second", "milli", "micro", "nano", "set_hour", "set_minute", "set_second", "set_milli", "set_micro", "set_nano", "add_hours", "add_minutes", "add_seconds", "add_millis", "add_micros", "add_nanos", "sub_hours", "sub_minutes", "sub_seconds", "sub_millis", "sub_micros", "sub_nanos", "clear_until_hour", "clear_until_minute", "clear_until_second", "clear_until_milli", "clear_until_micro", "clear_until_nano", "hours_since", "minutes_since", "seconds_since", "millis_since", "micros_since", "nanos_since"];
macro_rules! time_surface {
    ($a:expr, $b:expr, $n:expr) => {
        vec![
            obs(|| $a.hour()), obs(|| $a.minute()), obs(|| $a.second()), obs(|| $a.milli()), obs(|| $a.micro()), obs(|| $a.nano()),
            obs(|| $a.set_hour($n % 25)), obs(|| $a.set_minute($n % 61)), obs(|| $a.set_second($n % 61)), obs(|| $a.set_milli($n % 1_001)), obs(|| $a.set_micro($n % 1_000_001)), obs(|| $a.set_nano($n)),
            obs(|| $a.add_hours($n)), obs(|| $a.add_minutes($n)), obs(|| $a.add_seconds($n)), obs(|| $a.add_millis($n)), obs(|| $a.add_micros($n)), obs(|| $a.add_nanos($n)),
            obs(|| $a.sub_hours($n)), obs(|| $a.sub_minutes($n)), obs(|| $a.sub_seconds($n)), obs(|| $a.sub_millis($n)), obs(|| $a.sub_micros($n)), obs(|| $a.sub_nanos($n)),
            obs(|| $a.clear_until_hour()), obs(|| $a.clear_until_minute()), obs(|| $a.clear_until_second()), obs(|| $a.clear_until_milli()), obs(|| $a.clear_until_micro()), obs(|| $a.clear_until_nano()),
            obs(|| $a.hours_since(&$b)), obs(|| $a.minutes_since(&$b)), obs(|| $a.seconds_since(&$b)), obs(|| $a.millis_since(&$b)), obs(|| $a.micros_since(&$b)), obs(|| $a.nanos_since(&$b)),
        ]
    };
}
const OFFSET_NAMES: [&str; 3] = ["set_offset", "as_offset", "get_offset"];
macro_rules! offset_surface {
    ($a:expr, $o:expr) => {
        vec![obs(|| $a.set_offset($o)), obs(|| $a.as_offset($o)), obs(|| $a.get_offset())]
    };
}

// generic = always the trait's method
fn date_via_trait<T: DateUtilities + Debug + Copy + std::panic::RefUnwindSafe>(a: T, b: T, n: u32, y: i32, ts: i64) -> Vec<String> {
    date_surface!(T, a, b, n, y, ts)
}
fn time_via_trait<T: TimeUtilities + Debug + Copy + std::panic::RefUnwindSafe>(a: T, b: T, n: u32) -> Vec<String>
where
    T::SubDayReturn: Debug,
    T::SubSecReturn: Debug,
{
    time_surface!(a, b, n)
}
fn offset_via_trait<T: OffsetUtilities + Debug + Copy + std::panic::RefUnwindSafe>(a: T, o: Offset) -> Vec<String> {
    offset_surface!(a, o)
}

/// Which methods a property owns (by name prefix).
fn owned(prop: &str, name: &str) -> bool {
    match prop {
        "C06" => name.ends_with("_since") && !name.starts_with("months") && !name.starts_with("years"),
        "C07" => name == "months_since" || name == "years_since",
        "C04" => (name.starts_with("add_") || name.starts_with("sub_")) && !name.ends_with("months") && !name.ends_with("years"),
        "C05" => name.ends_with("_months") || name.ends_with("_years"),
        "C09" => name.starts_with("set_") && name != "set_offset" || name.starts_with("clear_") || ["year", "month", "day", "day_of_year", "weekday", "hour", "minute", "second", "milli", "micro", "nano"].contains(&name),
        "C10" => ["set_offset", "as_offset", "get_offset"].contains(&name),
        "C03" => name == "timestamp" || name == "from_timestamp",
        _ => false,
    }
}

pub fn case(rec: &mut Rec, rng: &mut Rng, prop: &'static str) {
    rec.eval();
    rec.api("trait dispatch vs method syntax");
    rec.bin("trait-dispatch/compared");
    let (i, _) = gen_instant(rng, 3);
    let j = match rng.below(3) {
        0 => i,
        1 => (i + crate::model::magic::gen_delta(rng)).clamp(MIN_INSTANT + 3 * D, MAX_INSTANT - 3 * D),
        _ => gen_instant(rng, 3).0,
    };
    let (o1, o2) = (gen_offset(rng), gen_offset(rng));
    rec.nontrivial(hash_i128s(&[i, j, o1 as i128, o2 as i128, 0xFC5]));
    let n: u32 = match rng.below(4) {
        0 => rng.below(70) as u32,
        1 => rng.next() as u32,
        2 => *rng.pick(&[0u32, 1, 12, 24, 59, 60, 999, 1_000, 86_400, u32::MAX]),
        _ => rng.below(100_000) as u32,
    };
    let y = rng.range_i64(-5_879_700, 5_879_700) as i32;
    let ts = rng.range_i64(-200_000_000_000, 200_000_000_000);
    let (Some((a, _)), Some((b, _))) = (sane_value(i, o1), sane_value(j, o2)) else {
        rec.bin(super::diff::SKIP_START);
        return;
    };
    let o = Offset::Fixed(gen_offset(rng));
    let mut pairs: Vec<(&'static str, &'static str, String, String)> = vec![];
    let mut add = |ty: &'static str, names: &[&'static str], m: Vec<String>, t: Vec<String>| {
        for (k, name) in names.iter().enumerate() {
            pairs.push((ty, name, m[k].clone(), t[k].clone()));
        }
    };
    // DateTime
    add("DateTime", &DATE_NAMES, date_surface!(DateTime, a, b, n, y, ts), date_via_trait(a, b, n, y, ts));
    add("DateTime", &TIME_NAMES, time_surface!(a, b, n), time_via_trait(a, b, n));
    add("DateTime", &OFFSET_NAMES, offset_surface!(a, o), offset_via_trait(a, o));
    // Date
    if let (Ok(da), Ok(db)) = (trap(|| Date::from(a)), trap(|| Date::from(b))) {
        add("Date", &DATE_NAMES, date_surface!(Date, da, db, n, y, ts), date_via_trait(da, db, n, y, ts));
    }
    // Time
    if let (Ok(ta), Ok(tb)) = (trap(|| Time::from(a).set_offset(Offset::Fixed(o1))), trap(|| Time::from(b).set_offset(Offset::Fixed(o2)))) {
        add("Time", &TIME_NAMES, time_surface!(ta, tb, n), time_via_trait(ta, tb, n));
        add("Time", &OFFSET_NAMES, offset_surface!(ta, o), offset_via_trait(ta, o));
    }
    for (ty, name, m, t) in pairs {
        if m != t && owned(prop, name) {
            rec.violation(format!("{}|trait-dispatch|{}::{}|trait-method-differs-from-method-syntax", prop, ty, name), || json!({"type": ty, "method": name, "a": {"instant": show(i), "offset": o1}, "b": {"instant": show(j), "offset": o2}, "count": n, "year": y, "method_syntax": m, "through_the_trait": t}));
        }
    }
}
