//! C07 — months_since / years_since count whole calendar months and years.

use super::PropResult;
use crate::core::*;
use crate::model::calendar as cal;
use crate::model::instant::*;
use super::diff::*;
use astrolabe::{DateTime, DateUtilities};
use serde_json::{json, Value};

/// Model: for (a_day, a_tod) >= (b_day, b_tod) and dom(b) <= 28, the unique n >= 0 with
/// b + n months <= a < b + (n+1) months (model month shift, lexicographic (day, time-of-day) order).
fn model_months(a: (i64, i128), b: (i64, i128)) -> i64 {
    debug_assert!(a >= b);
    let (ya, ma, _) = cal::civil_from_days(a.0);
    let (yb, mb, _) = cal::civil_from_days(b.0);
    let n0 = (ya * 12 + ma as i64) - (yb * 12 + mb as i64);
    for n in [n0 - 1, n0, n0 + 1] {
        if n < 0 {
            continue;
        }
        let lo = (cal::shift_months(b.0, n), b.1);
        let hi = (cal::shift_months(b.0, n + 1), b.1);
        if lo <= a && a < hi {
            return n;
        }
    }
    panic!("model_months: no n for {:?} {:?}", a, b);
}


fn dom(day: i64) -> u32 {
    cal::ymd(day).2
}

fn pair_class(a: i64, b: i64) -> &'static str {
    let (ya, ma, da) = cal::ymd(a);
    let (yb, mb, db) = cal::ymd(b);
    if a == b {
        "pair/same-day"
    } else if (a < 0) != (b < 0) {
        "pair/straddles-era"
    } else if ya == yb && ma == mb {
        "pair/same-month"
    } else if ya == yb {
        if (a > b && da < db) || (a < b && da > db) {
            "pair/same-year-day-borrow"
        } else {
            "pair/same-year"
        }
    } else if (a > b && (ma, da) < (mb, db)) || (a < b && (ma, da) > (mb, db)) {
        "pair/year-borrow"
    } else {
        "pair/multi-year"
    }
}

/// All ordered pairs (a, b) of one b against every a in the window, in ascending a — gives value,
/// antisymmetry and monotonicity verdicts in one pass.
fn judge_row_dates(rec: &mut Rec, lo: i64, hi: i64, b: i64) {
    let Some(bd) = sane_date(b) else {
        rec.bin(SKIP_START);
        return;
    };
    let bdom = dom(b);
    let mut prev: Option<(i64, i32, i32)> = None;
    for a in lo..=hi {
        rec.eval();
        let cls = pair_class(a, b);
        rec.bin(cls);
        let Some(ad) = sane_date(a) else {
            rec.bin(SKIP_START);
            prev = None;
            continue;
        };
        let r = trap(|| (ad.months_since(&bd), ad.years_since(&bd), bd.months_since(&ad), bd.years_since(&ad)));
        let wit = |obs: Value| {
            let (x, y) = (cal::ymd(a), cal::ymd(b));
            json!({"a": [x.0, x.1, x.2], "b": [y.0, y.1, y.2], "class": cls, "observed": obs})
        };
        match r {
            Err(p) => {
                rec.violation(format!("C07|dates|months_since/years_since|panic|{},{}", p.class, p.site()), || wit(p.to_json()));
                prev = None;
            }
            Ok((m_ab, y_ab, m_ba, y_ba)) => {
                if m_ab != -m_ba {
                    rec.violation(format!("C07|dates|Date::months_since|not-antisymmetric|{}", cls), || wit(json!({"a.months_since(b)": m_ab, "b.months_since(a)": m_ba})));
                }
                if y_ab != -y_ba {
                    rec.violation(format!("C07|dates|Date::years_since|not-antisymmetric|{}", cls), || wit(json!({"a.years_since(b)": y_ab, "b.years_since(a)": y_ba})));
                }
                // value claim whenever the earlier date's day of month is <= 28
                let (later, earlier, sign) = if a >= b { (a, b, 1i64) } else { (b, a, -1) };
                if dom(earlier) <= 28 {
                    rec.bin("value-claim/checked");
                    let n = model_months((later, 0), (earlier, 0));
                    if m_ab as i64 != sign * n {
                        rec.violation(format!("C07|dates|Date::months_since|wrong-value|{},observed-expected={}", cls, (m_ab as i64 - sign * n).clamp(-3, 3)), || wit(json!({"months_since": m_ab, "expected": sign * n})));
                    }
                    if y_ab as i64 != sign * (n / 12) {
                        rec.violation(format!("C07|dates|Date::years_since|wrong-value|{},observed-expected={}", cls, (y_ab as i64 - sign * (n / 12)).clamp(-3, 3)), || wit(json!({"years_since": y_ab, "expected": sign * (n / 12), "months": n})));
                    }
                } else {
                    rec.bin("value-claim/skipped-dom>28");
                }
                if let Some((pa, pm, py)) = prev {
                    if m_ab < pm {
                        rec.violation(format!("C07|dates|Date::months_since|not-monotone-in-a|{}", cls), || wit(json!({"a_prev_day": pa, "months_since(prev)": pm, "months_since(a)": m_ab})));
                    }
                    if y_ab < py {
                        rec.violation(format!("C07|dates|Date::years_since|not-monotone-in-a|{}", cls), || wit(json!({"a_prev_day": pa, "years_since(prev)": py, "years_since(a)": y_ab})));
                    }
                }
                prev = Some((a, m_ab, y_ab));
            }
        }
        if cls != "pair/multi-year" && cls != "pair/same-year" {
            rec.nontrivial(hash_i128s(&[a as i128, b as i128]));
        }
        if rec.want_sample() {
            rec.sample(|| wit(json!({"model_months (if claimed)": if a >= b && bdom <= 28 { Some(model_months((a, 0), (b, 0))) } else { None }})));
        }
    }
    rec.api_n("Date::months_since", 2 * (hi - lo + 1) as u64);
    rec.api_n("Date::years_since", 2 * (hi - lo + 1) as u64);
}

fn judge_dt_pair(rec: &mut Rec, a: (i64, i128), b: (i64, i128), tag: &'static str) {
    rec.eval();
    rec.api("DateTime::months_since");
    rec.bin(tag);
    rec.nontrivial(hash_i128s(&[a.0 as i128, a.1, b.0 as i128, b.1]));
    let ia = a.0 as i128 * D + a.1;
    let ib = b.0 as i128 * D + b.1;
    let (Some((x, _)), Some((y, _))) = (sane_value(ia, 0), sane_value(ib, 0)) else {
        rec.bin(SKIP_START);
        return;
    };
    let r = trap(|| (x.months_since(&y), x.years_since(&y), y.months_since(&x), y.years_since(&x)));
    let wit = |obs: Value| json!({"a": show(ia), "b": show(ib), "class": tag, "observed": obs});
    match r {
        Err(p) => rec.violation(format!("C07|datetimes|months_since/years_since|panic|{},{}", p.class, p.site()), || wit(p.to_json())),
        Ok((m_ab, y_ab, m_ba, y_ba)) => {
            if m_ab != -m_ba || y_ab != -y_ba {
                rec.violation(format!("C07|datetimes|DateTime::months/years_since|not-antisymmetric|{}", tag), || wit(json!({"m_ab": m_ab, "m_ba": m_ba, "y_ab": y_ab, "y_ba": y_ba})));
            }
            let (later, earlier, sign) = if a >= b { (a, b, 1i64) } else { (b, a, -1) };
            if dom(earlier.0) <= 28 {
                let n = model_months(later, earlier);
                if m_ab as i64 != sign * n {
                    rec.violation(format!("C07|datetimes|DateTime::months_since|wrong-value|{},observed-expected={}", tag, (m_ab as i64 - sign * n).clamp(-3, 3)), || wit(json!({"months_since": m_ab, "expected": sign * n})));
                }
                if y_ab as i64 != sign * (n / 12) {
                    rec.violation(format!("C07|datetimes|DateTime::years_since|wrong-value|{},observed-expected={}", tag, (y_ab as i64 - sign * (n / 12)).clamp(-3, 3)), || wit(json!({"years_since": y_ab, "expected": sign * (n / 12)})));
                }
            }
        }
    }
    if rec.want_sample() {
        rec.sample(|| wit(json!("(see verdict)")));
    }
}

pub fn run(ctx: &Ctx) -> PropResult {
    let w1 = (cal::days_from_civil(2019, 12, 1), cal::days_from_civil(2024, 3, 31));
    let w2 = (cal::days_from_civil(-2, 1, 1), cal::days_from_civil(3, 12, 31)); // display −3-01-01 … 3-12-31
    let w3 = (cal::days_from_civil(1899, 6, 1), cal::days_from_civil(1901, 6, 30)); // common century year
    let mut wls = vec![];
    let quick = ctx.quick();
    for (name, (lo, hi)) in [("all_pairs_2019-12..2024-03", w1), ("all_pairs_-3..3", w2), ("all_pairs_1899-06..1901-06", w3)] {
        // quick: 400-day sub-windows (one around the leap day / era boundary, position rotates with the seed)
        let (lo, hi) = if quick {
            let span = hi - lo - 400;
            let start = match name {
                "all_pairs_2019-12..2024-03" => cal::days_from_civil(2019, 12, 1) + (ctx.seed as i64 * 97) % 60,
                "all_pairs_-3..3" => -200 - (ctx.seed as i64 * 31) % 50,
                _ => lo + (ctx.seed as i64 * 53) % span.max(1),
            };
            (start, start + 400)
        } else {
            (lo, hi)
        };
        wls.push(Workload::cases(name, (hi - lo + 1) as u64, move |rec, idx, _| judge_row_dates(rec, lo, hi, lo + idx as i64)));
    }
    wls.push(Workload::cases("datetime_pairs_window", ctx.count(120_000, 3_000_000), move |rec, idx, rng| {
        let (lo, hi) = [w1, w2, w3][(idx % 3) as usize];
        let b_day = rng.range_i64(lo, hi);
        let a_day = match rng.below(4) {
            0 => b_day,
            1 => {
                // same day of month some months away: the time of day decides
                let k = rng.range_i64(-30, 30);
                cal::shift_months(b_day, k).clamp(lo, hi)
            }
            _ => rng.range_i64(lo, hi),
        };
        let b_tod = match rng.below(3) {
            0 => 0,
            1 => rng.range_i128(0, D - 1),
            _ => *rng.pick(&[1i128, D - 1, D / 2]),
        };
        let subs = |rng: &mut Rng| -> i128 { match rng.below(3) { 0 => *rng.pick(&[0i128, 1, 999, 1_000, 1_001, 999_999, 1_000_000, 1_000_001, 499_999_999, 500_000_000, 999_000_000, 999_999_000, 999_999_999]), 1 => rng.range_i128(0, 999) * 1_000_000 + rng.range_i128(0, 999_999), _ => rng.range_i128(0, NS - 1) } };
        let (a_tod, tag): (i128, &'static str) = match rng.below(7) {
            5 | 6 => {
                // same second of the day, sub-second parts independent: the order of the milli / micro / nano digit
                // groups need not be the order of the times (…001000000 is later than …000999999)
                let sec = (b_tod / NS) * NS;
                let b2 = sec + subs(rng);
                let a2 = sec + subs(rng);
                judge_dt_pair(rec, (a_day, a2), (b_day, b2), "dt/same-second-other-subsecond");
                return;
            }
            0 => (0, "dt/a-at-midnight"),
            1 => (b_tod, "dt/equal-time"),
            2 => ((b_tod - 1).max(0), "dt/a-1ns-before-b-time"),
            3 => ((b_tod + 1).min(D - 1), "dt/a-1ns-after-b-time"),
            _ => (rng.range_i128(0, D - 1), "dt/random-time"),
        };
        judge_dt_pair(rec, (a_day, a_tod), (b_day, b_tod), tag);
    }));
    // calendar-aligned pairs at ANY distance over the whole range: a on the same day of the month as b, k months away
    // with k from 1 … 30, whole years, centuries, 400-year cycles (4 800 months), powers of two and anything up to
    // the width of the range; the times of day as in the window workload (equal, ±1 ns, the same second with another
    // sub-second part, midnight, random).  A shortcut through elapsed time (whole 400-year cycles, average month
    // lengths) agrees with the calendar everywhere except at such anniversaries.
    wls.push(Workload::cases("anniversary_pairs_any_distance", ctx.count(150_000, 3_000_000), move |rec, _idx, rng| {
        let lo = cal::MIN_DAY + 40;
        let hi = cal::MAX_DAY - 40;
        let b_day = match rng.below(3) {
            0 => rng.range_i64(cal::days_from_civil(1600, 1, 1), cal::days_from_civil(2400, 12, 31)),
            1 => rng.range_i64(-400_000, 400_000),
            _ => rng.range_i64(lo, hi),
        };
        // one b in eight is a leap day (its anniversaries are clamped to Feb 28; "one day off" is then 1 March)
        let b_day = if rng.chance(1, 8) {
            let (y, _, _) = cal::civil_from_days(b_day);
            let ly = (y.div_euclid(4)) * 4;
            let ly = if ly % 100 == 0 && ly % 400 != 0 { ly + 4 } else { ly };
            cal::days_from_civil(ly, 2, 29).clamp(lo, hi)
        } else {
            b_day
        };
        if dom(b_day) == 29 && cal::civil_from_days(b_day).1 == 2 {
            rec.bin("anniversary/b-on-a-leap-day");
        }
        let sign = if rng.chance(1, 2) { 1 } else { -1 };
        let k: i64 = sign * match rng.below(8) {
            0 => rng.range_i64(1, 30),
            1 => 12 * rng.range_i64(1, 120),
            2 => 1_200 * rng.range_i64(1, 40),
            3 => 4_800 * rng.range_i64(1, 12),
            4 => 4_800 * rng.range_i64(1, 2_400),
            5 => 1i64 << rng.range_i64(0, 27),
            6 => 4_800 * rng.range_i64(1, 400) + *rng.pick(&[-1i64, 1, 12, -12]),
            _ => rng.range_i64(1, 141_000_000),
        };
        let a_day = cal::shift_months(b_day, k);
        if a_day < lo || a_day > hi {
            rec.bin("anniversary/outside-the-range(skipped)");
            return;
        }
        // sometimes one day off the anniversary
        let a_day = if rng.chance(1, 6) { a_day + *rng.pick(&[-1i64, 1]) } else { a_day };
        rec.bin(if k % 4_800 == 0 { "anniversary/whole-400-year-cycles" } else if k % 12 == 0 { "anniversary/whole-years" } else { "anniversary/months" });
        let b_tod = match rng.below(3) {
            0 => 0,
            1 => rng.range_i128(0, D - 1),
            _ => *rng.pick(&[1i128, D - 1, D / 2]),
        };
        let subs = |rng: &mut Rng| -> i128 { match rng.below(3) { 0 => *rng.pick(&[0i128, 1, 999, 1_000, 1_001, 999_999, 1_000_000, 1_000_001, 499_999_999, 500_000_000, 999_000_000, 999_999_000, 999_999_999]), 1 => rng.range_i128(0, 999) * 1_000_000 + rng.range_i128(0, 999_999), _ => rng.range_i128(0, NS - 1) } };
        match rng.below(7) {
            5 | 6 => {
                let sec = (b_tod / NS) * NS;
                let b2 = sec + subs(rng);
                let a2 = sec + subs(rng);
                judge_dt_pair(rec, (a_day, a2), (b_day, b2), "dt/anniversary/same-second-other-subsecond");
            }
            0 => judge_dt_pair(rec, (a_day, 0), (b_day, b_tod), "dt/anniversary/a-at-midnight"),
            1 => judge_dt_pair(rec, (a_day, b_tod), (b_day, b_tod), "dt/anniversary/equal-time"),
            2 => judge_dt_pair(rec, (a_day, (b_tod - 1).max(0)), (b_day, b_tod), "dt/anniversary/a-1ns-before-b-time"),
            3 => judge_dt_pair(rec, (a_day, (b_tod + 1).min(D - 1)), (b_day, b_tod), "dt/anniversary/a-1ns-after-b-time"),
            _ => judge_dt_pair(rec, (a_day, rng.range_i128(0, D - 1)), (b_day, b_tod), "dt/anniversary/random-time"),
        }
        // the same pair as Dates
        if rng.chance(1, 3) {
            if let (Some(ad), Some(bd)) = (sane_date(a_day), sane_date(b_day)) {
                rec.eval();
                rec.api("Date::months_since");
                let r = trap(|| (ad.months_since(&bd), ad.years_since(&bd), bd.months_since(&ad), bd.years_since(&ad)));
                let (later, earlier, sg) = if a_day >= b_day { (a_day, b_day, 1i64) } else { (b_day, a_day, -1) };
                match r {
                    Err(p) => rec.violation(format!("C07|dates|months_since/years_since|panic|{},{}", p.class, p.site()), || json!({"a_day": a_day, "b_day": b_day, "panic": p.to_json()})),
                    Ok((m_ab, y_ab, m_ba, y_ba)) => {
                        if m_ab != -m_ba || y_ab != -y_ba {
                            rec.violation("C07|dates|Date::months/years_since|not-antisymmetric|anniversary".to_string(), || json!({"a_day": a_day, "b_day": b_day, "m_ab": m_ab, "m_ba": m_ba, "y_ab": y_ab, "y_ba": y_ba}));
                        }
                        if dom(earlier) <= 28 {
                            let n = model_months((later, 0), (earlier, 0));
                            if m_ab as i64 != sg * n || y_ab as i64 != sg * (n / 12) {
                                rec.violation(format!("C07|dates|Date::months/years_since|wrong-value|anniversary,observed-expected={}", (m_ab as i64 - sg * n).clamp(-3, 3)), || json!({"a": format!("{:?}", cal::ymd(a_day)), "b": format!("{:?}", cal::ymd(b_day)), "months_since": m_ab, "years_since": y_ab, "expected_months": sg * n}));
                            }
                        }
                    }
                }
            }
        }
    }));
    // rows of Date pairs around days that are a whole number of 400-year cycles (146 097 days) from the usual epochs
    // of day-number algorithms — 0001-01-01, 0000-03-01, 1970-01-01, 2000-03-01 — over the whole range, both eras:
    // where a hand-written floor division of a negative day number is one off (exact multiples only)
    wls.push(Workload::cases("rows_at_cycle_aligned_days", ctx.count(1_500, 60_000), move |rec, _idx, rng| {
        let epoch = *rng.pick(&[0i64, cal::days_from_civil(0, 3, 1), cal::DAYS_TO_1970, cal::days_from_civil(2000, 3, 1), cal::days_from_civil(1600, 3, 1)]);
        let kmax = (cal::MAX_DAY - 200) / 146_097;
        let k = match rng.below(3) { 0 => rng.range_i64(-12, 12), _ => rng.range_i64(-kmax, kmax) };
        let c = (epoch + k * 146_097).clamp(cal::MIN_DAY + 100, cal::MAX_DAY - 100);
        rec.bin(if c < 0 { "cycle-aligned/BC" } else { "cycle-aligned/AD" });
        let lo = c - 34;
        for b in [c - 31, c - 1, c, c + 1, c + 28] {
            judge_row_dates(rec, lo, lo + 68, b);
        }
        // and as DateTimes with a time-of-day order opposite to the day order
        let t1 = rng.range_i128(0, D - 1);
        let t2 = rng.range_i128(0, D - 1);
        for da in [-31i64, -30, -29, -28, -1, 1, 28, 29, 30, 31] {
            judge_dt_pair(rec, (c + da, t1), (c, t2), "dt/cycle-aligned");
            judge_dt_pair(rec, (c, t1), (c + da, t2), "dt/cycle-aligned");
        }
    }));
    // every case on a brand-new thread: the pair is the first thing that thread ever asks (per-thread memo state empty)
    wls.push(Workload::cases("fresh_thread_first_pair", ctx.count(1_500, 40_000), move |rec, idx, rng| {
        let b_day = match rng.below(4) {
            0 => *rng.pick(&[0i64, -1, 1, 30, 31, 59, 365, -365, -366, 366, cal::DAYS_TO_1970, cal::MIN_DAY + 2, cal::MAX_DAY - 2]),
            1 => rng.range_i64(-800, 800),
            2 => rng.range_i64(w1.0, w1.1),
            _ => rng.range_i64(cal::MIN_DAY + 2, cal::MAX_DAY - 2),
        };
        if idx % 2 == 0 {
            let lo = b_day.clamp(cal::MIN_DAY + 2, cal::MAX_DAY - 80);
            judge_row_dates(rec, lo, lo + 70, lo);
        } else {
            let a_day = (b_day + *rng.pick(&[0i64, 1, -1, 28, 31, 365, 366, -365]) * rng.range_i64(0, 3)).clamp(cal::MIN_DAY + 2, cal::MAX_DAY - 2);
            let tod = *rng.pick(&[0i128, 1, D / 2, D - 1]);
            judge_dt_pair(rec, (a_day, tod), (b_day.clamp(cal::MIN_DAY + 2, cal::MAX_DAY - 2), tod), "dt/fresh-thread-first-pair");
        }
    }).fresh(1));
    wls.push(Workload::cases("offset_local_twins", ctx.count(4_000, 40_000), |rec, _, rng| super::localzone::twin_pair_case(rec, rng, "C07")));
    wls.push(Workload::cases("far_apart_pairs", ctx.count(60_000, 1_000_000), |rec, idx, rng| {
        let b_day = rng.range_i64(cal::MIN_DAY + 2, cal::MAX_DAY - 2);
        let a_day = if idx % 2 == 0 { rng.range_i64(cal::MIN_DAY + 2, cal::MAX_DAY - 2) } else { (b_day + rng.range_i64(-200_000, 200_000)).clamp(cal::MIN_DAY + 2, cal::MAX_DAY - 2) };
        judge_dt_pair(rec, (a_day, rng.range_i128(0, D - 1)), (b_day, rng.range_i128(0, D - 1)), "dt/far-apart");
    }));
    wls.push(Workload::cases("trait_dispatch_vs_method_syntax", ctx.count(8_000, 200_000), |rec, _, rng| super::ufcs::case(rec, rng, "C07")));
    let out = run_workloads(ctx, wls);
    let mut meta = PropMeta::default();
    meta.exhaustive = !quick;
    meta.rule = format!(
        "{} ordered pairs of Dates inside three windows (2019-12-01…2024-03-31 with a leap day; −3-01-01…3-12-31 across the era boundary; 1899-06…1901-06 across a common century year){}: per earlier-date b every a ascending — value (model month shift, only when the earlier date's day of month ≤ 28), antisymmetry, monotonicity in a, years = trunc(months/12). DateTime pairs in the same windows with times {{00:00, equal, ±1 ns around b's time, random}} and far-apart random pairs over the whole range. Non-trivial = same-month, borrow, era-straddling and same-day pairs (Dates); every DateTime pair. Distinct by input hash. Fresh-thread workload: every pair is the first thing a brand-new thread asks (earlier date on 0001-01-01, ±1 day, leap days, range ends …). Offset::Local twins (pairs) for months_since / years_since, incl. anniversaries ± a few hours in real zones. DateTime pairs inside one second of the day with independently structured sub-second parts (digit groups 0/1/999/1000/999999/10^6…). Anniversary pairs at any distance over the whole range: a on b's day of the month k months away (k = 1…30, whole years, centuries, whole 400-year cycles, 2^j, anything up to the width of the range; sometimes one day off), times of day equal / ±1 ns / same second with another sub-second part / midnight / random; also as Dates; one b in eight on a leap day. Rows of Date pairs (and DateTime pairs) around days a whole number of 400-year cycles from the usual day-number epochs (0001-01-01, 0000-03-01, 1600-03-01, 1970-01-01, 2000-03-01), both eras.",
        if quick { "all" } else { "ALL" },
        if quick { " — quick: 400-day sub-windows around the leap day / era boundary" } else { "" }
    );
    meta.rule.push_str(" The property's trait methods are also called through the trait (generic code / UFCS) and must agree with method syntax on the same operands (a type may grow inherent twins of its trait methods).");
    meta.required_bins = vec!["trait-dispatch/compared", 
        "local-twin/judged", "local-twin/synthetic-fixed-zone", "local-twin/real-zone-with-transitions",
        "pair/same-day", "pair/straddles-era", "pair/same-month", "pair/same-year-day-borrow", "pair/year-borrow", "pair/multi-year",
        "value-claim/checked", "value-claim/skipped-dom>28", "anniversary/whole-400-year-cycles", "anniversary/b-on-a-leap-day", "cycle-aligned/BC", "cycle-aligned/AD", "anniversary/whole-years", "anniversary/months", "dt/anniversary/same-second-other-subsecond", "dt/anniversary/equal-time", "dt/equal-time", "dt/a-1ns-before-b-time", "dt/a-1ns-after-b-time", "dt/far-apart",
    ];
    meta.assumptions = vec!["month shift of the reference is the harness calendar model's (not the library's add_months)".into()];
    let _ = DateTime::default();
    Ok((meta, out))
}
