//! C06 — `*_since` is the exact difference truncated toward zero; `duration_between` = |difference|.

use super::pairs::*;
use super::PropResult;
use crate::core::*;
use crate::model::calendar as cal;
use crate::model::instant::*;
use super::diff::*;
use astrolabe::{DateTime, DateUtilities, Time, TimeUtilities};
use serde_json::{json, Value};

fn unit_bin(unit: &'static str, diff: i128, u: i128, ra: i128, rb: i128, neg_path: bool) -> String {
    let c = if diff == 0 {
        "diff0"
    } else if diff.abs() < u {
        "below-one-unit"
    } else if (diff > 0 && ra < rb) || (diff < 0 && ra > rb) {
        "remainder-borrow"
    } else if neg_path {
        "negative-days-path"
    } else if diff.abs() > (1i128 << 60) {
        "huge"
    } else {
        "plain"
    };
    format!("{}/{}", unit, c)
}

fn since_all(a: &DateTime, b: &DateTime) -> [i128; 7] {
    [
        a.nanos_since(b),
        a.micros_since(b),
        a.millis_since(b),
        a.seconds_since(b) as i128,
        a.minutes_since(b) as i128,
        a.hours_since(b) as i128,
        a.days_since(b) as i128,
    ]
}

fn add_unit(b: &DateTime, unit: usize, n: u32) -> DateTime {
    match unit {
        0 => b.add_nanos(n),
        1 => b.add_micros(n),
        2 => b.add_millis(n),
        3 => b.add_seconds(n),
        4 => b.add_minutes(n),
        5 => b.add_hours(n),
        _ => b.add_days(n),
    }
}

/// Route independence: a difference is a function of the two instants, not of how the operands were built.  One operand
/// is a midnight reached through another public route — `x -= Time(own time of day)`, `x += Time(rest of the day)`,
/// `DateTime::from(Date::from(x))`, clear_until_hour on an offset-free value, sub_nanos of its own time of day — and must
/// give the same seven differences, in both directions, as the independently built value of that instant.
fn judge_rerouted(rec: &mut Rec, rng: &mut Rng) {
    use astrolabe::{Date, Offset, OffsetUtilities};
    rec.eval();
    rec.api("*_since on operands reached through other routes");
    let (i, _) = gen_instant(rng, 3);
    let tod = i.rem_euclid(D);
    let mi = i - tod;
    let Some((x, _)) = sane_value(i, 0) else {
        rec.bin(SKIP_START);
        return;
    };
    let route = rng.below(5);
    let name = ["x -= Time(own time of day)", "x += Time(rest of the day)", "DateTime::from(Date::from(x))", "clear_until_hour", "sub_nanos/sub_seconds of the own time of day"][route as usize];
    let (built, target): (Result<DateTime, Panic>, i128) = match route {
        0 => (trap(|| { let mut m = x; m -= Time::from_nanos(tod as u64).unwrap(); m }), mi),
        1 => {
            if tod == 0 {
                return;
            }
            (trap(|| { let mut m = x; m += Time::from_nanos((D - tod) as u64).unwrap(); m }), mi + D)
        }
        2 => (trap(|| DateTime::from(Date::from(x))), mi),
        3 => (trap(|| x.clear_until_hour()), mi),
        _ => (trap(|| x.sub_nanos((tod % NS) as u32).sub_seconds((tod / NS) as u32)), mi),
    };
    rec.bin("rerouted/compared");
    rec.nontrivial(hash_i128s(&[i, route as i128, 0x6E]));
    let Ok(m) = built else {
        rec.bin("rerouted/route-panicked(other-property)");
        return;
    };
    let Some((m0, _)) = sane_value(target, 0) else {
        rec.bin(SKIP_EXPECTED);
        return;
    };
    // the other operand: midnight-aligned a few days away, the same instant, or anything
    let j = match rng.below(4) {
        0 => target + rng.range_i128(-40, 40) * D,
        1 => target,
        2 => target + rng.range_i128(-40, 40) * D + rng.range_i128(-NS, NS),
        _ => gen_instant(rng, 3).0,
    }
    .clamp(MIN_INSTANT + 3 * D, MAX_INSTANT - 3 * D);
    let o2 = gen_offset(rng);
    let Some((y, _)) = sane_value(j, o2) else {
        rec.bin(SKIP_START);
        return;
    };
    let m_off = if rng.chance(1, 2) { m } else { m.set_offset(Offset::Fixed(o2)) };
    let m0_off = if rng.chance(1, 2) { m0 } else { m0.set_offset(Offset::Fixed(o2)) };
    let all = |a: &DateTime, b: &DateTime| -> Result<Vec<i128>, Panic> {
        let (a, b) = (*a, *b);
        trap(move || vec![a.days_since(&b) as i128, a.hours_since(&b) as i128, a.minutes_since(&b) as i128, a.seconds_since(&b) as i128, a.millis_since(&b), a.micros_since(&b), a.nanos_since(&b), b.days_since(&a) as i128, b.hours_since(&a) as i128, b.seconds_since(&a) as i128, b.nanos_since(&a), a.duration_between(&b).as_nanos() as i128, (a == b) as i128, (a < b) as i128])
    };
    match (all(&m_off, &y), all(&m0_off, &y)) {
        (Ok(g), Ok(e)) => {
            if g != e {
                let names = ["days_since", "hours_since", "minutes_since", "seconds_since", "millis_since", "micros_since", "nanos_since", "reverse days_since", "reverse hours_since", "reverse seconds_since", "reverse nanos_since", "duration_between", "==", "<"];
                let k = (0..g.len()).find(|k| g[*k] != e[*k]).unwrap_or(0);
                rec.violation(format!("C06|rerouted-operand|{}|depends-on-how-the-operand-was-built|{}", names[k], name), || json!({"instant_of_the_operand": show(target), "built_by": name, "from": show(i), "other_operand": {"instant": show(j), "offset": o2}, "differences(with the rerouted operand)": format!("{:?}", g), "differences(with the independently built operand)": format!("{:?}", e)}));
            }
        }
        (Err(p), Ok(_)) => rec.violation(format!("C06|rerouted-operand|*_since|panic|{},{}|{}", p.class, p.site(), name), || json!({"instant_of_the_operand": show(target), "built_by": name, "panic": p.to_json()})),
        _ => rec.bin(SKIP_EXPECTED),
    }
}

fn judge_pair(rec: &mut Rec, p: &Pair) {
    rec.eval();
    rec.bin(p.class);
    let diff = p.i - p.j;
    rec.nontrivial(hash_i128s(&[p.i, p.j, p.o1 as i128, p.o2 as i128]));
    // inputs: only where construction and every read-out route other than *_since agree with the model
    let (Some((a, _)), Some((b, _))) = (sane_value_opt(p.i, p.o1, true), sane_value_opt(p.j, p.o2, true)) else {
        rec.bin(SKIP_START);
        return;
    };
    let r = trap(|| (since_all(&a, &b), since_all(&b, &a), a.duration_between(&b), b.duration_between(&a)));
    let wit = |obs: serde_json::Value| json!({"a": {"instant": show(p.i), "offset": p.o1}, "b": {"instant": show(p.j), "offset": p.o2}, "exact_diff_ns": diff.to_string(), "observed": obs});
    match r {
        Err(pn) => rec.violation(format!("C06|pairs|DateTime *_since/duration_between|panic|{},{}", pn.class, pn.site()), || wit(pn.to_json())),
        Ok((ab, ba, dab, dba)) => {
            for (k, (name, u)) in UNITS.iter().enumerate() {
                rec.api(match k { 0 => "DateTime::nanos_since", 1 => "DateTime::micros_since", 2 => "DateTime::millis_since", 3 => "DateTime::seconds_since", 4 => "DateTime::minutes_since", 5 => "DateTime::hours_since", _ => "DateTime::days_since" });
                let exp = diff / u; // truncation toward zero
                let (ra, rb) = (p.i.rem_euclid(*u), p.j.rem_euclid(*u));
                let neg = p.i < 0 || p.j < 0;
                let bin = unit_bin(name, diff, *u, ra, rb, neg);
                if ab[k] != exp {
                    let cls = bin.clone();
                    rec.violation(format!("C06|pairs|DateTime::{}_since|wrong-value|{},observed-expected={}", name, cls, (ab[k] - exp).clamp(-2, 2)), || {
                        wit(json!({"unit": name, "expected": exp.to_string(), "observed": ab[k].to_string()}))
                    });
                }
                if ba[k] != -ab[k] {
                    rec.violation(format!("C06|pairs|DateTime::{}_since|not-antisymmetric|{}", name, bin), || wit(json!({"unit": name, "a.since(b)": ab[k].to_string(), "b.since(a)": ba[k].to_string()})));
                }
                rec.bin_s(bin);
            }
            let want = std::time::Duration::new((diff.abs() / NS) as u64, (diff.abs() % NS) as u32);
            rec.api("DateTime::duration_between");
            if dab != want || dba != want {
                rec.violation(format!("C06|pairs|DateTime::duration_between|wrong-value|{}", p.class), || wit(json!({"expected": format!("{:?}", want), "a.between(b)": format!("{:?}", dab), "b.between(a)": format!("{:?}", dba)})));
            }
        }
    }
    // derived observation: n = a.since(b) >= 0  ⇒  b + n·unit <= a < b + (n+1)·unit through the library's own add_*
    if diff >= 0 {
        for (k, (name, u)) in UNITS.iter().enumerate() {
            let n = diff / u;
            if n >= u32::MAX as i128 {
                continue;
            }
            if !representable(p.j + (n + 1) * u) {
                continue;
            }
            rec.evals(1);
            rec.bin("add-inverse/checked");
            let r = trap(|| {
                let lo = add_unit(&b, k, n as u32);
                let hi = add_unit(&b, k, n as u32 + 1);
                // add_* and the comparison belong to other properties: only use them where they deliver
                let usable = matches!(diff_with_expected(&lo, p.j + n * u, p.o2), Ok(Diff::Same)) && matches!(diff_with_expected(&hi, p.j + (n + 1) * u, p.o2), Ok(Diff::Same));
                (lo <= a || !usable, a < hi || !usable, read(&lo), read(&hi))
            });
            match r {
                Ok((true, true, _, _)) => {}
                Ok((l, h, lo, hi)) => rec.violation(format!("C06|pairs|{}_since vs add_{}|not-inverse", name, name), || {
                    wit(json!({"unit": name, "n": n.to_string(), "b.add(n)<=a": l, "a<b.add(n+1)": h, "b.add(n)": show(lo), "b.add(n+1)": show(hi)}))
                }),
                Err(_) => rec.bin("skipped/add-panicked(other-property)"),
            }
        }
    }
    if rec.want_sample() {
        rec.sample(|| wit(json!({"expected_since": UNITS.iter().map(|(n, u)| (n.to_string(), (diff / u).to_string())).collect::<std::collections::BTreeMap<_, _>>()})));
    }
}

fn judge_time_pair(rec: &mut Rec, n1: u64, n2: u64, o1: i32, o2: i32) {
    rec.eval();
    rec.nontrivial(hash_i128s(&[n1 as i128, n2 as i128, o1 as i128, o2 as i128, 6]));
    let diff = n1 as i128 - n2 as i128;
    let (Some((a, _)), Some((b, _))) = (sane_time(n1, o1), sane_time(n2, o2)) else {
        rec.bin(SKIP_START);
        return;
    };
    let r = trap(|| {
        let f = |a: &Time, b: &Time| -> [i128; 6] {
            [a.nanos_since(b) as i128, a.micros_since(b) as i128, a.millis_since(b) as i128, a.seconds_since(b) as i128, a.minutes_since(b) as i128, a.hours_since(b) as i128]
        };
        (f(&a, &b), f(&b, &a), a.duration_between(&b), b.duration_between(&a))
    });
    let wit = |obs: serde_json::Value| json!({"a_nanos": n1, "a_offset": o1, "b_nanos": n2, "b_offset": o2, "exact_diff_ns": diff.to_string(), "observed": obs});
    match r {
        Err(pn) => rec.violation(format!("C06|timepairs|Time *_since|panic|{},{}", pn.class, pn.site()), || wit(pn.to_json())),
        Ok((ab, ba, dab, dba)) => {
            for k in 0..6 {
                let (name, u) = UNITS[k];
                rec.api(match k { 0 => "Time::nanos_since", 1 => "Time::micros_since", 2 => "Time::millis_since", 3 => "Time::seconds_since", 4 => "Time::minutes_since", _ => "Time::hours_since" });
                let exp = diff / u;
                let bin = format!("time/{}", unit_bin(name, diff, u, (n1 as i128) % u, (n2 as i128) % u, false));
                if ab[k] != exp {
                    rec.violation(format!("C06|timepairs|Time::{}_since|wrong-value|{}", name, bin), || wit(json!({"unit": name, "expected": exp.to_string(), "observed": ab[k].to_string()})));
                }
                if ba[k] != -ab[k] {
                    rec.violation(format!("C06|timepairs|Time::{}_since|not-antisymmetric|{}", name, bin), || wit(json!({"unit": name, "a.since(b)": ab[k].to_string(), "b.since(a)": ba[k].to_string()})));
                }
                rec.bin_s(bin);
            }
            let want = std::time::Duration::from_nanos(diff.unsigned_abs() as u64);
            if dab != want || dba != want {
                rec.violation("C06|timepairs|Time::duration_between|wrong-value".to_string(), || wit(json!({"expected": format!("{:?}", want), "observed": format!("{:?} / {:?}", dab, dba)})));
            }
        }
    }
}

fn judge_date_pair(rec: &mut Rec, d1: i64, d2: i64) {
    rec.eval();
    rec.api("Date::days_since");
    rec.nontrivial(hash_i128s(&[d1 as i128, d2 as i128, 66]));
    rec.bin(if d1 == d2 { "date/diff0" } else if (d1 < 0) != (d2 < 0) { "date/straddles-era" } else { "date/plain" });
    let (Some(a), Some(b)) = (sane_date(d1), sane_date(d2)) else {
        rec.bin(SKIP_START);
        return;
    };
    let r = trap(|| {
        (a.days_since(&b), b.days_since(&a), a.duration_between(&b), b.duration_between(&a))
    });
    let wit = |obs: serde_json::Value| json!({"days": [d1, d2], "observed": obs});
    match r {
        Err(pn) => rec.violation(format!("C06|datepairs|Date::days_since|panic|{},{}", pn.class, pn.site()), || wit(pn.to_json())),
        Ok((ab, ba, dab, dba)) => {
            if ab != d1 - d2 || ba != d2 - d1 {
                rec.violation("C06|datepairs|Date::days_since|wrong-value".to_string(), || wit(json!({"a.since(b)": ab, "b.since(a)": ba})));
            }
            let want = std::time::Duration::from_secs((d1 - d2).unsigned_abs() * 86_400);
            if dab != want || dba != want {
                rec.violation("C06|datepairs|Date::duration_between|wrong-value".to_string(), || wit(json!({"expected": format!("{:?}", want), "observed": format!("{:?} / {:?}", dab, dba)})));
            }
        }
    }
}

pub fn run(ctx: &Ctx) -> PropResult {
    let mut wls = vec![];
    wls.push(Workload::cases("datetime_pairs", ctx.count(300_000, 10_000_000), |rec, _, rng| {
        let p = gen_pair(rng);
        judge_pair(rec, &p);
    }));
    wls.push(Workload::cases("operands_reached_through_other_routes", ctx.count(60_000, 1_500_000), |rec, _, rng| judge_rerouted(rec, rng)));
    wls.push(Workload::cases("time_pairs", ctx.count(150_000, 4_000_000), |rec, _, rng| {
        let dn = 86_400_000_000_000u64;
        let n1 = match rng.below(3) {
            0 => rng.below(86_400) * 1_000_000_000 + *rng.pick(&[0u64, 1, 999_999_999, 500_000_000]),
            1 => *rng.pick(&[0u64, 1, dn - 1, dn / 2, dn / 2 - 1]),
            _ => rng.below(dn),
        };
        let n2 = match rng.below(4) {
            0 => n1,
            1 => {
                let (_, u) = UNITS[rng.below(6) as usize];
                (n1 as i128 + *rng.pick(&[1i128, -1]) * (rng.range_i128(1, 30) * u + *rng.pick(&[-1i128, 0, 1]))).clamp(0, dn as i128 - 1) as u64
            }
            _ => rng.below(dn),
        };
        // a Time accepts any Offset::Fixed(i32); differences are defined on the stored time and may not depend on it
        let anyoff = |rng: &mut Rng| if rng.chance(1, 6) { *rng.pick(&[-86_401i32, -86_400, 86_400, 86_401, -200_000, 200_000, i32::MIN, i32::MAX, -1_000_000]) } else { gen_offset(rng) };
        let (o1, o2) = (anyoff(rng), anyoff(rng));
        let (n1, n2) = if rng.chance(1, 5) {
            let (a, b, tag) = crate::model::magic::alias_time_pair(rng, n1);
            rec.bin(tag);
            (a, b)
        } else {
            (n1, n2)
        };
        judge_time_pair(rec, n1, n2, o1, o2);
    }));
    wls.push(Workload::cases("date_pairs", ctx.count(100_000, 3_000_000), |rec, _, rng| {
        let d1 = match rng.below(3) {
            0 => rng.range_i64(-800, 800),
            1 => *rng.pick(&[cal::MIN_DAY, cal::MAX_DAY, cal::MIN_DAY + 1, cal::MAX_DAY - 1, 0, -1]),
            _ => rng.range_i64(cal::MIN_DAY, cal::MAX_DAY),
        };
        let d2 = match rng.below(3) {
            0 => d1,
            1 => *rng.pick(&[cal::MIN_DAY, cal::MAX_DAY, 0, -1, 1]),
            _ => rng.range_i64(cal::MIN_DAY, cal::MAX_DAY),
        };
        judge_date_pair(rec, d1, d2);
    }));
    // call sequences: a pair, the reversed pair, pairs sharing one operand with a sibling of the other, the pair again
    // operands whose local reading lies beyond a range end (outward offset): differences are defined on the UTC
    // instants and must come out as for any other pair
    wls.push(Workload::cases("operands_with_an_out_of_range_local_reading", ctx.count(8_000, 200_000), |rec, _, rng| {
        rec.eval();
        let Some((a, i, off, high)) = super::diff::outward_value(rng) else {
            rec.bin("outward/could-not-build(other-property)");
            return;
        };
        rec.bin("outward/local-reading-beyond-the-range-end");
        let j = match rng.below(4) {
            0 => i,
            1 => (i + rng.range_i128(-5 * NS, 5 * NS)).clamp(MIN_INSTANT, MAX_INSTANT),
            2 => (i + if high { -rng.range_i128(0, 3 * D) } else { rng.range_i128(0, 3 * D) }).clamp(MIN_INSTANT, MAX_INSTANT),
            _ => gen_instant(rng, 2).0,
        };
        let Some((b, _)) = sane_value_opt(j, 0, true) else {
            rec.bin(SKIP_START);
            return;
        };
        rec.nontrivial(hash_i128s(&[i, j, off as i128, 0x0606]));
        let d = i - j;
        let want = format!("{} {} {} {} {} {} {} {:?}", d, d / 1_000, d / 1_000_000, d / NS, d / (60 * NS), d / (3_600 * NS), d / D, std::time::Duration::new((d.abs() / NS) as u64, (d.abs() % NS) as u32));
        let wit = |obs: Value| json!({"a_utc": show(i), "a_offset": off, "note": "a's local reading lies beyond the range end", "b_utc": show(j), "model (ns us ms s min h d between)": want, "observed": obs});
        for (who, x, y, sign) in [("a.since(b)", &a, &b, 1i128), ("b.since(a)", &b, &a, -1)] {
            let r = trap(|| format!("{} {} {} {} {} {} {} {:?}", x.nanos_since(y), x.micros_since(y), x.millis_since(y), x.seconds_since(y), x.minutes_since(y), x.hours_since(y), x.days_since(y), x.duration_between(y)));
            let dd = d * sign;
            let w = format!("{} {} {} {} {} {} {} {:?}", dd, dd / 1_000, dd / 1_000_000, dd / NS, dd / (60 * NS), dd / (3_600 * NS), dd / D, std::time::Duration::new((d.abs() / NS) as u64, (d.abs() % NS) as u32));
            match r {
                Err(p) => rec.violation(format!("C06|outward-operand|{}|panic|{},{}", who, p.class, p.site()), || wit(p.to_json())),
                Ok(g) if g != w => rec.violation(format!("C06|outward-operand|{}|wrong-value", who), || wit(json!({"got": g, "want": w}))),
                _ => {}
            }
        }
    }));
    wls.push(Workload::cases("sibling_call_sequences", ctx.count(30_000, 1_000_000), |rec, _, rng| {
        let (lo, hi) = (MIN_INSTANT + 3 * D, MAX_INSTANT - 3 * D);
        let p = gen_pair(rng);
        rec.bin("sequence/sibling-calls");
        judge_pair(rec, &p);
        judge_pair(rec, &Pair { i: p.j, j: p.i, o1: p.o2, o2: p.o1, class: p.class });
        for _ in 0..2 {
            let j2 = crate::model::magic::sibling_instant(rng, p.j, lo, hi);
            judge_pair(rec, &Pair { i: p.i.clamp(lo, hi), j: j2, o1: p.o1, o2: p.o2, class: "pair/sibling-sequence" });
        }
        judge_pair(rec, &p);
    }));
    wls.push(Workload::cases("offset_local_twins", ctx.count(3_000, 40_000), |rec, _, rng| super::localzone::twin_pair_case(rec, rng, "C06")));
    wls.push(Workload::cases("trait_dispatch_vs_method_syntax", ctx.count(8_000, 200_000), |rec, _, rng| super::ufcs::case(rec, rng, "C06")));
    let out = run_workloads(ctx, wls);
    let mut meta = PropMeta::default();
    meta.rule = "The C03 pair generator (instants in 8 strata x deltas {0, ±1 ns, sub-second, k units ± few ns for each of the 7 units, days, 2^62 ns, uniform} x two independent offsets): each of the 7 DateTime::*_since must equal (i_a − i_b)/unit truncated toward zero in i128, be antisymmetric, and (for counts < 2^32 with a representable upper bound) satisfy b.add_u(n) <= a < b.add_u(n+1); duration_between must equal |i_a − i_b| both ways. Time pairs (6 units, stored nanoseconds) and Date pairs (days) likewise. Every pair is non-trivial (bins report the borrow / sub-unit / negative-path classes); distinct by input hash. Differences next to 'magic magnitudes' (2^15…2^64 of every unit from ns to weeks, ± jitter up to a day) and instants at such magnitudes from 0001-01-01 / 1970-01-01 are part of the pair generator. Offset::Local twins (pairs) for all seven *_since and duration_between. Operands whose local reading lies beyond a range end; Time pairs under any Offset::Fixed(i32); sibling call sequences (pair, reversed pair, pairs sharing an operand with a sibling of the other).".into();
    meta.rule.push_str(" The property's trait methods are also called through the trait (generic code / UFCS) and must agree with method syntax on the same operands (a type may grow inherent twins of its trait methods).");
    meta.rule.push_str(" Route independence: one operand is a midnight reached through `x -= Time(own time of day)`, `x += Time(rest of the day)`, DateTime::from(Date::from(x)), clear_until_hour or sub_seconds/sub_nanos of its own time of day; all differences in both directions, duration_between, == and < must equal those of the independently built value of that instant.");
    meta.required_bins = vec!["rerouted/compared", "trait-dispatch/compared", 
        "outward/local-reading-beyond-the-range-end",
        "sequence/sibling-calls",
        "local-twin/judged", "local-twin/synthetic-fixed-zone", "local-twin/real-zone-with-transitions",
        "alias/radix-fold", "alias/xor-fold", "alias/bitwise-unit-relative", "alias/wrapped-residue",
        "pair/equal-instant", "pair/straddles-0001-01-01", "pair/sub-second", "pair/straddles-midnight-within-24h",
        "seconds/remainder-borrow", "hours/remainder-borrow", "days/remainder-borrow", "minutes/below-one-unit", "millis/negative-days-path", "days/negative-days-path",
        "nanos/diff0", "time/hours/remainder-borrow", "time/seconds/below-one-unit", "date/straddles-era", "add-inverse/checked",
    ];
    meta.assumptions = vec!["instants built/read as in C03 (from_timestamp + add_nanos; nanos_since the default value)".into()];
    Ok((meta, out))
}
