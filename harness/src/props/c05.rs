//! C05 — month and year arithmetic keeps the day of month, clamped, across every year.

use super::PropResult;
use crate::core::*;
use crate::model::calendar as cal;
use crate::model::instant::*;
use super::diff::*;
use astrolabe::{Date, DateTime, DateUtilities, Offset, OffsetUtilities};
use serde_json::{json, Value};

pub const OPS: [(&str, i64, i64); 4] = [("add_months", 1, 1), ("sub_months", -1, 1), ("add_years", 1, 12), ("sub_years", -1, 12)];

fn apply_date(d: &Date, op: usize, n: u32) -> Date {
    match op {
        0 => d.add_months(n),
        1 => d.sub_months(n),
        2 => d.add_years(n),
        _ => d.sub_years(n),
    }
}

fn apply_dt(d: &DateTime, op: usize, n: u32) -> DateTime {
    match op {
        0 => d.add_months(n),
        1 => d.sub_months(n),
        2 => d.add_years(n),
        _ => d.sub_years(n),
    }
}

fn target(day: i64, op: usize, n: u32) -> Option<i64> {
    let (_, dir, mult) = OPS[op];
    let t = cal::shift_months(day, dir * mult * n as i64);
    if (cal::MIN_DAY..=cal::MAX_DAY).contains(&t) {
        Some(t)
    } else {
        None
    }
}

fn classify(rec: &mut Rec, day: i64, op: usize, n: u32, t: Option<i64>) -> (&'static str, &'static str) {
    let (_, _, dom) = cal::ymd(day);
    let clamp: &'static str = match t {
        None => "unrepresentable",
        Some(t) => {
            let (_, _, td) = cal::ymd(t);
            if td == dom {
                "clamp/none"
            } else {
                match td {
                    28 => "clamp/to28",
                    29 => "clamp/to29",
                    _ => "clamp/to30",
                }
            }
        }
    };
    let crossing: &'static str = match t {
        Some(t) if day < 0 && t >= 0 => "cross/BC→AD",
        Some(t) if day >= 0 && t < 0 => "cross/AD→BC",
        Some(_) if day < 0 => "cross/none-BC",
        _ => "cross/none-AD",
    };
    rec.bin(clamp);
    rec.bin(crossing);
    rec.bin(match dom {
        0..=28 => "dom/<=28",
        29 => "dom/29",
        30 => "dom/30",
        _ => "dom/31",
    });
    rec.bin(match OPS[op].0 {
        "add_months" => "op/add_months",
        "sub_months" => "op/sub_months",
        "add_years" => "op/add_years",
        _ => "op/sub_years",
    });
    if n >= (1 << 31) {
        rec.bin("N>=2^31");
    }
    (clamp, crossing)
}

fn judge_date(rec: &mut Rec, day: i64, op: usize, n: u32) {
    rec.eval();
    let name = OPS[op].0;
    rec.api(match op { 0 => "Date::add_months", 1 => "Date::sub_months", 2 => "Date::add_years", _ => "Date::sub_years" });
    let t = target(day, op, n);
    let (clamp, crossing) = classify(rec, day, op, n, t);
    let (_, _, dom) = cal::ymd(day);
    if dom >= 29 || crossing.starts_with("cross/BC") || crossing.starts_with("cross/AD→") || n >= (1 << 31) || t.is_none() {
        rec.nontrivial(hash_i128s(&[day as i128, op as i128, n as i128]));
    }
    let Some(d) = sane_date(day) else {
        rec.bin(SKIP_START);
        return;
    };
    let r = trap(|| apply_date(&d, op, n));
    let wit = |obs: Value| {
        let s = cal::ymd(day);
        json!({"start": [s.0, s.1, s.2], "call": format!("Date::{}({})", name, n), "model": t.map(|t| { let e = cal::ymd(t); json!([e.0, e.1, e.2]) }).unwrap_or(json!("outside the representable range")), "observed": obs})
    };
    let nbig = if n >= (1 << 31) { "N>=2^31" } else { "N<2^31" };
    match (r, t) {
        (Ok(res), Some(t)) => {
            rec.outcome("value");
            match diff_date(&res, t) {
                Ok(DateDiff::Skip) => rec.bin(SKIP_EXPECTED),
                Ok(DateDiff::Same) => {}
                Ok(DateDiff::Differs(got, exp)) => {
                    let g = trap(|| res.as_ymd()).unwrap_or((0, 0, 0));
                    let e = cal::ymd(t);
                    let kind = if (g.1, g.2) == (e.1, e.2) { "wrong-year" } else if g.0 as i64 == e.0 && g.1 == e.1 { "wrong-day" } else { "wrong-month-or-more" };
                    rec.violation(format!("C05|date|Date::{}|{}|{},{},{}", name, kind, crossing, clamp, nbig), || wit(json!({"result_reads": got, "independently_built_expected_reads": exp})));
                }
                Err(p) => rec.violation(format!("C05|date|Date::{}|result-unreadable|{},{}", name, p.class, p.site()), || wit(p.to_json())),
            }
        }
        (Ok(res), None) => {
            rec.outcome("value");
            rec.violation(format!("C05|date|Date::{}|returned-when-unrepresentable|{}", name, nbig), || wit(json!({"result_reads": trap(|| date_reads(&res)).unwrap_or_default()})));
        }
        (Err(p), Some(_)) => {
            rec.outcome(if p.class == "Arith" { "panic-arith" } else { "panic" });
            rec.violation(format!("C05|date|Date::{}|panic-when-representable|{},{}", name, p.class, p.site()), || wit(p.to_json()));
        }
        (Err(p), None) => rec.outcome(if p.class == "Arith" { "refused(panic-arith)" } else { "refused(panic)" }),
    }
    if rec.want_sample() {
        rec.sample(|| wit(json!("(see verdict)")));
    }
}

fn judge_datetime(rec: &mut Rec, day: i64, tod: i128, off: i32, op: usize, n: u32) {
    rec.eval();
    let name = OPS[op].0;
    rec.api(match op { 0 => "DateTime::add_months", 1 => "DateTime::sub_months", 2 => "DateTime::add_years", _ => "DateTime::sub_years" });
    let i = day as i128 * D + tod;
    // Two readings of "the date" for a value carrying an offset: the UTC calendar date or the local one.
    // The statement does not choose; either is accepted (they coincide for offset 0).
    let utc_t = target(day, op, n).map(|t| t as i128 * D + tod);
    let local = i + off as i128 * NS;
    let lday = local.div_euclid(D) as i64;
    let ltod = local.rem_euclid(D);
    let loc_t = target(lday, op, n).map(|t| t as i128 * D + ltod - off as i128 * NS).filter(|x| representable(*x));
    let ambiguous = utc_t != loc_t;
    rec.bin(if off == 0 { "datetime/offset0" } else if ambiguous { "datetime/offset-moves-date" } else { "datetime/offset-same-date" });
    rec.nontrivial(hash_i128s(&[i, off as i128, op as i128, n as i128]));
    let _ = classify(rec, day, op, n, target(day, op, n));
    let Some((dt, _)) = sane_value(i, off) else {
        rec.bin(SKIP_START);
        return;
    };
    let r = trap(|| apply_dt(&dt, op, n));
    let wit = |obs: Value| json!({"start": show(i), "offset": off, "call": format!("DateTime::{}({})", name, n), "model_utc_date_reading": utc_t.map(show), "model_local_date_reading": loc_t.map(show), "observed": obs});
    match r {
        Ok(res) => {
            if utc_t.is_none() && loc_t.is_none() {
                rec.violation(format!("C05|datetime|DateTime::{}|returned-when-unrepresentable", name), || wit(json!(trap(|| show(read(&res))).unwrap_or_default())));
            } else {
                let mut same = false;
                let mut skip = false;
                let mut differs = None;
                for t in [utc_t, loc_t].into_iter().flatten() {
                    match diff_with_expected(&res, t, off) {
                        Ok(Diff::Same) => same = true,
                        Ok(Diff::Skip) => skip = true,
                        Ok(Diff::Differs(g, e)) => differs = Some(Ok((g, e))),
                        Err(p) => differs = Some(Err(p)),
                    }
                }
                if same {
                } else if skip {
                    rec.bin(SKIP_EXPECTED);
                } else {
                    match differs {
                        Some(Ok((g, e))) => {
                            let kind = if g.ns_since.rem_euclid(D) != tod { "time-of-day-changed" } else if g.ns_since != e.ns_since { "wrong-date" } else { g.first_difference(&e) };
                            rec.violation(format!("C05|datetime|DateTime::{}|{}", name, kind), || wit(json!({"result_reads": g.to_json(), "independently_built_expected_reads(one of the accepted readings)": e.to_json()})));
                        }
                        Some(Err(p)) => rec.violation(format!("C05|datetime|DateTime::{}|result-unreadable|{},{}", name, p.class, p.site()), || wit(p.to_json())),
                        None => {}
                    }
                }
            }
        }
        Err(p) => {
            if utc_t.is_some() && loc_t.is_some() {
                rec.violation(format!("C05|datetime|DateTime::{}|panic-when-representable|{},{}", name, p.class, p.site()), || wit(p.to_json()));
            }
        }
    }
    if rec.want_sample() {
        rec.sample(|| wit(json!("(see verdict)")));
    }
}

fn window_days() -> Vec<i64> {
    let mut v = vec![];
    let mut push_years = |a0: i64, a1: i64| {
        for n in cal::days_from_civil(a0, 1, 1)..=cal::days_from_civil(a1, 12, 31) {
            v.push(n);
        }
    };
    push_years(-7, 8); // display −8 … 8
    push_years(1896, 1904);
    push_years(1996, 2004);
    push_years(2019, 2025);
    push_years(-404, -399);
    // the partial years at the range ends
    for n in cal::MIN_DAY..cal::MIN_DAY + 600 {
        v.push(n);
    }
    for n in cal::MAX_DAY - 600..=cal::MAX_DAY {
        v.push(n);
    }
    v
}

fn special_counts(rng: &mut Rng, day: i64, op: usize) -> u32 {
    let (_, dir, mult) = OPS[op];
    match rng.below(6) {
        0 => u32::MAX - rng.below(3) as u32,
        1 => ((1i64 << 31) + rng.range_i64(-1, 1)) as u32,
        2 | 3 => {
            // N that lands exactly on (or just beyond) the first/last representable month
            let (a, m, _) = cal::civil_from_days(day);
            let cur = a * 12 + m as i64 - 1;
            let (ea, em, _) = cal::civil_from_days(if dir > 0 { cal::MAX_DAY } else { cal::MIN_DAY });
            let end = ea * 12 + em as i64 - 1;
            let room = ((end - cur) * dir) / mult;
            (room + rng.range_i64(-2, 2)).clamp(0, u32::MAX as i64) as u32
        }
        4 => rng.below(5000) as u32,
        _ => rng.next() as u32,
    }
}

pub fn run(ctx: &Ctx) -> PropResult {
    let days = window_days();
    let dref = &days;
    let quick = ctx.quick();
    let mut wls = vec![];
    wls.push(Workload::cases("window_starts_x_N0..48", days.len() as u64, move |rec, idx, rng| {
        let day = dref[idx as usize];
        let (_, _, dom) = cal::ymd(day);
        if quick && dom < 28 && dom != 1 && idx % 6 != 0 {
            return;
        }
        for n in 0..=48u32 {
            for op in 0..4 {
                judge_date(rec, day, op, n);
            }
            if n % 7 == (idx % 7) as u32 && day >= cal::MIN_DAY + 2 && day <= cal::MAX_DAY - 2 {
                // (two-day margin: a value whose local time is outside the range cannot carry the offset)
                let off = gen_offset_any(rng);
                judge_datetime(rec, day, rng.range_i128(0, D - 1), off, (n % 4) as usize, n);
            }
        }
        for op in 0..4 {
            for _ in 0..3 {
                judge_date(rec, day, op, special_counts(rng, day, op));
            }
        }
    }));
    wls.push(Workload::cases("random_starts", ctx.count(100_000, 4_000_000), |rec, idx, rng| {
        let day = match rng.below(5) {
            0 => rng.range_i64(-3000, 3000),
            1 => rng.range_i64(cal::MIN_DAY, cal::MIN_DAY + 4000),
            2 => rng.range_i64(cal::MAX_DAY - 4000, cal::MAX_DAY),
            3 => {
                // a month end somewhere
                let a = rng.range_i64(-5_800_000, 5_800_000);
                let m = rng.below(12) as u32 + 1;
                cal::days_from_civil(a, m, cal::month_len(a, m) - rng.below(3) as u32)
            }
            _ => rng.range_i64(cal::MIN_DAY, cal::MAX_DAY),
        };
        let op = (idx % 4) as usize;
        let n = if rng.chance(1, 2) { rng.below(200) as u32 } else { special_counts(rng, day, op) };
        judge_date(rec, day, op, n);
        if idx % 3 == 0 {
            let inner = day.clamp(cal::MIN_DAY + 2, cal::MAX_DAY - 2);
            judge_datetime(rec, inner, rng.range_i128(0, D - 1), gen_offset_any(rng), op, n);
        }
    }));
    // every case on a brand-new thread: the shift is the first one that thread ever performs (per-thread memo state
    // empty); starts and targets dense around the era boundary, where "empty" markers such as 0 or -1 are real years
    wls.push(Workload::cases("fresh_thread_first_shift", ctx.count(3_000, 80_000), |rec, idx, rng| {
        let day = match rng.below(4) {
            0 => rng.range_i64(-1200, 1200),
            1 => cal::days_from_civil(rng.range_i64(-4, 4), rng.below(12) as u32 + 1, 1) + rng.below(31) as i64,
            2 => cal::days_from_civil(rng.range_i64(1990, 2030), rng.below(12) as u32 + 1, 28) + rng.below(4) as i64,
            _ => rng.range_i64(cal::MIN_DAY + 2, cal::MAX_DAY - 2),
        };
        let op = (idx % 4) as usize;
        let n = if rng.chance(3, 4) { rng.below(50) as u32 } else { special_counts(rng, day, op) };
        if idx % 8 < 6 {
            judge_date(rec, day, op, n);
        } else {
            judge_datetime(rec, day.clamp(cal::MIN_DAY + 2, cal::MAX_DAY - 2), rng.range_i128(0, D - 1), gen_offset_any(rng), op, n);
        }
    }).fresh(1));
    // call sequences: one shift, then shifts of neighbouring starts / other counts reaching the same or an adjacent
    // target month, a shift that must fail in between, and the first shift again
    // receivers whose local reading lies beyond a range end (outward offset): a shift by 0 or towards the inside
    // targets a representable date and must not panic; time of day and offset stay
    wls.push(Workload::cases("receivers_with_an_out_of_range_local_reading", ctx.count(8_000, 200_000), |rec, idx, rng| {
        rec.eval();
        let Some((a, i, off, high)) = super::diff::outward_value(rng) else {
            rec.bin("outward/could-not-build(other-property)");
            return;
        };
        rec.bin("outward/local-reading-beyond-the-range-end");
        // inward operation: at the high end sub_*, at the low end add_*
        let op = match (high, idx % 2) { (true, 0) => 1usize, (true, _) => 3, (false, 0) => 0, (false, _) => 2 };
        let (name, dir, mult) = OPS[op];
        let n = rng.below(4) as u32;
        let day = i.div_euclid(D) as i64;
        let t_utc = cal::shift_months(day, dir * mult * n as i64) as i128 * D + i.rem_euclid(D);
        let lday = (i + off as i128 * NS).div_euclid(D) as i64;
        let t_loc = cal::shift_months(lday, dir * mult * n as i64) as i128 * D + (i + off as i128 * NS).rem_euclid(D) - off as i128 * NS;
        rec.api(name);
        rec.nontrivial(hash_i128s(&[i, off as i128, op as i128, n as i128, 0x0505]));
        let r = trap(|| match op { 0 => a.add_months(n), 1 => a.sub_months(n), 2 => a.add_years(n), _ => a.sub_years(n) });
        let wit = |obs: Value| json!({"receiver_utc": show(i), "offset": off, "note": "local reading beyond the range end", "call": format!("{}({})", name, n), "model_result_utc (UTC-date reading / local-date reading)": [show(t_utc), show(t_loc)], "observed": obs});
        match r {
            Err(p) => rec.violation(format!("C05|outward-receiver|{}|panic-when-representable|{},{}", name, p.class, p.site()), || wit(p.to_json())),
            Ok(res) => {
                let got = trap(|| (read(&res), res.get_offset()));
                let ok = matches!(got, Ok((g, o)) if (g == t_utc || g == t_loc) && o == Offset::Fixed(off));
                if !ok {
                    rec.violation(format!("C05|outward-receiver|{}|wrong-instant-or-offset", name), || wit(json!(trap(|| super::diff::utc_reads(&res)).unwrap_or_default())));
                }
            }
        }
    }));
    wls.push(Workload::cases("sibling_call_sequences", ctx.count(40_000, 1_500_000), |rec, idx, rng| {
        let day = match rng.below(3) {
            0 => rng.range_i64(-1500, 1500),
            1 => cal::days_from_civil(rng.range_i64(1990, 2030), rng.below(12) as u32 + 1, 27) + rng.below(5) as i64,
            _ => rng.range_i64(cal::MIN_DAY + 3, cal::MAX_DAY - 3),
        };
        let op = (idx % 4) as usize;
        let n = if rng.chance(2, 3) { rng.below(40) as u32 } else { special_counts(rng, day, op) };
        rec.bin("sequence/sibling-calls");
        judge_date(rec, day, op, n);
        for _ in 0..3 {
            let d2 = (day + *rng.pick(&[0i64, 1, -1, 28, 31, -31, 365, -366])).clamp(cal::MIN_DAY + 3, cal::MAX_DAY - 3);
            let op2 = if rng.chance(1, 2) { op } else { rng.below(4) as usize };
            let n2 = match rng.below(4) {
                0 => n,
                1 => n.wrapping_add(*rng.pick(&[1u32, 12, u32::MAX, u32::MAX - 11])),
                2 => *rng.pick(&[1u32 << 28, 1 << 27, 1 << 29, 1 << 30, (1 << 28) + 1, 3 << 27]),
                _ => special_counts(rng, d2, op2),
            };
            judge_date(rec, d2, op2, n2);
        }
        judge_date(rec, day, op, n);
    }));
    wls.push(Workload::cases("offset_local_twins", ctx.count(4_000, 40_000), |rec, _, rng| super::localzone::twin_case(rec, rng, "C05", super::walk::Family::Months)));
    wls.push(Workload::cases("date_api_walks", ctx.count(20_000, 800_000), |rec, _, rng| super::walk::walk_date(rec, rng, "C05", super::walk::Family::Months)));
    wls.push(Workload::cases("api_walks", ctx.count(30_000, 1_500_000), |rec, _, rng| super::walk::walk(rec, rng, "C05", super::walk::Family::Months)));
    wls.push(Workload::cases("trait_dispatch_vs_method_syntax", ctx.count(8_000, 200_000), |rec, _, rng| super::ufcs::case(rec, rng, "C05")));
    let out = run_workloads(ctx, wls);
    let mut meta = PropMeta::default();
    meta.rule = format!(
        "starts: every day of display years −8…8, −405…−400, 1896–1904, 1996–2004, 2019–2025 and the first/last 600 representable days ({} days{}) x N = 0..=48 exhaustively x 4 ops on Date, + per start 12 special N (u32::MAX−0..2, 2^31±1, the N landing on the first/last representable month ±2, <5000, uniform u32); a DateTime case with random time of day and offset for 1/7 of those; random starts over the whole range (month ends favoured); random API walks in which the month/year steps are judged. Oracle: total months on astronomical years in i64, euclidean split, day clamped to the target month. For a DateTime carrying an offset both the UTC-date and the local-date reading are accepted (the statement does not choose). Non-trivial = start day-of-month ≥ 29, era crossing, N ≥ 2^31 or unrepresentable target (Date); every DateTime case. Distinct by input hash. Fresh-thread workload: every case is the first shift a brand-new thread performs (starts and targets dense at the era boundary). Offset::Local twins as in C04 for the four month/year operations. Receivers whose local reading lies beyond a range end: shifts by 0..3 months/years towards the inside must not panic (UTC-date or local-date reading accepted). Offsets of a day or more in one DateTime case of ten. Date API walks. Sibling call sequences (incl. counts 2^27…2^30 and failing shifts in between).",
        days.len(),
        if quick { ", quick: days with dom < 28 thinned 6x" } else { "" }
    );
    meta.rule.push_str(" The property's trait methods are also called through the trait (generic code / UFCS) and must agree with method syntax on the same operands (a type may grow inherent twins of its trait methods).");
    meta.required_bins = vec!["trait-dispatch/compared", 
        "outward/local-reading-beyond-the-range-end",
        "date-walk/with-judged-steps",
        "sequence/sibling-calls",
        "local-twin/judged", "local-twin/synthetic-fixed-zone", "local-twin/real-zone-with-transitions",
        "clamp/none", "clamp/to28", "clamp/to29", "clamp/to30", "unrepresentable", "cross/BC→AD", "cross/AD→BC", "cross/none-BC", "cross/none-AD",
        "dom/29", "dom/30", "dom/31", "op/add_months", "op/sub_months", "op/add_years", "op/sub_years", "N>=2^31",
        "datetime/offset0", "datetime/offset-moves-date", "datetime/offset-same-date", "walk/with-judged-steps",
    ];
    meta.assumptions = vec!["calendar model as in C01".into()];
    Ok((meta, out))
}
