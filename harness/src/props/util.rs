//! Small helpers shared by the property monitors.
use crate::model::calendar as cal;

/// Leap class of a display year (≠ 0): common / div4 / div100 (common century) / div400.
pub fn leap_class(display_year: i64) -> &'static str {
    let a = cal::astro_year(display_year);
    if a.rem_euclid(400) == 0 {
        "div400"
    } else if a.rem_euclid(100) == 0 {
        "div100"
    } else if a.rem_euclid(4) == 0 {
        "div4"
    } else {
        "common"
    }
}

pub fn era(day: i64) -> &'static str {
    if day < 0 {
        "BC"
    } else {
        "AD"
    }
}

use crate::core::{Ctx, Rec, Workload};

pub fn leak(s: String) -> &'static str {
    Box::leak(s.into_boxed_str())
}

/// The day-number workloads shared by the per-day monitors: the whole i32 domain when `full`,
/// otherwise the structurally interesting windows plus a strided pass over the whole range.
/// `judge(rec, day, hashed)` is called once per visited day.
pub fn day_sweeps<'a>(
    ctx: &Ctx,
    prefix: &'static str,
    full: bool,
    quick_stride: u64,
    rel_stride: u64,
    judge: impl Fn(&mut Rec, i64, bool) + Sync + Clone + 'a,
) -> Vec<Workload<'a>> {
    let cyc = 146_097i64;
    let mk = |name: String, lo: i64, hi: i64, stride: u64, hashed: bool| -> Workload<'a> {
        let count = ((hi - lo) as u64) / stride + 1;
        let j = judge.clone();
        Workload::chunks(leak(name), count, 1 << 15, move |rec, r| {
            for k in r {
                j(rec, lo + (k * stride) as i64, hashed);
            }
        })
    };
    if full {
        vec![mk(format!("{}_all_days", prefix), cal::MIN_DAY, cal::MAX_DAY, 1, false)]
    } else {
        let stride = if ctx.quick() { quick_stride } else { rel_stride };
        vec![
            mk(format!("{}_around_era_boundary", prefix), -3 * cyc, 3 * cyc, 1, true),
            mk(format!("{}_1600_2400", prefix), cal::days_from_civil(1600, 1, 1), cal::days_from_civil(2400, 12, 31), 1, true),
            mk(format!("{}_low_range_end", prefix), cal::MIN_DAY, cal::MIN_DAY + 2 * cyc, 1, true),
            mk(format!("{}_high_range_end", prefix), cal::MAX_DAY - 2 * cyc, cal::MAX_DAY, 1, true),
            mk(format!("{}_strided_whole_range", prefix), cal::MIN_DAY, cal::MAX_DAY, stride, true),
        ]
    }
}

#[inline]
pub fn ts_of_day(n: i64) -> i64 {
    (n - cal::DAYS_TO_1970) * 86_400
}
