//! Small helpers shared by the property monitors.
use crate::model::calendar as cal;

/// Leap class of a display year (≠ 0): common / div4 / div100 (common century) / div400.
pub fn leap_class(display_year: i64) -> &'static str {
    let a = cal::astro_year(display_year);
    if a.rem_euclid(400) == 0 {
        "div400"
    } else if a.rem_euclid(100) == 0 {
        "div100"
    } else if a.rem_euclid(4) == 0 {
        "div4"
    } else {
        "common"
    }
}

pub fn era(day: i64) -> &'static str {
    if day < 0 {
        "BC"
    } else {
        "AD"
    }
}
