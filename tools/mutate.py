#!/usr/bin/env python3
"""Mechanical mutation screen of the monitors (not a MANIFEST command; never touches /repo's working tree).

Every mutant is one token-level edit of /repo/src (relational / arithmetic / boolean operator, integer literal ±1,
euclidean -> truncating division, checked -> wrapping arithmetic).  Each worker owns a scratch worktree of /repo and
a scratch copy of /verif pointed at it (under /tmp/mut/w<k>/), applies one mutant at a time, rebuilds the harness
(`san` profile, incremental), and runs the monitors most relevant to the mutated file first, stopping at the first
one that reports a violation ("killed by Cnn").  A mutant nobody reports is a SURVIVOR and is listed for triage
(equivalent / outside every property / a gap in a monitor).

usage: mutate.py run ... --ids M00001,M00002 | --ids @file   (only these mutants, e.g. to re-test survivors)
       mutate.py run ... --relevant-only   (only the monitors anchored in the mutated file; faster, for re-tests)
       mutate.py list                                   -> prints the mutant count per file
       mutate.py run <out.jsonl> [--jobs N] [--sample K] [--seed S] [--files a.rs,b.rs] [--tier quick]
       mutate.py suite <out.jsonl> <survivors.jsonl>    -> runs the crate's own test suite on the survivors
"""
import json, os, random, re, shutil, subprocess, sys, threading, time
from concurrent.futures import ThreadPoolExecutor

VERIF = os.path.dirname(os.path.dirname(os.path.abspath(__file__)))
ROOT = "/tmp/mut"
ALL = ["C%02d" % i for i in range(1, 21)]
EXCLUDE = ("src/verif.rs", "src/errors/", "src/sqlx/", "src/lib.rs", "src/local/errors.rs", "src/shared.rs")
RELEVANT = {
    "src/cron.rs": ["C16", "C17", "C14"],
    "src/local/": ["C18", "C19"],
    "src/offset.rs": ["C10", "C15", "C19", "C18"],
    "src/util/offset.rs": ["C10", "C09", "C08", "C11", "C20"],
    "src/util/parse.rs": ["C12", "C14", "C13", "C11", "C20"],
    "src/util/format.rs": ["C11", "C12", "C13", "C02", "C20", "C10"],
    "src/util/leap.rs": ["C01", "C02", "C05"],
    "src/util/date/": ["C01", "C02", "C05", "C07", "C15", "C09", "C04"],
    "src/util/time/": ["C04", "C08", "C06", "C03", "C09", "C15"],
    "src/util/constants.rs": ["C01", "C04", "C08", "C11", "C03", "C15"],
    "src/serde/": ["C20"],
    "src/date.rs": ["C01", "C04", "C05", "C03", "C06", "C07", "C09", "C15", "C11", "C12", "C20", "C02", "C14"],
    "src/time.rs": ["C08", "C10", "C09", "C06", "C15", "C11", "C12", "C20", "C03", "C14"],
    "src/datetime.rs": ["C04", "C09", "C10", "C03", "C06", "C05", "C07", "C13", "C12", "C15", "C11", "C20", "C02", "C14", "C17"],
}

OPS = [
    (r"(?<![<>=!\-+*/&|])<=(?!=)", ["<"]), (r"(?<![<>=!\-+*/&|])>=(?!=)", [">"]),
    (r"(?<![<>=!\-+*/&|:])<(?![<=:])", ["<="]), (r"(?<![<>=!\-+*/&|:\-])>(?![>=])", [">="]),
    (r"==", ["!="]), (r"!=", ["=="]),
    (r"&&", ["||"]), (r"\|\|", ["&&"]),
    (r"(?<=[\w\)\] ]) \+ (?=[\w\(])", [" - "]), (r"(?<=[\w\)\] ]) - (?=[\w\(])", [" + "]),
    (r"(?<=[\w\)\] ]) \* (?=[\w\(])", [" / "]), (r"(?<=[\w\)\] ]) / (?=[\w\(])", [" * "]),
    (r"(?<=[\w\)\] ]) % (?=[\w\(])", [" / "]),
    (r" \+= ", [" -= "]), (r" -= ", [" += "]),
    (r"\.rem_euclid\(", [".wrapping_rem("]), (r"\.div_euclid\(", [".wrapping_div("]),
    (r"\.checked_add\(", [".checked_sub("]), (r"\.checked_sub\(", [".checked_add("]),
    (r"\.unsigned_abs\(\)", [".wrapping_neg().unsigned_abs()"]),
    (r"\.is_negative\(\)", [".is_positive()"]), (r"\.is_positive\(\)", [".is_negative()"]),
]
INT = re.compile(r"(?<![\w.\"'])(\d[\d_]*)(?![\w.\"']|\.\d)")


def strip_tests(lines):
    """Index of the first line of a trailing `#[cfg(test)] mod` (those lines are not mutated)."""
    for i, l in enumerate(lines):
        if l.strip() == "#[cfg(test)]" and i + 1 < len(lines) and lines[i + 1].lstrip().startswith("mod "):
            return i
    return len(lines)


def mutants():
    out = []
    for dp, _, fns in os.walk("/repo/src"):
        for fn in sorted(fns):
            path = os.path.join(dp, fn)
            rel = os.path.relpath(path, "/repo")
            if not fn.endswith(".rs") or any(rel.startswith(e) for e in EXCLUDE):
                continue
            lines = open(path).read().split("\n")
            end = strip_tests(lines)
            in_cfg_test = 0
            for ln in range(end):
                l = lines[ln]
                s = l.strip()
                if s.startswith("//") or s.startswith("#[") or s.startswith("use ") or not s:
                    if s == "#[cfg(test)]":
                        in_cfg_test = 2
                    continue
                if in_cfg_test:
                    in_cfg_test -= 1
                    if in_cfg_test == 1 and ("fn " in l or "let " in l or "return" in l or "use " in l):
                        continue
                code = l.split("//")[0]
                if '"' in code:
                    # do not touch string literals: mutate only the part before the first quote
                    code = code[:code.index('"')]
                for rx, repls in OPS:
                    for m in re.finditer(rx, code):
                        if rx in (r"(?<![<>=!\-+*/&|:])<(?![<=:])", r"(?<![<>=!\-+*/&|:\-])>(?![>=])"):
                            # skip generics / arrows / turbofish: require spaces around comparison operators
                            if not (m.start() > 0 and code[m.start() - 1] == " " and m.end() < len(code) and code[m.end()] == " "):
                                continue
                        for r in repls:
                            out.append({"file": rel, "line": ln + 1, "col": m.start(), "orig": m.group(0), "repl": r})
                for m in INT.finditer(code):
                    tok = m.group(1)
                    try:
                        v = int(tok.replace("_", ""))
                    except ValueError:
                        continue
                    for r in ([v + 1] if v == 0 else [v + 1, v - 1]):
                        out.append({"file": rel, "line": ln + 1, "col": m.start(1), "orig": tok, "repl": str(r)})
    for i, m in enumerate(out):
        m["id"] = "M%05d" % i
    return out


def sh(cmd, **kw):
    return subprocess.run(cmd, capture_output=True, text=True, **kw)


relevant_only = False


def order_for(rel):
    first = []
    for k, v in RELEVANT.items():
        if rel.startswith(k):
            first = v
            break
    if relevant_only and first:
        return first
    return first + [c for c in ALL if c not in first]


class Worker:
    def __init__(self, k, tier):
        self.k, self.tier = k, tier
        self.base = os.path.join(ROOT, "w%d" % k)
        self.repo = os.path.join(self.base, "repo")
        self.ver = os.path.join(self.base, "verif")
        shutil.rmtree(self.base, ignore_errors=True)
        os.makedirs(self.base)
        a = sh(["git", "-C", "/repo", "worktree", "add", "--detach", self.repo, "HEAD"])
        assert a.returncode == 0, a.stderr
        sh(["rsync", "-a", "--exclude", "target", "--exclude", ".git", "--exclude", "replays", "--exclude", "evidence",
            "--exclude", "seeded", "--exclude", "notes", VERIF + "/", self.ver + "/"])
        ct = os.path.join(self.ver, "harness", "Cargo.toml")
        text = open(ct).read().replace('path = "/repo"', 'path = "%s"' % self.repo)
        open(ct, "w").write(text)
        self.env = dict(os.environ, CARGO_NET_OFFLINE="true", RUSTFLAGS="--cfg astrolabe_verif", VERIF_ROOT=self.ver)
        b = self.build()
        assert b.returncode == 0, "initial harness build failed: " + b.stderr[-400:]

    def build(self):
        return sh(["cargo", "build", "--offline", "--profile", "san", "--quiet", "-j", "4"], cwd=os.path.join(self.ver, "harness"), env=self.env)

    def close(self):
        sh(["git", "-C", "/repo", "worktree", "remove", "--force", self.repo])
        shutil.rmtree(self.base, ignore_errors=True)

    def run(self, m, seed):
        path = os.path.join(self.repo, m["file"])
        src = open(path).read()
        lines = src.split("\n")
        l = lines[m["line"] - 1]
        assert l[m["col"]:m["col"] + len(m["orig"])] == m["orig"], (m, l)
        lines[m["line"] - 1] = l[:m["col"]] + m["repl"] + l[m["col"] + len(m["orig"]):]
        res = dict(m, status="survived", killed_by=None, inconclusive=[], context=l.strip()[:160])
        try:
            open(path, "w").write("\n".join(lines))
            b = self.build()
            if b.returncode != 0:
                res["status"] = "does-not-compile"
                return res
            binp = os.path.join(self.ver, "harness", "target", "san", "astromon")
            for prop in order_for(m["file"]):
                outp = os.path.join(self.base, "out.json")
                if os.path.exists(outp):
                    os.remove(outp)
                try:
                    p = subprocess.run([binp, prop, self.tier, "--build", "san", "--seed", str(seed), "--out", outp, "--workers", "5"],
                                       cwd=self.ver, env=self.env, capture_output=True, text=True, timeout=900)
                except subprocess.TimeoutExpired:
                    res["inconclusive"].append(prop + ":timeout")
                    continue
                if p.returncode == 3:
                    res.update(status="killed", killed_by=prop, signature="watchdog: " + p.stdout.strip().splitlines()[-1][:200])
                    break
                if p.returncode != 0 or not os.path.exists(outp):
                    res["inconclusive"].append("%s:exit%d %s" % (prop, p.returncode, p.stdout.strip()[-160:]))
                    continue
                r = json.load(open(outp))
                if r["violations"]:
                    res.update(status="killed", killed_by=prop, n_signatures=len(r["violations"]), signature=r["violations"][0]["signature"])
                    break
                if r.get("empty_required_bins"):
                    res["inconclusive"].append("%s:empty-bins %s" % (prop, ",".join(r["empty_required_bins"])[:100]))
        finally:
            open(path, "w").write(src)
        return res


def main():
    a = sys.argv[1:]
    if not a or a[0] == "list":
        ms = mutants()
        by = {}
        for m in ms:
            by[m["file"]] = by.get(m["file"], 0) + 1
        for k in sorted(by):
            print("%5d %s" % (by[k], k))
        print("%5d total" % len(ms))
        return
    if a[0] == "run":
        out = a[1]
        jobs, sample, seed, files, tier, ids = 3, None, 1, None, "quick", None
        global relevant_only
        i = 2
        while i < len(a):
            if a[i] == "--jobs": jobs = int(a[i + 1])
            elif a[i] == "--sample": sample = int(a[i + 1])
            elif a[i] == "--seed": seed = int(a[i + 1])
            elif a[i] == "--files": files = a[i + 1].split(",")
            elif a[i] == "--tier": tier = a[i + 1]
            elif a[i] == "--relevant-only": relevant_only = True; i -= 1
            elif a[i] == "--ids": ids = set(open(a[i + 1][1:]).read().split()) if a[i + 1].startswith("@") else set(a[i + 1].split(","))
            i += 2
        ms = mutants()
        if files:
            ms = [m for m in ms if any(m["file"].endswith(f) for f in files)]
        if ids:
            ms = [m for m in ms if m["id"] in ids]
        done = set()
        if os.path.exists(out):
            for l in open(out):
                try: done.add(json.loads(l)["id"])
                except Exception: pass
        random.Random(seed).shuffle(ms)
        if sample:
            ms = ms[:sample]
        ms = [m for m in ms if m["id"] not in done]
        print("%d mutants to run" % len(ms), flush=True)
        os.makedirs(ROOT, exist_ok=True)
        lock = threading.Lock()
        q = list(ms)
        def work(k):
            w = Worker(k, tier)
            try:
                while True:
                    with lock:
                        if not q: return
                        m = q.pop()
                    t0 = time.time()
                    try:
                        r = w.run(m, seed)
                    except Exception as e:
                        r = dict(m, status="error", error=str(e)[:300])
                    r["secs"] = round(time.time() - t0, 1)
                    with lock:
                        open(out, "a").write(json.dumps(r, ensure_ascii=False) + "\n")
                        print(r["id"], r["file"], r["line"], repr(r["orig"]), "->", repr(r["repl"]), r["status"], r.get("killed_by"), r["secs"], flush=True)
            finally:
                w.close()
        with ThreadPoolExecutor(jobs) as ex:
            for k in range(jobs):
                ex.submit(work, k)
        sh(["git", "-C", "/repo", "worktree", "prune"])
        return
    if a[0] == "suite":
        # which survivors does the crate's own suite kill?
        res_path, out = a[1], a[2]
        surv = [json.loads(l) for l in open(res_path) if json.loads(l)["status"] == "survived"]
        wt = os.path.join(ROOT, "suite")
        shutil.rmtree(wt, ignore_errors=True); os.makedirs(ROOT, exist_ok=True)
        assert sh(["git", "-C", "/repo", "worktree", "add", "--detach", wt, "HEAD"]).returncode == 0
        env = dict(os.environ, CARGO_NET_OFFLINE="true")
        try:
            for m in surv:
                path = os.path.join(wt, m["file"]); src = open(path).read(); lines = src.split("\n")
                l = lines[m["line"] - 1]
                lines[m["line"] - 1] = l[:m["col"]] + m["repl"] + l[m["col"] + len(m["orig"]):]
                open(path, "w").write("\n".join(lines))
                p = sh(["cargo", "test", "--workspace", "--no-fail-fast", "--offline", "-j", "8"], cwd=wt, env=env)
                m["suite"] = "passes" if p.returncode == 0 else "fails"
                open(path, "w").write(src)
                open(out, "a").write(json.dumps(m, ensure_ascii=False) + "\n")
                print(m["id"], m["file"], m["line"], m["orig"], "->", m["repl"], "suite", m["suite"], flush=True)
        finally:
            sh(["git", "-C", "/repo", "worktree", "remove", "--force", wt]); shutil.rmtree(wt, ignore_errors=True)


if __name__ == "__main__":
    main()
