#!/usr/bin/env python3
"""Copies confirmed seeded changes from the agents' scratch worktrees into /verif/seeded/<id>/."""
import json, os, shutil, sys
res = {}
for l in open('/tmp/seedwork/confirm_results.txt'):
    p, L, js = l.split(' ', 2)
    res[(p, L)] = json.loads(js)
for (p, L), d in sorted(res.items()):
    if not d.get('confirmed'):
        print('skip (not confirmed)', p, L); continue
    src = '/tmp/seedwork/wt_%s/SEEDED' % p
    dst = '/verif/seeded/%s-%s' % (p, L)
    os.makedirs(dst, exist_ok=True)
    shutil.copy(os.path.join(src, '%s.patch.diff' % L), os.path.join(dst, 'patch.diff'))
    shutil.copy(os.path.join(src, '%s_demo.rs' % L), os.path.join(dst, 'demo.rs'))
    shutil.copy(os.path.join(src, 'README.md'), os.path.join(dst, 'AUTHOR_README.md'))
    demo = open(os.path.join(dst, 'demo.rs')).read()
    hooks = 'astrolabe_verif' in demo or 'astrolabe::verif' in demo
    meta_path = os.path.join(dst, 'meta.json')
    old = json.load(open(meta_path)) if os.path.exists(meta_path) else {}
    meta = {
        "id": "%s-%s" % (p, L),
        "property": p,
        "origin": "written by an independent sub-agent that saw only the property text and a scratch worktree of /repo (nothing from /verif)",
        "breaks": old.get("breaks", ""),
        "needs_to_manifest": old.get("needs_to_manifest", ""),
        "demo_needs_hooks": hooks,
        "confirmed_by": "tools/confirm_seeded.py in a scratch worktree: demo passes on the unchanged tree; with the patch the unedited suite passes (%d passed, %d failed) and the demo fails (%d passed, %d failed)" % (
            d['suite_with_change']['counts'][0], d['suite_with_change']['counts'][1], d['demo_with_change']['counts'][0], d['demo_with_change']['counts'][1]),
        "how_to_run_demo": "git worktree of /repo; git apply patch.diff; cp demo.rs tests/seeded_demo.rs; %scargo test --offline --test seeded_demo" % ('RUSTFLAGS="--cfg astrolabe_verif" ' if hooks else ''),
        "detected_by": old.get("detected_by", {}),
    }
    json.dump(meta, open(meta_path, 'w'), indent=1, ensure_ascii=False)
    print('installed', dst)
