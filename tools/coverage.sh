#!/bin/bash
# Line/region coverage of /repo/src reached by the monitors (all 20 properties, one tier).
# Not a MANIFEST command: an aid for finding behaviour no monitor drives. Needs the nightly
# toolchain (llvm-profdata / llvm-cov live in its sysroot).   usage: tools/coverage.sh [quick|thorough] [out-prefix]
set -euo pipefail
TIER=${1:-quick}
OUT=${2:-/verif/notes/coverage_$TIER}
VERIF=/verif
TD=$VERIF/harness/target/cov
BIN=$(rustc +nightly --print sysroot)/lib/rustlib/x86_64-unknown-linux-gnu/bin
PROF=$TD/prof
rm -rf "$PROF"; mkdir -p "$PROF"
cd $VERIF/harness
CARGO_NET_OFFLINE=true RUSTFLAGS="--cfg astrolabe_verif -Cinstrument-coverage" \
  cargo +nightly build --offline --profile san --target-dir "$TD" --quiet
for i in 01 02 03 04 05 06 07 08 09 10 11 12 13 14 15 16 17 18 19 20; do
  LLVM_PROFILE_FILE="$PROF/C$i-%p.profraw" VERIF_ROOT=$VERIF "$TD/san/astromon" C$i $TIER --build san --seed ${VERIF_SEED:-1} \
     --out "$PROF/C$i.json" >/dev/null 2>&1 || echo "C$i exit $?"
done
"$BIN/llvm-profdata" merge -sparse "$PROF"/*.profraw -o "$PROF/all.profdata"
"$BIN/llvm-cov" report "$TD/san/astromon" -instr-profile="$PROF/all.profdata" --sources /repo/src > "$OUT.report.txt" 2>/dev/null || \
"$BIN/llvm-cov" report "$TD/san/astromon" -instr-profile="$PROF/all.profdata" -ignore-filename-regex='(harness|registry|rustc)' > "$OUT.report.txt"
"$BIN/llvm-cov" show "$TD/san/astromon" -instr-profile="$PROF/all.profdata" --sources /repo/src --show-line-counts-or-regions \
   > "$OUT.show.txt" 2>/dev/null || true
# uncovered executable lines per file
python3 - "$OUT.show.txt" > "$OUT.uncovered.txt" <<'E'
import re,sys
cur=None
for l in open(sys.argv[1],errors='replace'):
    m=re.match(r'^(/repo/src/\S+):$',l.strip())
    if m: cur=m.group(1); continue
    m=re.match(r'^\s*(\d+)\|\s*0\|(.*)$',l)
    if m and cur: print("%s:%s: %s"%(cur,m.group(1),m.group(2).rstrip()))
E
rm -rf "$PROF"
tail -3 "$OUT.report.txt"; wc -l "$OUT.uncovered.txt"
