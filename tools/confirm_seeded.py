#!/usr/bin/env python3
"""Confirms a candidate seeded change in a scratch worktree (never in /repo):
  1. unchanged tree + demo  -> demo passes
  2. patch applied, no demo -> the unedited suite passes (166 tests + doc-tests, same counts as baseline)
  3. patch applied + demo   -> demo fails
usage: confirm_seeded.py <worktree> <patch.diff> <demo.rs> [--hooks]"""
import json, os, re, shutil, subprocess, sys

def run(cmd, cwd, env=None):
    e = dict(os.environ); e["CARGO_NET_OFFLINE"] = "true"
    if env: e.update(env)
    return subprocess.run(cmd, cwd=cwd, env=e, capture_output=True, text=True)

def counts(out):
    p = f = 0
    for m in re.finditer(r"test result: \w+\. (\d+) passed; (\d+) failed", out):
        p += int(m.group(1)); f += int(m.group(2))
    return p, f

def main():
    wt, patch, demo = sys.argv[1:4]
    hooks = "--hooks" in sys.argv
    env = {"RUSTFLAGS": "--cfg astrolabe_verif"} if hooks else None
    demo_dst = os.path.join(wt, "tests", "seeded_demo.rs")
    res = {}
    run(["git", "checkout", "--", "src", "tests", "Cargo.toml"], wt)
    if os.path.exists(demo_dst): os.remove(demo_dst)
    try:
        shutil.copy(demo, demo_dst)
        r = run(["cargo", "test", "--offline", "--test", "seeded_demo"], wt, env)
        res["demo_on_unchanged"] = {"exit": r.returncode, "counts": counts(r.stdout)}
        os.remove(demo_dst)
        a = run(["git", "apply", patch], wt)
        if a.returncode != 0:
            res["error"] = "patch does not apply: " + a.stderr[-300:]; print(json.dumps(res)); return
        res["files_changed"] = run(["git", "diff", "--stat"], wt).stdout.strip().splitlines()[-1:]
        r = run(["cargo", "test", "--workspace", "--no-fail-fast", "--offline"], wt)
        res["suite_with_change"] = {"exit": r.returncode, "counts": counts(r.stdout)}
        shutil.copy(demo, demo_dst)
        r = run(["cargo", "test", "--offline", "--test", "seeded_demo"], wt, env)
        res["demo_with_change"] = {"exit": r.returncode, "counts": counts(r.stdout), "tail": r.stdout[-400:] if r.returncode else ""}
    finally:
        if os.path.exists(demo_dst): os.remove(demo_dst)
        run(["git", "checkout", "--", "src", "tests", "Cargo.toml"], wt)
    ok = (res.get("demo_on_unchanged", {}).get("exit") == 0 and res.get("suite_with_change", {}).get("exit") == 0
          and res.get("suite_with_change", {}).get("counts", (0, 1))[0] >= 198 and res.get("demo_with_change", {}).get("exit") not in (0, None))
    res["confirmed"] = bool(ok)
    print(json.dumps(res))

if __name__ == "__main__":
    main()
