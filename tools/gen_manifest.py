#!/usr/bin/env python3
"""Regenerates /verif/MANIFEST.json from the table below (keeps the file valid at all times)."""
import json, os, subprocess
VERIF = os.path.dirname(os.path.dirname(os.path.abspath(__file__)))

# property id -> (DESIGN section, level text, level note)
CLAIMED = {
 "C01": ("§5 C01", "Exhaustive runtime sweep: all 2^32 day numbers (thorough, overflow-checked build) are pushed through from_timestamp/as_ymd/from_ymd/timestamp and judged against an independent calendar model, plus a boundary-dense grid of (year, month, day) triples; quick explores the structurally interesting 5e6 days. Held = no disagreement on the executions listed in the evidence.",
         "Trusted base: the harness calendar model (self-checked at start-up against a day-by-day walk). Triples are sampled (grid + random), not exhaustive over 5.4e9."),
}

def main():
    props = [json.loads(l) for l in open(os.path.join(VERIF, "properties.jsonl"))]
    hook_commits = []
    try:
        out = subprocess.run(["git", "-C", "/repo", "log", "--format=%H %s"], capture_output=True, text=True).stdout
        hook_commits = [l.split()[0] for l in out.splitlines() if " verif hooks" in l or l.split(" ", 1)[1].startswith("verif hook")]
    except Exception:
        pass
    checks, na = [], []
    for p in props:
        pid = p["id"]
        if pid in CLAIMED:
            ref, text, note = CLAIMED[pid]
            checks.append({
                "property_id": pid,
                "quick_cmd": "./check %s quick" % pid,
                "thorough_cmd": "./check %s thorough" % pid,
                "evidence_file": "/verif/evidence/%s.json" % pid,
                "replay_cmd_template": "./check --replay {path}",
                "engine": "astromon",
                "level_claimed": {"category": "exploration", "text": text, "design_ref": ref},
                "level_note": note,
                "technique": "runtime monitoring: reference-model oracle + panic/overflow trap over generated and enumerated executions, two builds (overflow-checked and release)",
            })
        else:
            na.append({"property_id": pid, "reason": "monitor not built yet (work in progress; planned in DESIGN.md §5)"})
    m = {
        "version": 1,
        "setup_cmd": "./check --build-only",
        "hooks": {
            "guard": "--cfg astrolabe_verif (rustc cfg, passed through RUSTFLAGS)",
            "enable": "RUSTFLAGS='--cfg astrolabe_verif' cargo build --offline --profile {san,rel} in /verif/harness (path dependency on /repo)",
            "baseline_off_cmd": "cd /repo && cargo test --workspace --no-fail-fast --offline",
            "source_commits": hook_commits,
            "add_only": True,
        },
        "engines": [{"name": "astromon", "path": "/verif/harness", "serves_properties": sorted(CLAIMED.keys()),
                     "kind_free_text": "Rust monitor harness (reference models, panic trap, event bins) driven by /verif/check; builds astrolabe from /repo's working tree in two profiles"}],
        "checks": checks,
        "not_applicable": na,
        "notes": "See DESIGN.md. Every check: exit 0 held / exit 1 VIOLATION lines / exit 2 INCONCLUSIVE. known_findings.json lists recorded and fixed defects.",
    }
    with open(os.path.join(VERIF, "MANIFEST.json"), "w") as f:
        json.dump(m, f, indent=1)
    print("MANIFEST.json: %d checks, %d not yet claimed" % (len(checks), len(na)))

if __name__ == "__main__":
    main()
