#!/usr/bin/env python3
"""Regenerates /verif/MANIFEST.json from the table below (keeps the file valid at all times)."""
import json, os, subprocess
VERIF = os.path.dirname(os.path.dirname(os.path.abspath(__file__)))

# property id -> (DESIGN section, level text, level note)
CLAIMED = {
 "C01": ("§5 C01", "Exhaustive runtime sweep: all 2^32 day numbers and all 5.4e9 (year, month 0..=13, day 0..=32) triples (every run of the overflow-checked build, quick included; thorough also the release build) are pushed through from_timestamp/as_ymd/from_ymd/timestamp and judged against an independent calendar model, plus boundary-dense grids and neighbour call sequences. Held = no disagreement on the executions listed in the evidence.",
         "Trusted base: the harness calendar model (self-checked at start-up against a day-by-day walk). Exhaustive over the statement's quantifier in the overflow-checked build; the release build is sampled in quick."),
 "C02": ("§5 C02", "Exhaustive runtime sweep of weekday()/day_of_year() and of the e/w/q/D format fields over all 2^32 days (thorough), year-grid x day-of-year 0..=367 for the setter; quick covers the era boundary, 1600-2400, both range ends and a strided pass.",
         "Trusted base: calendar model (ISO week = week of the Thursday on astronomical years)."),
 "C03": ("§5 C03", "Stratified exploration of i64 timestamps (range edges, alignment classes, out-of-range) and of instant pairs with independent offsets; every ==/cmp/*_since sign is compared with i128 model instants.",
         "Sampled, not exhaustive: 2e7 timestamps / 1e7 pairs in thorough. Instants are built/read through the public API, which is itself cross-checked here against the model."),
 "C04": ("§5 C04", "Stratified exploration of (instant, offset, method, count) with counts placed at the 64-bit wrap thresholds and at the model-computed representability edge, in an overflow-checked and a release build; Duration/Time operators and Date arithmetic likewise.",
         "Sampled over a 2^128-sized product space; bins in the evidence show which strata were hit."),
 "C05": ("§5 C05", "All days of five multi-year windows (era boundary, century years, leap years, both range ends) x N=0..=48 x 4 operations exhaustively, plus special N (2^31, u32::MAX, landing on the first/last representable month) and random starts; oracle = month arithmetic on astronomical years.",
         "For a DateTime carrying an offset the statement does not say whether the UTC or the local calendar date moves; both readings are accepted."),
 "C06": ("§5 C06", "The C03 pair workload: all seven *_since compared with exact i128 differences truncated toward zero, antisymmetry, duration_between, and the add-inverse relation through the library's own add_*.",
         "Sampled pairs (1e7 in thorough), rich in sub-unit borrow cases and era-straddling pairs."),
 "C07": ("§5 C07", "Exhaustive over all ordered pairs of dates inside three multi-year windows (leap day, era boundary, common century year) in thorough, 400-day sub-windows in quick; DateTime pairs with times around the borrow point; random far-apart pairs.",
         "Value claim only when the earlier date's day of month <= 28, as the property states; the reference month shift is the model's, not the library's."),
 "C08": ("§5 C08", "All 86 400 seconds x sub-second boundaries x random (method, count); all ordered pairs of a boundary set for Time+-Time; Duration strata; constructor grids; DateTime->Time conversions in all eras; random API walks checked step by step against a mod-24h model.",
         "Sampled counts; the invariant as_nanos() < 24h is checked on every Time the monitors see."),
 "C09": ("§5 C09", "Boundary-dense instants x offsets that move the local date x 10 setters x candidate values and 9 clears, all ten getters + instant + offset compared with a local-field model; Date and Time subsets.",
         "Results within one day of the range ends are skipped (no representable expectation)."),
 "C10": ("§5 C10", "Exhaustive over all 172 799 offsets x stratified instants (4 in quick, 64 in thorough) for DateTime and Time: instant/order/differences unchanged, every getter and a formatted rendering equal the shifted instant's fields, as_offset semantics, Offset constructors over every second value.",
         "Exhaustive in the offset dimension, sampled in the instant dimension."),
 "C11": ("§5 C11", "Every (type, symbol, width 1..=10) against hundreds/thousands of stratified values plus random compositions with literals, quoting and multi-byte text, compared with a renderer written from the documentation tables.",
         "Trusted base: fmt_spec (self-checked on the documentation's own examples). yy on negative years, NUL and unterminated quotes are outside the oracle."),
 "C12": ("§5 C12", "Random (value, pattern) round trips with patterns drawn from an explicit unambiguous-field grammar; string-level fixpoint, instant/offset recovery when the pattern is complete, defaults for absent fields.",
         "The grammar (model/pattern_gen.rs) is the quantifier: patterns outside it are not judged."),
 "C13": ("§5 C13", "Write side: local instants in years 1-9999 x whole-minute offsets x 5 precisions, output recognised by a hand-written RFC 3339 recogniser and mapped back to the instant; read side: ABNF-generated timestamps with every fraction length 0..=40, both entry points, plus single-field mutations that must be rejected.",
         "Trusted base: model/rfc3339.rs (generator, recogniser, reader). Second 60 at 23:59 UTC, lower-case t/z and year 0000 with all other fields in range are not judged."),
 "C14": ("§5 C14", "Exhaustive enumeration of every short input over a hostile alphabet for each single symbol x width and of every short quote-shape pattern, plus mutation of real round-trip material, RFC 3339/FromStr/cron strings, range-end values with offsets and 10 000-character inputs; the only oracle is the outcome class (Ok with a valid value / Err / panic) in an overflow-checked and a release build.",
         "Exhaustive only up to the stated lengths; beyond that mutational."),
 "C15": ("§5 C15", "Boundary-dense argument grids and random tuples for every fallible constructor and setter; accept/reject compared with documented ranges + calendar model, error kind checked, and the range stated in the error text checked for consistency with what is accepted.",
         "Which parameter is named when several are invalid, and wording, are not judged."),
 "C16": ("§5 C16", "Grammar-generated expressions, every value/range/step/name per field, and all single-character edits of base expressions judged against a reference grammar; for accepted expressions the denoted sets are observed behaviourally by pinning the clock and asking next() one membership question per field value.",
         "Needs the clock hook. Shapes the documentation does not settle (a-b/n, steps above the field size, ? L W #) are skipped; zero-padded numbers are judged only when the crate accepts them, against their numeric reading."),
 "C17": ("§5 C17", "Recorded histories of 4-40 next() calls under a pinned clock that advances arbitrarily between calls, checked event by event against an executable model (earliest matching minute after max(previous, now)); clone continuity.",
         "Satisfiable schedules, non-decreasing clock, years -9999..9999; needs the clock hook."),
 "C18": ("§5 C18", "The vendored IANA corpus (fat + slim) and synthetic v1/v2/v3 files looked up at every transition -1/0/+1 s, every rule switch +-1 s over 16 years and random timestamps, compared with an RFC 8536 / POSIX-TZ reference that is itself cross-checked against CPython zoneinfo on the same lookups; a sample goes end-to-end through Offset::Local.",
         "Needs the TZif and /etc/localtime hooks. Reference = model/tzif_ref.rs; CPython comparison skips footers using the zero-based n day form (CPython deviates from POSIX there)."),
 "C19": ("§5 C19", "Fault enumeration over TZif structure: every header count x boundary values, every truncation point, every type index, version bytes, hostile and grammar-mutated footers, random damage; each accepted file is looked up across the whole DateTime range incl. both ends, and a sample is installed as /etc/localtime for Offset::Local.resolve().",
         "Needs the TZif and /etc/localtime hooks. Only panics/hangs are violations."),
 "C20": ("§5 C20", "Dates over the whole range (5-7 digit and negative years), every second of the day x offsets for Time, DateTimes in years 1-9999 x whole-minute offsets: Display vs documented rendering, FromStr, serde_json round trips; mutated strings must yield errors, not panics.",
         "serde is exercised through serde_json only."),
}
# what rounds 5/6 added (DESIGN §10.8, §10.11)
_SEQ = " Every 61st case runs as the first calls of a fresh thread; call sequences of related values (siblings, then the first again) are part of the workload."
_MAG = " Instants, differences, counts and Durations are also placed at 2^k·unit magnitudes (2^15…2^64 of ns…weeks)."
_LOC = " Values carrying Offset::Local (system zone and clock redirected by the hooks) are compared with their Offset::Fixed twins."
_R9 = {
 "C02": " The e/D/w/q fields are also read in random company of other symbols (Date, DateTime in the first/last hour of the local day).",
 "C03": " One pair in eight is a representation relative of the first operand (radix/xor folds of day and time fields, bitwise unit relatives, wrapped residues).",
 "C06": " One pair in eight is a representation relative of the first operand (radix/xor folds, bitwise unit relatives, wrapped residues), for DateTime and Time.",
 "C07": " Anniversary pairs at any distance (months, whole years, whole 400-year cycles, 2^j months) with structured times of day.",
 "C10": " Fields in random company: the offset value and the offset-free shifted value get the same pattern; format_rfc3339 fields under any offset. Pairs of Times: ==, cmp, the six *_since and duration_between read the same with the same offset on both sides, different offsets, or an offset on one side only.",
 "C11": " EVERY Unicode scalar value as a literal (exhaustive); a corpus of 62 common patterns for every type.",
 "C12": " The unambiguous part of the common-pattern corpus; the other type's symbol runs as literal delimiters.",
 "C13": " Rejection through parse_rfc3339 and FromStr; several fields out of range at once; sentinel grid (0000-00-00 … 9999-99-99); second 60 away from 23:59 UTC.",
 "C14": " The text APIs also run under a hostile pinned clock (range ends, era boundary, 2^k) and redirected zone (hooks).",
 "C15": " Result-directed setter cases: the result is drawn at a range end, the receiver derived from it.",
 "C16": " Results pulled through nth/skip/take/step_by/for-loops as well as next(); zero-padded numbers judged against their numeric reading when accepted.",
 "C17": " Results pulled through nth(k)/skip(k)/take(k+1); clone_from across used/unused source and target states; one-field-restricted schedules.",
 "C18": " Designations and footer names that look like syntax or are long/quoted; a transition spelling the magic; footers re-spelled with every spelling the grammar allows for one value (explicit +, two-digit hours, h:mm:ss written out, the default /2 explicit).",
 "C19": " Self-aligned files whose header fields are all drawn independently.",
 "C20": " Display through width/fill/precision/flags/forwarding wrapper.",
}
EXTRA = {
 "C01": _SEQ, "C02": _SEQ + " set_day_of_year is also judged in the two partly representable years with offsets.",
 "C03": _MAG + _SEQ + _LOC + " Values whose local reading lies beyond a range end are compared as well.",
 "C04": _MAG + _SEQ + _LOC, "C05": _SEQ + _LOC + " A dedicated workload makes every shift the first one of a brand-new thread.",
 "C06": _MAG + _SEQ + _LOC, "C07": _SEQ + _LOC + " A dedicated workload makes every pair the first call of a brand-new thread.",
 "C08": _MAG + _SEQ, "C09": _SEQ + _LOC + " Absolute check: the getter of the field set reads the value set; cleared fields read their minimum.",
 "C10": _MAG + _SEQ + " as_offset is also applied to receivers that already carry an offset.",
 "C11": _MAG + _SEQ + " Offset::Local values are formatted under a changing system zone (hooks). Literals incl. control characters, Unicode numerics and 256+-character runs.",
 "C12": _MAG + _SEQ, "C13": _MAG + _SEQ + " format_rfc3339 of Offset::Local values under a changing system zone (hooks).",
 "C14": _SEQ + " Pile-ups of fields for one component with maximal digits.", "C15": _SEQ + " Constructors are read back through as_ymdhms/as_hms; setters are also applied to results of earlier operations (API walks).",
 "C16": _SEQ + " Edit alphabet incl. case-fold look-alikes (ſ ı K İ); boundary-shift parse sequences.", "C17": _SEQ + " Starts include years before year 1 and the 8-year leap-day gaps around century years.",
 "C18": _SEQ + " Lookups of several zones interleaved on one thread; 32-bit time_t limits probed.", "C19": _SEQ + " Enumerated magnitude ladder for every numeric footer slot; bases with 254/255/256 types; accepted files looked up at their own transitions.",
 "C20": _MAG + _SEQ + " One instant under changing offsets in sequence; Offset::Local under a changing system zone (hooks); relative claims judged on every constructible value.",
}

_UF = " The property's trait methods are also called through the trait (generic code) and must agree with method syntax."
_R10 = {
 "C01": " Triples also written out as text through every text constructor (year 0 included); one value, one date for DateTimes parsed from piled-up fraction fields.",
 "C02": " The judged symbol also twice in one pattern, with '' and quoted separators.",
 "C03": _UF, "C04": _UF, "C05": _UF, "C09": _UF, "C10": _UF,
 "C06": _UF + " Route independence: operands reached through -= Time, += Time, Date round trip, clear_until_hour, sub_* must give the same differences as independently built ones.",
 "C07": _UF + " Rows around days a whole number of 400-year cycles from the usual day-number epochs; anniversaries of leap days.",
 "C13": " Fractions with long runs of nines/zeros crossing the ninth digit; a {min,max,max+1,typical}^5 field grid.",
 "C14": " Cut-position straddlers (a multi-byte character across every byte offset up to 1100) in every text position; range-end texts with a day-of-year field.",
 "C15": " Setters on Offset::Local values after the zone file changed behind the same name; the Local battery in child processes under 48 hostile environments (TZ, TZDIR, LANG, …).",
 "C16": " EVERY Unicode scalar value in place of each of nine syntax positions of a base expression.",
 "C17": " Schedules whose day of month never occurs in the listed months, OR-ed with a restricted weekday.",
 "C18": " Offset::Local must follow the zone file when it changes behind the same name (rewritten, same size and mtime, symlink target replaced, re-pointed, recreated).",
 "C19": " Generated footers (both rules at the same instant; straddlers behind 14 prefixes); the Local battery in child processes under 48 hostile environments.",
}
for _k, _v in _R9.items():
    EXTRA[_k] = EXTRA.get(_k, "") + _v
for _k, _v in _R10.items():
    EXTRA[_k] = EXTRA.get(_k, "") + _v


def main():
    props = [json.loads(l) for l in open(os.path.join(VERIF, "properties.jsonl"))]
    hook_commits = []
    try:
        out = subprocess.run(["git", "-C", "/repo", "log", "--format=%H %s"], capture_output=True, text=True).stdout
        hook_commits = [l.split()[0] for l in out.splitlines() if " verif hooks" in l or l.split(" ", 1)[1].startswith("verif hook")]
    except Exception:
        pass
    checks, na = [], []
    for p in props:
        pid = p["id"]
        if pid in CLAIMED:
            ref, text, note = CLAIMED[pid]
            checks.append({
                "property_id": pid,
                "quick_cmd": "./check %s quick" % pid,
                "thorough_cmd": "./check %s thorough" % pid,
                "evidence_file": "/verif/evidence/%s.json" % pid,
                "replay_cmd_template": "./check --replay {path}",
                "engine": "astromon",
                "level_claimed": {"category": "fault_enumeration" if pid == "C19" else "exploration", "text": text + EXTRA.get(pid, ""), "design_ref": ref + ", §10.11–§10.14"},
                "level_note": note,
                "technique": "runtime monitoring: reference-model oracle + panic/overflow trap (arithmetic sanitizer build and release build) over generated and enumerated executions; results observed differentially through every public read-out route against independently built values; call-sequence and fresh-thread histories for hidden state",
            })
        else:
            na.append({"property_id": pid, "reason": "monitor not built yet (work in progress; planned in DESIGN.md §5)"})
    m = {
        "version": 1,
        "setup_cmd": "./check --build-only",
        "hooks": {
            "guard": "--cfg astrolabe_verif (rustc cfg, passed through RUSTFLAGS)",
            "enable": "RUSTFLAGS='--cfg astrolabe_verif' cargo build --offline --profile {san,rel} in /verif/harness (path dependency on /repo)",
            "baseline_off_cmd": "cd /repo && cargo test --workspace --no-fail-fast --offline",
            "source_commits": hook_commits,
            "add_only": True,
        },
        "engines": [{"name": "astromon", "path": "/verif/harness", "serves_properties": sorted(CLAIMED.keys()),
                     "kind_free_text": "Rust monitor harness (reference models, panic trap, event bins) driven by /verif/check; builds astrolabe from /repo's working tree in two profiles"}],
        "checks": checks,
        "not_applicable": na,
        "notes": "See DESIGN.md. Every check: exit 0 held / exit 1 VIOLATION lines / exit 2 INCONCLUSIVE. known_findings.json lists recorded and fixed defects.",
    }
    with open(os.path.join(VERIF, "MANIFEST.json"), "w") as f:
        json.dump(m, f, indent=1)
    print("MANIFEST.json: %d checks, %d not yet claimed" % (len(checks), len(na)))

if __name__ == "__main__":
    main()
