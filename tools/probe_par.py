#!/usr/bin/env python3
"""Runs checks against candidate changes WITHOUT touching /repo: for every change a scratch worktree of
/repo (patch applied) and a scratch copy of /verif whose harness points at that worktree are made under
/tmp/probe_par/<id>/, the checks run there, results are recorded, and the scratch is removed again.
Several changes run concurrently.  Not a MANIFEST command (registered checks always use /repo itself).

usage: probe_par.py <out.json> [--tier quick|thorough] [--jobs N] [--checks all|own|C01,C02] <id>=<patch.diff>[:prop] | <seeded-id> ...
  <seeded-id> = directory name under /verif/seeded (patch.diff + meta.json)."""
import json, os, shutil, subprocess, sys, threading
from concurrent.futures import ThreadPoolExecutor
VERIF = os.path.dirname(os.path.dirname(os.path.abspath(__file__)))
ROOT = "/tmp/probe_par"
ALL = ["C%02d" % i for i in range(1, 21)]
lock = threading.Lock()

def sh(cmd, **kw):
    return subprocess.run(cmd, capture_output=True, text=True, **kw)

def one(sid, patch, own, checks, tier, out_path, results, workers, build_jobs):
    base = os.path.join(ROOT, sid)
    shutil.rmtree(base, ignore_errors=True)
    os.makedirs(base)
    repo = os.path.join(base, "repo"); ver = os.path.join(base, "verif")
    entry = {"property": own, "checks": {}}
    try:
        a = sh(["git", "-C", "/repo", "worktree", "add", "--detach", repo, "HEAD"])
        if a.returncode: raise RuntimeError("worktree: " + a.stderr[-300:])
        a = sh(["git", "-C", repo, "apply", patch])
        if a.returncode: raise RuntimeError("patch does not apply: " + a.stderr[-300:])
        sh(["rsync", "-a", "--exclude", "target", "--exclude", ".git", "--exclude", "replays", "--exclude", "evidence",
            "--exclude", "seeded", "--exclude", "notes", VERIF + "/", ver + "/"])
        ct = os.path.join(ver, "harness", "Cargo.toml")
        s = open(ct).read().replace('path = "/repo"', 'path = "%s"' % repo)
        open(ct, "w").write(s)
        env = dict(os.environ); env["VERIF_WORKERS"] = str(workers); env["CARGO_BUILD_JOBS"] = str(build_jobs)
        plist = ALL if checks == "all" else ([own] if checks == "own" else checks.split(","))
        for prop in plist:
            p = sh([os.path.join(ver, "check"), prop, tier], cwd=ver, env=env)
            sigs = []
            try:
                ev = json.load(open(os.path.join(ver, "evidence", prop + ".json")))
                sigs = sorted({v["signature"] for v in ev["coverage"]["violation_signatures"]})
            except Exception as e:
                sigs = ["<no evidence: %s>" % e] if p.returncode != 2 else []
            entry["checks"]["%s/%s" % (prop, tier)] = {
                "exit": p.returncode, "n_signatures": len(sigs), "signatures": sigs[:12],
                "last_line": (p.stdout.strip().splitlines() or [""])[-1][:300] if p.returncode == 2 else ""}
            print(sid, prop, tier, "exit", p.returncode, len(sigs), "signatures", flush=True)
            try: os.remove(os.path.join(ver, "evidence", prop + ".json"))
            except OSError: pass
    except Exception as e:
        entry["error"] = str(e); print(sid, "ERROR", e, flush=True)
    finally:
        sh(["git", "-C", "/repo", "worktree", "remove", "--force", repo])
        shutil.rmtree(base, ignore_errors=True)
    with lock:
        results[sid] = entry
        json.dump(results, open(out_path, "w"), indent=1, ensure_ascii=False)

def main():
    args = sys.argv[1:]
    out_path = args.pop(0)
    tier, jobs, checks = "quick", 4, "own"
    while args and args[0].startswith("--"):
        if args[0] == "--tier": tier = args[1]
        elif args[0] == "--jobs": jobs = int(args[1])
        elif args[0] == "--checks": checks = args[1]
        args = args[2:]
    results = json.load(open(out_path)) if os.path.exists(out_path) else {}
    os.makedirs(ROOT, exist_ok=True)
    specs = []
    for spec in args:
        if "=" in spec:
            sid, rest = spec.split("=", 1)
            patch, _, own = rest.partition(":")
            own = own or sid.split("-")[0]
        else:
            sid = spec; patch = os.path.join(VERIF, "seeded", sid, "patch.diff")
            own = json.load(open(os.path.join(VERIF, "seeded", sid, "meta.json")))["property"]
        specs.append((sid, os.path.abspath(patch), own))
    workers = max(4, 16 // jobs + 2); build_jobs = max(2, 16 // jobs)
    with ThreadPoolExecutor(jobs) as ex:
        for sid, patch, own in specs:
            ex.submit(one, sid, patch, own, checks, tier, out_path, results, workers, build_jobs)
    sh(["git", "-C", "/repo", "worktree", "prune"])
    print("done; /repo:", sh(["git", "-C", "/repo", "status", "--porcelain", "--untracked-files=no"]).stdout.strip() or "clean")

if __name__ == "__main__":
    main()
