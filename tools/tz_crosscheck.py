#!/usr/bin/env python3
"""Cross-checks the harness's TZif reference (tzif_ref) against CPython's zoneinfo on the lookups the
C18 run actually made.  Input: TSV lines "path<TAB>unix_ts<TAB>reference_offset_seconds".

How CPython is asked: `fromutc()` of the pure-Python implementation (zoneinfo._zoneinfo) — the UTC→offset
function itself.  `astimezone().utcoffset()` is NOT used: it goes back through a local-time lookup, which
cannot represent tables whose transitions are closer together than the offset jump (synthetic files), and
the C accelerator has been seen to crash on extended /time values such as `/-100`.
Files whose footer uses the zero-based `n` day form are skipped: CPython (3.11) evaluates `n` like `Jn`
(one day early) — a CPython deviation from POSIX, the in-crate astrolabe tests and tzif_ref agree with POSIX.
Files whose footer uses exactly `J59` are skipped too: CPython moves Jn for n >= 59 in leap years, so J59
becomes 29 February there; POSIX: "February 28 is day 59 and March 1 is day 60".

exit 0: all agree (prints a JSON summary) / 1: disagreements / 2: zoneinfo not usable here."""
import collections, json, re, sys
try:
    from zoneinfo import _zoneinfo as zoneinfo
    from datetime import datetime, timedelta
except Exception as e:  # pragma: no cover
    print(json.dumps({"status": "unavailable", "why": str(e)})); sys.exit(2)

N_RULE = re.compile(r",(\d+)(/[-+0-9:]+)?(,|$)")
# CPython shifts Jn for n >= 59 in leap years; POSIX says J59 is always 28 February (only J60.. move)
J59_RULE = re.compile(r",J59(/[-+0-9:]+)?(,|$)")

def footer_of(data):
    if data[4:5] == b"\0":
        return ""
    end = data.rstrip(b"\n")
    return end[end.rfind(b"\n") + 1:].decode("ascii", "replace")

def main(path):
    by_file = collections.OrderedDict()
    with open(path) as f:
        for line in f:
            p, ts, off = line.rstrip("\n").split("\t")
            by_file.setdefault(p, []).append((int(ts), int(off)))
    epoch = datetime(1970, 1, 1)
    files = lookups = not_loaded = n_rule_skipped = j59_skipped = 0
    bad = []
    for p, rows in by_file.items():
        try:
            with open(p, "rb") as fh:
                data = fh.read()
            if N_RULE.search(footer_of(data)):
                n_rule_skipped += 1
                continue
            if J59_RULE.search(footer_of(data)):
                j59_skipped += 1
                continue
            with open(p, "rb") as fh:
                zi = zoneinfo.ZoneInfo.from_file(fh)
        except Exception:
            not_loaded += 1
            continue
        files += 1
        for ts, off in rows:
            try:
                utc = epoch + timedelta(seconds=ts)
                local = zi.fromutc(utc.replace(tzinfo=zi)).replace(tzinfo=None)
                got = int((local - utc).total_seconds())
            except Exception:
                continue
            lookups += 1
            if got != off and len(bad) < 20:
                bad.append({"file": p, "ts": ts, "tzif_ref": off, "cpython": got})
    print(json.dumps({"status": "ok" if not bad else "disagree", "files": files, "files_cpython_could_not_load": not_loaded,
                      "files_skipped_zero_based_day_rule": n_rule_skipped, "files_skipped_J59_rule": j59_skipped, "lookups": lookups, "disagreements": bad}))
    sys.exit(1 if bad else 0)

if __name__ == "__main__":
    main(sys.argv[1])
