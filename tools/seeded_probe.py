#!/usr/bin/env python3
"""Applies each kept seeded change (/verif/seeded/<id>/patch.diff) to /repo in turn, runs the listed
property checks, records exit codes and signatures, and undoes the change straight afterwards
(git -C /repo checkout -- .).  Not a MANIFEST command.
usage: seeded_probe.py <out.json> [--tier quick|thorough] <id>[:Cnn,Cnn…] …   (default checks: meta.json's property)"""
import json, os, subprocess, sys
VERIF = os.path.dirname(os.path.dirname(os.path.abspath(__file__)))

def git(*a):
    return subprocess.run(["git", "-C", "/repo"] + list(a), capture_output=True, text=True)

def main():
    args = sys.argv[1:]
    out_path = args.pop(0)
    tier = "quick"
    if args and args[0] == "--tier":
        tier = args[1]; args = args[2:]
    if git("status", "--porcelain", "--untracked-files=no").stdout.strip():
        print("refusing: /repo has uncommitted changes"); sys.exit(2)
    results = json.load(open(out_path)) if os.path.exists(out_path) else {}
    for spec in args:
        sid, _, props = spec.partition(":")
        d = os.path.join(VERIF, "seeded", sid)
        meta = json.load(open(os.path.join(d, "meta.json")))
        plist = props.split(",") if props else [meta["property"]]
        entry = results.get(sid, {"property": meta["property"], "checks": {}})
        try:
            a = git("apply", os.path.join(d, "patch.diff"))
            if a.returncode != 0:
                entry["error"] = "patch does not apply: " + a.stderr[-300:]
            else:
                for prop in plist:
                    p = subprocess.run([os.path.join(VERIF, "check"), prop, tier], cwd=VERIF, capture_output=True, text=True)
                    sigs = []
                    try:
                        ev = json.load(open(os.path.join(VERIF, "evidence", prop + ".json")))
                        sigs = sorted({v["signature"] for v in ev["coverage"]["violation_signatures"]})
                    except Exception as e:
                        sigs = ["<no evidence: %s>" % e]
                    entry["checks"]["%s/%s" % (prop, tier)] = {"exit": p.returncode, "n_signatures": len(sigs), "signatures": sigs[:12],
                                                                 "last_line": (p.stdout.strip().splitlines() or [""])[-1][:200] if p.returncode == 2 else ""}
                    print(sid, prop, tier, "exit", p.returncode, len(sigs), "signatures", flush=True)
        finally:
            git("checkout", "--", ".")
        results[sid] = entry
        json.dump(results, open(out_path, "w"), indent=1, ensure_ascii=False)
    print("restored /repo:", git("status", "--porcelain", "--untracked-files=no").stdout.strip() or "clean")

if __name__ == "__main__":
    main()
