#!/usr/bin/env python3
"""For each listed fix commit of /repo: temporarily revert it in the working tree (git revert -n), run the
given property checks (quick), record the signatures they raise, and restore the tree (git reset --hard).
Used (a) to fill known_findings.json's `fixed` entries with the exact signatures and (b) as evidence
that each monitor detects the defect its fix repaired.  Not a MANIFEST command.

usage: tools/revert_probe.py <out.json> <commit>:<Cnn>[,<Cnn>...] ..."""
import json, os, subprocess, sys
VERIF = os.path.dirname(os.path.dirname(os.path.abspath(__file__)))

def git(*a, check=True):
    return subprocess.run(["git", "-C", "/repo"] + list(a), capture_output=True, text=True, check=check)

def main():
    out_path = sys.argv[1]
    if git("status", "--porcelain", "--untracked-files=no").stdout.strip():
        print("refusing: /repo has uncommitted changes"); sys.exit(2)
    results = json.load(open(out_path)) if os.path.exists(out_path) else {}
    for spec in sys.argv[2:]:
        commit, props = spec.split(":")
        subject = git("log", "-1", "--format=%s", commit).stdout.strip()
        entry = {"subject": subject, "checks": {}}
        try:
            r = git("revert", "-n", commit, check=False)
            if r.returncode != 0:
                entry["error"] = "revert did not apply cleanly: " + (r.stderr or r.stdout)[-300:]
            else:
                for prop in props.split(","):
                    p = subprocess.run([os.path.join(VERIF, "check"), prop, "quick"], cwd=VERIF, capture_output=True, text=True)
                    sigs = []
                    try:
                        ev = json.load(open(os.path.join(VERIF, "evidence", prop + ".json")))
                        sigs = sorted({(v["signature"]) for v in ev["coverage"]["violation_signatures"]})
                    except Exception as e:
                        sigs = ["<no evidence: %s>" % e]
                    entry["checks"][prop] = {"exit": p.returncode, "signatures": sigs[:40], "n_signatures": len(sigs)}
                    print(commit[:7], prop, "exit", p.returncode, len(sigs), "signatures", flush=True)
        finally:
            git("reset", "--hard", "HEAD")
        results[commit[:7]] = entry
        json.dump(results, open(out_path, "w"), indent=1, ensure_ascii=False)
    print("restored /repo:", git("status", "--porcelain", "--untracked-files=no").stdout.strip() or "clean")

if __name__ == "__main__":
    main()
